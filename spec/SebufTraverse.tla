---------------------------- MODULE SebufTraverse ----------------------------
(***************************************************************************)
(* C16 at the design level: the traversals the generators perform over the *)
(* message graph (message closure for TypeScript and OpenAPI, unwrap       *)
(* collection, mock field assignment), written step-wise.  With a visited  *)
(* set a traversal terminates on every graph (liveness under weak          *)
(* fairness); D_no_visited models a traversal that recurses into message   *)
(* fields without one (TLC then shows the lasso on a recursive graph).     *)
(***************************************************************************)
EXTENDS Naturals, Sequences, FiniteSets, TLC, SequencesExt

CONSTANT Dev
CONSTANT Nodes            \* message names, e.g. {"A", "B", "C"}

VARIABLES graph,          \* the reference graph: Nodes -> SUBSET Nodes
          stack,          \* work list of the traversal
          visited, emitted, state
tvars == <<graph, stack, visited, emitted, state>>

Graphs == [Nodes -> SUBSET Nodes]     \* every shape incl. self / mutual recursion

Init == /\ graph \in Graphs
        /\ stack = <<CHOOSE n \in Nodes : TRUE>> /\ visited = {} /\ emitted = 0 /\ state = "running"

Visit == /\ state = "running" /\ stack # <<>>
         /\ LET n == Head(stack) IN
            IF n \in visited /\ "D_no_visited" \notin Dev
            THEN /\ stack' = Tail(stack) /\ UNCHANGED <<visited, emitted>>
            ELSE /\ visited' = visited \cup {n}
                 /\ emitted' = IF emitted < 3 THEN emitted + 1 ELSE emitted   \* bounded counter: output grows
                 /\ stack' = SetToSeq(graph[n]) \o Tail(stack)
         /\ UNCHANGED <<graph, state>>

Finish == /\ state = "running" /\ stack = <<>> /\ state' = "answered"
          /\ UNCHANGED <<graph, stack, visited, emitted>>

Next == Visit \/ Finish
Spec == Init /\ [][Next]_tvars /\ WF_tvars(Next)

C16_Ends == <>(state = "answered")
C16_StackBounded == Len(stack) <= Cardinality(Nodes) * Cardinality(Nodes) + 1
=============================================================================
