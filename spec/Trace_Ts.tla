------------------------------ MODULE Trace_Ts ------------------------------
(***************************************************************************)
(* Trace validation for C07 on the REAL TypeScript declarations emitted by *)
(* protoc-gen-ts-client / protoc-gen-ts-server (read into the abstract     *)
(* syntax of SebufTs by harness/tsdecl).                                   *)
(*   Schema  : the abstract schema                                         *)
(*   TsDecls : the declarations of the client and of the server module     *)
(*             for one file (client = server for every message)            *)
(*   TsCheck : what = "result"  : wire JSON of the real Go server for an   *)
(*                                RPC, against the TS client's result type *)
(*             what = "request" : the contract form Enc(schema, value) of  *)
(*                                a request the Go server accepts, against *)
(*                                the declared request interface           *)
(*             what = "handler" : the object the real TS server handed to  *)
(*                                the handler, against the request type    *)
(***************************************************************************)
EXTENDS SebufTs, Json, TLCExt
CONSTANT TraceFile, Inventory
Tr == ndJsonDeserialize(TraceFile)
VARIABLES l, sl, dl
tvars == <<l, sl, dl>>
schema == IF sl = 0 THEN [files |-> <<>>] ELSE Tr[sl].schema
cdecls == IF dl = 0 THEN <<>> ELSE Tr[dl].client
sdecls == IF dl = 0 THEN <<>> ELSE Tr[dl].server

IsEvent(e) == l <= Len(Tr) /\ Tr[l].event = e /\ l' = l + 1
Say(ok, how) == PrintT(<<"VERDICT", l, ok, how>>) /\ (Inventory \/ ok)

TInit == l = 1 /\ sl = 0 /\ dl = 0 /\ TLCSet(1, 1)
TSchema == IsEvent("Schema") /\ sl' = l /\ UNCHANGED dl

DeclsHow(e) == IF ~e.parsed THEN "declarations_unreadable"
               ELSE IF ~SameDecls(e.client, e.server, Range(e.msgs)) THEN "client_and_server_declare_differently"
               ELSE "ok"
TDecls == /\ IsEvent("TsDecls") /\ dl' = l
          /\ LET h == DeclsHow(Tr[l]) IN Say(h = "ok" \/ h \in Dev, h)
          /\ UNCHANGED sl

\* guards of the listed findings
TsNotString(f) == \/ f.kind \in {"int32", "sint32", "sfixed32", "uint32", "fixed32", "float", "double", "bool"}
                  \/ (f.kind \in {"int64", "sint64", "sfixed64", "uint64", "fixed64"} /\ f.ann.int64 = "NUMBER")
PathVarNotString(e) == /\ "D_ts_server_path_params_raw_strings" \in Dev /\ e.what = "handler" /\ HasMsg(schema, e.msg)
                       /\ \E f \in Range(MsgByName(schema, e.msg).fields) : f.name \in Range(e.pathVars) /\ TsNotString(f)
\* where the Go server does not speak the contract form (C05's findings), the contract-form half of
\* the statement is vacuous: only the real wire is judged
\* (D_nested_codec_ignored is one definite wire form - nested messages in plain proto3 JSON -, not a licence)
C05Guard(e) ==
  LET top == e.val.type IN
  IF "D_nested_codec_ignored" \in Dev /\ NestedAnnotated(schema, top)
     /\ (~e.hasJson \/ Canon(e.json) = Enc(schema, e.val) \/ Canon(e.json) = EncPlainNested(schema, e.val)) THEN "D_nested_codec_ignored"
  ELSE IF "D_stdjson_children" \in Dev /\ StdJsonOnPath(schema, top) THEN "D_stdjson_children"
  ELSE IF "D_enum_annotations_ignored" \in Dev /\ EnumAnnotated(schema, top) THEN "D_enum_annotations_ignored"
  ELSE ""
CheckHow(e) ==
  LET D == IF e.what = "handler" THEN sdecls ELSE cdecls
      cOK(lax) == ~e.hasVal \/ Inh(DeclTable(D), Enc(schema, e.val), e.ty, TsFuel, lax)
      wOK(lax) == ~e.hasJson \/ Inh(DeclTable(D), Canon(e.json), e.ty, TsFuel, lax)
      g == IF e.hasVal THEN C05Guard(e) ELSE ""
  IN IF cOK(FALSE) /\ wOK(FALSE) THEN "ok"
     \* proto3 JSON omits zero-valued members which the interfaces declare as required: every member
     \* present is still of its declared type and declared (request bodies and server results only)
     ELSE IF "D_ts_zero_fields_required" \in Dev /\ e.what \in {"request", "result"} /\ cOK(TRUE) /\ wOK(TRUE) THEN "D_ts_zero_fields_required"
     ELSE IF PathVarNotString(e) THEN "D_ts_server_path_params_raw_strings"
     \* (a root-unwrap message as the VALUE of a map is declared right - Record<string, X[]> - and is no part of
     \* the finding: the message must be the request itself or sit behind a singular / repeated / oneof field)
     ELSE IF "D_ts_root_unwrap_only_results" \in Dev /\ e.hasVal /\ HasMsg(schema, e.val.type)
             /\ \/ (e.what = "request" /\ IsRootUnwrap(MsgByName(schema, e.val.type)))
                \/ \E m \in Reach(schema, {e.val.type}, {}) : \E f \in Range(MsgByName(schema, m).fields) :
                      f.kind = "message" /\ f.card # "map" /\ HasMsg(schema, f.ref) /\ IsRootUnwrap(MsgByName(schema, f.ref))
          THEN "D_ts_root_unwrap_only_results"
     ELSE IF "D_ts_wkt_as_objects" \in Dev /\ e.hasVal /\ WktScalarReachable(schema, e.val.type) THEN "D_ts_wkt_as_objects"
     ELSE IF "D_ts_nested_flatten" \in Dev /\ e.hasVal /\ NestedFlatten(schema, e.val.type) THEN "D_ts_nested_flatten"
     ELSE IF g # "" /\ (wOK(TRUE) \/ cOK(TRUE)) THEN g
     ELSE IF ~cOK(TRUE) THEN "contract_form_not_in_type"
     \* (a wire that is neither the contract form nor a listed finding of C05 and is not a value of the declared
     \* type is a violation here as well, whoever is to blame)
     ELSE CASE e.what = "result" -> "wire_not_in_result_type" [] e.what = "handler" -> "handler_argument_not_in_request_type" [] OTHER -> "json_not_in_type"
TCheck == /\ IsEvent("TsCheck")
          /\ LET h == CheckHow(Tr[l]) IN
               /\ Say(h \in {"ok", "wire_not_contract_form"} \cup Dev, h)
               \* diagnosis: the contract form TLC computed for a value it rejects
               /\ IF h \in {"ok", "wire_not_contract_form"} \cup Dev \/ ~Tr[l].hasVal THEN TRUE
                  ELSE PrintT(<<"EXPECT", l, ToJson(Enc(schema, Tr[l].val))>>)
          /\ UNCHANGED <<sl, dl>>

TNext == TSchema \/ TDecls \/ TCheck
TSpec == TInit /\ [][TNext]_tvars
=============================================================================
