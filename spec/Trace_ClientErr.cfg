SPECIFICATION TSpec
CONSTANTS
  Dev = {}
  Enforce = {"C10", "C11"}
  TraceFile = "trace.ndjson"
CHECK_DEADLOCK FALSE
