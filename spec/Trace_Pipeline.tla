--------------------------- MODULE Trace_Pipeline ---------------------------
(***************************************************************************)
(* Trace validation of SebufPipeline: "Schema" lines load an abstract      *)
(* schema (as logged by the harness, evaluated here as is), "Gen" lines    *)
(* are real plugin runs (plugin process boundary: exit kind, error text    *)
(* abstraction, emitted files with content identities).                    *)
(***************************************************************************)
EXTENDS SebufPipeline, Json, TLCExt

CONSTANT TraceFile
Tr == ndJsonDeserialize(TraceFile)

VARIABLE l
tvars == <<pvars, l>>

IsEvent(e) == l <= Len(Tr) /\ Tr[l].event = e /\ l' = l + 1

TInit == /\ schema = [files |-> <<>>] /\ domain = TRUE /\ seen = <<>> /\ stripped = <<>> /\ runs = 0 /\ codecBase = <<>> /\ outNames = <<>> /\ accepted = {} /\ l = 1
         /\ TLCSet(1, 1)

TSchema == IsEvent("Schema") /\ Load(Tr[l].schema, Tr[l].domain)

Outcome(e) == [exit |-> e.exit, nfiles |-> e.nfiles, mentions |-> Range(e.mentions), files |-> Range(e.files), gen |-> Range(e.gen)]
TGen == IsEvent("Gen") /\ Run(Tr[l].plugin, Tr[l].variant, Outcome(Tr[l]))

TDecls == IsEvent("Decls") /\ NoDupDecls(Range(Tr[l].subset), Range(Tr[l].dups)) /\ Instrument
TBuild == IsEvent("Build") /\ Builds(Tr[l].kind, Range(Tr[l].subset), Tr[l].ok, Tr[l].diag) /\ Instrument

TNext == TSchema \/ TGen \/ TDecls \/ TBuild
TSpec == TInit /\ [][TNext]_tvars

HighWater == TLCSet(1, IF l > TLCGet(1) THEN l ELSE TLCGet(1))
Accepted == IF TLCGet(1) = Len(Tr) + 1 THEN TRUE
            ELSE /\ PrintT(<<"TRACE_REJECTED_AT_LINE", TLCGet(1)>>)
                 /\ FALSE
=============================================================================
