SPECIFICATION TSpec
CONSTANTS
  Dev = {}
  Enforce = {"C06", "C18", "C19"}
  Inventory = TRUE
  TraceFile = "trace.ndjson"
CHECK_DEADLOCK FALSE
