---------------------------- MODULE Trace_OpenApi ----------------------------
(***************************************************************************)
(* Trace validation for C06 / C18 / C19 on the REAL documents emitted by   *)
(* protoc-gen-openapiv3 (JSON rendering, tokenised by the harness).        *)
(*   Schema : the abstract schema        Doc : one service's document      *)
(*   Check  : an instance (wire JSON of the real server / client, and the  *)
(*            value it encodes) against the schema node the document       *)
(*            gives for that operation, direction and status        (C06)  *)
(*   Files  : the documents emitted for a file's services           (C18)  *)
(*   Probe  : a rule probe: verdict of the rule semantics vs verdict of    *)
(*            the instrument on the emitted field schema            (C19)  *)
(***************************************************************************)
EXTENDS SebufMock, SebufRules, Json, TLCExt

CONSTANT TraceFile, Enforce, Inventory
Tr == ndJsonDeserialize(TraceFile)

VARIABLES l, sl, doc, tv
tvars == <<l, sl, doc, tv>>
schema == IF sl = 0 THEN [files |-> <<>>] ELSE Tr[sl].schema

IsEvent(e) == l <= Len(Tr) /\ Tr[l].event = e /\ l' = l + 1
Say(ok, how) == PrintT(<<"VERDICT", l, ok, how>>) /\ (Inventory \/ ok)

TInit == l = 1 /\ sl = 0 /\ doc = [t |-> "null"] /\ tv = <<>> /\ TLCSet(1, 1)
TSchema == IsEvent("Schema") /\ sl' = l /\ UNCHANGED <<doc, tv>>

Builtins == {"Error", "ValidationError", "FieldViolation"}
RECURSIVE ReachM(_, _, _)
ReachM(s, todo, seen) ==
  IF todo = {} THEN seen
  ELSE LET n == CHOOSE x \in todo : TRUE
           refs == IF HasMsg(s, n) THEN {f.ref : f \in {g \in Range(MsgByName(s, n).fields) : g.kind = "message" /\ HasMsg(s, g.ref)}} ELSE {}
       IN ReachM(s, (todo \cup refs) \ (seen \cup {n}), seen \cup {n})
ServiceMsgs(s, svcName) ==
  LET sv == CHOOSE x \in UNION {Range(f.services) : f \in Range(s.files)} : x.name = svcName
  IN ReachM(s, {me.in : me \in Range(sv.methods)} \cup {me.out : me \in Range(sv.methods)}, {})

\* C18 on one document
DocHow(e, d) ==
  LET vars == [p \in {x.path : x \in Range(e.tmplVars)} |-> Range((CHOOSE x \in Range(e.tmplVars) : x.path = p).vars)]
      sv == CHOOSE x \in UNION {Range(f.services) : f \in Range(schema.files)} : x.name = e.svc
  IN IF ~RefsResolve(d) THEN "unresolved_ref"
     ELSE IF ~PathVarsDeclaredOnce(d, vars) THEN "path_vars"
     ELSE IF ~ParamNamesUniquePerLocation(d) THEN "param_names"
     ELSE IF ~OperationIdsUnique(d) THEN "operation_ids"
     ELSE IF {StrOf(Get(o.op, "operationId")) : o \in {x \in Operations(d) : Has(x.op, "operationId")}} # {me.name : me \in Range(sv.methods)}
          THEN "operations_vs_rpcs"
     ELSE IF Cardinality(SchemaNames(d) \ Builtins) < Cardinality(ServiceMsgs(schema, e.svc))
          THEN (IF "D_schema_short_names" \in Dev THEN "D_schema_short_names" ELSE "missing_schemas")
     ELSE IF ~e.yamlEqJson THEN "yaml_ne_json"
     ELSE "ok"

TDoc == /\ IsEvent("Doc")
        /\ doc' = Canon(Tr[l].tree) /\ tv' = Tr[l].tmplVars
        /\ "C18" \in Enforce => LET h == DocHow(Tr[l], Canon(Tr[l].tree)) IN Say(h \in {"ok", "D_schema_short_names"}, h)
        /\ UNCHANGED sl

\* C18: one document per service
TFiles == /\ IsEvent("Files")
          /\ "C18" \in Enforce =>
               LET svcs == {sv.name : sv \in UNION {Range(f.services) : f \in {g \in Range(schema.files) : g.generate}}}
               IN Say(Range(Tr[l].docs) = svcs /\ Len(Tr[l].docs) = Cardinality(svcs), "one_doc_per_service")
          /\ UNCHANGED <<sl, doc, tv>>

\* C06
\* Validates interprets the structural keywords; the value-constraining ones (lengths, bounds,
\* patterns) are judged by the instrument (jsonschema, Draft 2020-12) on the schema as emitted and
\* the body as sent: e.instr is "valid", "invalid" or "n/a" (nothing to judge)
WireOK(e)     == e.ok /\ e.instr # "invalid" /\ LET j == Canon(e.json) S == Canon(e.sch) IN Validates(j, S, doc) /\ Described(j, S, doc)
ContractOK(e) == LET j == Enc(schema, e.val) S == Canon(e.sch) IN Validates(j, S, doc) /\ Described(j, S, doc)
C05Known(e) == LET top == e.val.type IN
                 \/ ("D_nested_codec_ignored" \in Dev /\ NestedAnnotated(schema, top) /\ Canon(e.json) = EncPlainNested(schema, e.val))
                 \/ ("D_enum_annotations_ignored" \in Dev /\ EnumAnnotated(schema, top))
                 \/ ("D_flatten_of_root_unwrap" \in Dev /\ FlattenOfRootUnwrap(schema, top))
CheckHow(e) ==
  \* a value that breaks a required rule is not a request the server accepts nor a reply it sends
  IF e.hasVal /\ ~SatisfiesRules(schema, e.val) THEN "ok"
  ELSE IF e.hasVal /\ ~ContractOK(e)
  THEN (IF "D_openapi_wkt_as_objects" \in Dev /\ WktScalarReachable(schema, e.val.type) THEN "D_openapi_wkt_as_objects"
        ELSE IF "D_openapi_nested_flatten" \in Dev /\ NestedFlatten(schema, e.val.type) THEN "D_openapi_nested_flatten"
        ELSE IF "D_oneof_schema" \in Dev /\ OneofCfgReachable(schema, e.val.type) THEN "D_oneof_schema"
        ELSE "contract_form_invalid")
  ELSE IF WireOK(e) THEN "ok"
  \* a wire form that is a listed finding of C05 (the server does not speak the contract form there) is that
  \* finding; any other body the document does not accept is a violation here, whoever is to blame
  ELSE IF e.hasVal /\ Canon(e.json) # Enc(schema, e.val) /\ C05Known(e) THEN "wire_not_contract_form"
  ELSE "wire_invalid"
TCheck == /\ IsEvent("Check")
          /\ "C06" \in Enforce => LET h == CheckHow(Tr[l]) IN Say(h \in {"ok", "wire_not_contract_form", "D_oneof_schema", "D_openapi_nested_flatten", "D_openapi_wkt_as_objects"}, h)
          /\ UNCHANGED <<sl, doc, tv>>

\* C06, parameters: a value a real client put into the URL (path segment, query occurrence) for a field
\* must be a value of the parameter the document declares under that name and location.  The wire text
\* is read as the declared type reads it (a number / boolean literal for integer, number, boolean; an
\* element of the array for a repeated parameter; the text itself for a string) and the instrument
\* (jsonschema, Draft 2020-12) judges it against the parameter's schema as emitted.
ParamHow(e) ==
  IF ~e.declared THEN "parameter_not_declared"
  ELSE IF \E i \in DOMAIN e.values : e.values[i].instr = "invalid" THEN "sent_value_invalid"
  ELSE "ok"
TParam == /\ IsEvent("Param")
          /\ "C06" \in Enforce => LET h == ParamHow(Tr[l]) IN Say(h = "ok", h)
          /\ UNCHANGED <<sl, doc, tv>>

\* C19: rule semantics (SebufRules) vs what the emitted constraints accept (instrument verdict)
TProbe == /\ IsEvent("Probe")
          /\ "C19" \in Enforce => LET h == ProbeHow(Tr[l], Dev) IN Say(h \in {"ok"} \cup Dev, h)
          /\ UNCHANGED <<sl, doc, tv>>

\* C20 (SebufMock): the mock server builds, answers a valid request with a response the server can
\* serialise and that satisfies the published response schema, and a field with usable examples
\* takes one of them
MockBuildHow(e) == IF e.ok THEN "ok" ELSE "mock_does_not_build"
MockHow(e) ==
  IF ~e.ok THEN "mock_call_failed"
  ELSE LET j == Canon(e.json) S == Canon(e.sch) IN
       IF ~MockReplyConforms(j, S, doc) THEN "reply_violates_response_schema"
       ELSE IF ~ExamplesUsed(e.leaves) THEN "example_not_used"
       ELSE "ok"
TMockBuild == /\ IsEvent("MockBuild")
              /\ "C20" \in Enforce => LET h == MockBuildHow(Tr[l]) IN Say(h = "ok" \/ h \in Dev, h)
              /\ UNCHANGED <<sl, doc, tv>>
TMock == /\ IsEvent("Mock")
         /\ "C20" \in Enforce => LET h == MockHow(Tr[l]) IN Say(h = "ok" \/ h \in Dev, h)
         /\ UNCHANGED <<sl, doc, tv>>

TNext == TSchema \/ TDoc \/ TFiles \/ TCheck \/ TParam \/ TProbe \/ TMockBuild \/ TMock
TSpec == TInit /\ [][TNext]_tvars
HighWater == TLCSet(1, IF l > TLCGet(1) THEN l ELSE TLCGet(1))
Accepted == TRUE
=============================================================================
