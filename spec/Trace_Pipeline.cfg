SPECIFICATION TSpec
CONSTANTS
  Dev = {}
  Enforce = {"C12", "C14", "C15", "C16"}
  TraceFile = "trace.ndjson"
CONSTRAINT HighWater
POSTCONDITION Accepted
CHECK_DEADLOCK FALSE
