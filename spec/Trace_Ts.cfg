SPECIFICATION TSpec
CONSTANTS
  Dev = {}
  Inventory = TRUE
  TraceFile = "trace.ndjson"
CHECK_DEADLOCK FALSE
