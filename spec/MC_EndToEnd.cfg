SPECIFICATION ESpec
CONSTANTS
  Dev = {}
INVARIANTS
  ETypeOK
  TypeOK
  E2E_ReqEq
  E2E_Accepted
  E2E_RespEq
  E2E_HandlerError
  E2E_Refused
  E2E_Total
  C01_ServerReq
  C02_UrlWins
CHECK_DEADLOCK FALSE
