\* the same composition under the open findings that change what a server does with a request:
\* do the generated clients and servers still fit? (they do: the clients put every non-zero field
\* into the body as well, which is what the TS server reads on verbs with a body)
SPECIFICATION ESpec
CONSTANTS
  Dev = {"D_client_query_in_body", "D_ts_server_url_values_unchecked"}
INVARIANTS
  ETypeOK
  E2E_ReqEq
  E2E_Accepted
  E2E_RespEq
  E2E_HandlerError
  E2E_Refused
  E2E_Total
CHECK_DEADLOCK FALSE
