SPECIFICATION TSpec
CONSTANTS
  Dev = {}
  TraceFile = "trace.ndjson"
CONSTRAINT HighWater
POSTCONDITION Accepted
CHECK_DEADLOCK FALSE
