------------------------------- MODULE MC_Call -------------------------------
(***************************************************************************)
(* C01 family: verb x URL-field kind x value classes x content type, with  *)
(* a body field of several shapes on body verbs.  The model runs the       *)
(* contract client / server (identity on tokens) and checks the C01        *)
(* invariants on it; every case is exported for the replay against the     *)
(* real emitted Go client and Go server.                                   *)
(***************************************************************************)
EXTENDS SebufCall, Json
CONSTANT Export
VARIABLES fv
mvars == <<cvars, fv>>

Verbs == {"GET", "POST", "PUT", "DELETE", "PATCH"}
UrlKinds == {"string", "int32", "int64", "uint32", "uint64", "sint32", "sfixed64", "fixed32", "bool", "float", "double"}
\* (padded: a string that begins and ends with white space - blanks, a tab, a no-break space - which is part of the value)
Classes == {"ord", "zero", "min", "max", "big53", "nonascii", "urlreserved", "padded"}
\* (the last two carry a JSON-mapping annotation, int64_encoding NUMBER: the body then has a number where proto3
\* JSON has a string, and the values are beyond 2^53; the other annotations' wire forms are C04 / C05 / C14's)
BodyShapes == {"string", "int64", "msg", "rep", "map", "opt", "enum", "bytes", "double", "oneof", "ts",
               "int64num", "uint64num"}
Ctypes == {"json", "proto", "octet"}
\* route: "explicit" = the RPC has an http config with a path template /s<i>/{p}; "default" = no http
\* config at all (route derived from package and method name, verb POST, no URL-bound fields)
Routes == {"explicit", "default"}
Cases == {[verb |-> v, kind |-> k, pcls |-> pc, qcls |-> qc, bshape |-> bs, bcls |-> bc, ctype |-> ct, handler |-> h, route |-> "explicit"] :
            v \in Verbs, k \in UrlKinds, pc \in Classes \ {"zero"}, qc \in {"ord", "zero", "max", "urlreserved", "padded"},
            bs \in BodyShapes, bc \in {"ord", "zero", "max"}, ct \in Ctypes, h \in {"ok"}}
DefaultCases == {[verb |-> "POST", kind |-> "string", pcls |-> "ord", qcls |-> "ord", bshape |-> bs, bcls |-> bc, ctype |-> ct, handler |-> "ok", route |-> "default"] :
                   bs \in BodyShapes, bc \in {"ord", "zero", "max"}, ct \in Ctypes}
\* pruning: vary one dimension at a time around a base point (the full product is 1.4 M cases)
Base(c) == [c EXCEPT !.pcls = "ord", !.qcls = "ord", !.bshape = "string", !.bcls = "ord", !.ctype = "json"]
Near(c) == Cardinality({d \in {"pcls", "qcls", "bshape", "bcls", "ctype"} : c[d] # Base(c)[d]}) <= 1
           \/ (c.ctype # "json" /\ c.bshape # "string" /\ c.pcls = "ord" /\ c.qcls = "ord" /\ c.bcls = "ord")
\* (verbs without a body have no body dimensions, but the content type the client is configured with
\* still decides how the response travels)
Family == {c \in Cases : Near(c) /\ (~BodyVerb(c.verb) => (c.bshape = "string" /\ c.bcls = "ord"))}
          \cup {c \in DefaultCases : c.bcls = "ord" \/ c.ctype = "json"}

\* rep: a repeated query parameter, oq: a proto3-optional one (presence counts)
Fields(c) == IF c.route = "default" THEN <<"b">> ELSE IF BodyVerb(c.verb) THEN <<"p", "q", "rq", "rep", "oq", "rrep", "ropt", "b">> ELSE <<"p", "q", "rq", "rep", "oq", "rrep", "ropt">>
RpcOf(c) == [name |-> "M", verb |-> c.verb, fields |-> Fields(c), pathVars |-> IF c.route = "default" THEN <<>> ELSE <<"p">>,
             query |-> IF c.route = "default" THEN <<>>
                       ELSE <<[field |-> "q", name |-> "q", required |-> FALSE], [field |-> "rq", name |-> "rq", required |-> TRUE],
                              [field |-> "rep", name |-> "rep", required |-> FALSE], [field |-> "oq", name |-> "oq", required |-> FALSE],
                              \* required and repeated / required and proto3 optional
                              [field |-> "rrep", name |-> "rrep", required |-> TRUE], [field |-> "ropt", name |-> "ropt", required |-> TRUE]>>]
ValOf(c) == [i \in DOMAIN Fields(c) |-> [k |-> Fields(c)[i], v |-> "V_" \o Fields(c)[i]]]
CallOf(c) == [rpc |-> RpcOf(c), value |-> ValOf(c), zero |-> [i \in DOMAIN Fields(c) |-> [k |-> Fields(c)[i], v |-> "Z_" \o Fields(c)[i]]],
              ctype |-> c.ctype, resp |-> "RESP", handler |-> c.handler, hdrs |-> <<>>]

Init == fv \in Family /\ cpc = "idle" /\ call = [none |-> TRUE] /\ sentOK = FALSE
MStart == cpc = "idle" /\ Start(CallOf(fv)) /\ (Export => PrintT(<<"CASE", ToJson(fv)>>)) /\ UNCHANGED fv
\* the contract client: identity on tokens
ContractSent == [verb |-> call.rpc.verb, litsOK |-> TRUE, pathVals |-> call.value, hasBody |-> BodyVerb(call.rpc.verb),
                 bodyDecodes |-> TRUE, bodyVals |-> call.value, ctype |-> call.ctype, queryVals |-> call.value, hdrVals |-> call.hdrs]
MSent == cpc = "called" /\ Sent(ContractSent) /\ UNCHANGED fv
MSaw == cpc = "sent" /\ Saw([rpc |-> call.rpc.name, vals |-> call.value]) /\ UNCHANGED fv
MRet == cpc = "dispatched" /\ Ret([kind |-> "ok", val |-> call.resp, message |-> ""]) /\ UNCHANGED fv
Next == MStart \/ MSent \/ MSaw \/ MRet
Spec == Init /\ [][Next]_mvars
\* every call of the contract system completes
Completes == cpc = "returned" \/ ENABLED Next
=============================================================================
