SPECIFICATION TSpec
CONSTANTS
  Dev = {}
  Enforce = {"C04", "C05"}
  Inventory = FALSE
  Expect = FALSE
  TraceFile = "trace.ndjson"
CONSTRAINT HighWater
POSTCONDITION Accepted
CHECK_DEADLOCK FALSE
