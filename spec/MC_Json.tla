------------------------------- MODULE MC_Json -------------------------------
(***************************************************************************)
(* C04 / C05 family: every annotated construct in every context.  TLC      *)
(* checks that the family breaks no documented rule, exercises Enc on a    *)
(* symbolic fully-populated value of every case (the mapping is total and  *)
(* injective on the field names it produces: no two members of one object  *)
(* share a key) and exports the schemas for the replay.                    *)
(***************************************************************************)
EXTENDS SebufJson, SebufFamilies, Json

CONSTANT Export
VARIABLES fv, pc
vars == <<fv, pc>>

\* ... and every annotation on every field kind and cardinality it is accepted on (the singles of the
\* build family), as the only annotated field of the RPC's message
JsonSingles == {t \in C13Singles : t[1] \notin {"query", "path"}}
NoSingle == <<"", "", "">>
Cases == {[construct |-> c, context |-> cx, single |-> NoSingle] : c \in Constructs, cx \in Contexts}
         \cup {[construct |-> "single", context |-> "top", single |-> t] : t \in JsonSingles}
Build(c) == IF c.construct = "single" THEN C05Single("PFX", c.single) ELSE C05Case("PFX", c.construct, c.context)

\* a symbolic populated value of message M (depth-limited): every field present
SymLeaf(n) == LET j == [t |-> "str", v |-> "L:" \o n] IN
  [t |-> "s", std |-> j, num |-> [t |-> "num", v |-> "N:" \o n], custom |-> [t |-> "str", v |-> "C:" \o n],
   unixs |-> [t |-> "num", v |-> "US:" \o n], unixms |-> [t |-> "num", v |-> "UM:" \o n], date |-> [t |-> "str", v |-> "D:" \o n],
   b64 |-> j, b64raw |-> [t |-> "str", v |-> "BR:" \o n], b64url |-> [t |-> "str", v |-> "BU:" \o n],
   b64urlraw |-> [t |-> "str", v |-> "BUR:" \o n], hex |-> [t |-> "str", v |-> "H:" \o n],
   tok |-> n, tokS |-> n \o "/s", tokMs |-> n \o "/ms", tokDate |-> n \o "/d"]
RECURSIVE SymMsg(_, _, _), SymSingle(_, _, _, _)
SymSingle(s, f, path, d) ==
  IF f.kind = "message" /\ HasMsg(s, f.ref) /\ d > 0 THEN SymMsg(s, MsgByName(s, f.ref), d - 1)
  ELSE SymLeaf(path \o "." \o f.name)
SymMsg(s, M, d) ==
  LET firstOf(o) == CHOOSE f \in Range(M.fields) : f.oneof = o /\ \A g \in Range(M.fields) : g.oneof = o => g.num >= f.num
  IN [t |-> "m", type |-> M.full, empty |-> FALSE, tok |-> M.full,
      fs |-> [i \in DOMAIN M.fields |->
                LET f == M.fields[i]
                    one == SymSingle(s, f, M.name, d)
                IN [name |-> f.name,
                    has |-> IF f.oneof # "" THEN firstOf(f.oneof).name = f.name ELSE TRUE,
                    v |-> CASE f.card = "rep" -> [t |-> "l", es |-> <<one, one>>]
                            [] f.card = "map" -> [t |-> "mp", es |-> <<[k |-> "k1", v |-> one]>>]
                            [] OTHER -> one]]]

\* (the first file that declares a service: in the splitfiles layout the parts come first)
SvcFileIdx(s) == CHOOSE i \in DOMAIN s.files : Len(s.files[i].services) > 0 /\ \A j \in DOMAIN s.files : Len(s.files[j].services) > 0 => i <= j
TopMsg(s) == MsgByName(s, s.files[SvcFileIdx(s)].services[1].methods[1].in)

Init == fv \in Cases /\ pc = "new"
Load == /\ pc = "new" /\ pc' = "loaded"
        /\ (Export => PrintT(<<"CASE", ToJson([fv |-> fv, schema |-> Build(fv), domain |-> TRUE])>>))
        /\ UNCHANGED fv
Next == Load
Spec == Init /\ [][Next]_vars

FamilyValid == Violations(Build(fv)) = {}
\* Enc is defined on every case and produces an object (or the unwrapped container) without
\* colliding member names
RECURSIVE NoDupKeys(_)
NoDupKeys(j) == CASE j.t = "obj" -> /\ Cardinality({kv[1] : kv \in j.m}) = Cardinality(j.m)
                                      /\ \A kv \in j.m : NoDupKeys(kv[2])
                  [] j.t = "arr" -> \A i \in DOMAIN j.e : NoDupKeys(j.e[i])
                  [] OTHER -> TRUE
EncTotal == LET s == Build(fv) IN NoDupKeys(Enc(s, SymMsg(s, TopMsg(s), 3)))
\* the round-trip projection of an encoded value is the value itself where nothing lossy is annotated
\* with no annotation honoured anywhere the mapping is plain proto3 JSON, which never unwraps or flattens
PlainTotal == LET s == Build(fv) IN NoDupKeys(EncMsgVal(s, SymMsg(s, TopMsg(s), 3), FALSE, [nh |-> FALSE, fh |-> FALSE, nn |-> FALSE]))
=============================================================================
