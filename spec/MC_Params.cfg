SPECIFICATION Spec
CONSTANTS
  Export = FALSE
INVARIANTS
  FamilyValid
  AllBound
CHECK_DEADLOCK FALSE
