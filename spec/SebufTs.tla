------------------------------- MODULE SebufTs -------------------------------
(***************************************************************************)
(* The TypeScript side of the contract: when is a JSON value a value of a  *)
(* declared TypeScript type, with every member present in the value        *)
(* declared by the type at that position (C07).                            *)
(*                                                                         *)
(* Types are the abstract syntax the harness reads from the emitted        *)
(* declarations (harness/tsdecl):                                          *)
(*   [t |-> "prim", n]   string | number | boolean | null | undefined |    *)
(*                       unknown | any                                     *)
(*   [t |-> "lit", v]    string literal type                               *)
(*   [t |-> "ref", n]    named type, looked up in the declaration table D  *)
(*   [t |-> "arr", e]    [t |-> "rec", k, v]  (Record<k, v>)               *)
(*   [t |-> "union", alts]   [t |-> "inter", parts]                        *)
(*   [t |-> "obj", props : Seq([name, opt, ty])]                           *)
(* JSON values are the canonical trees of SebufJson (objects are sets of   *)
(* <<key, value>>).                                                        *)
(*                                                                         *)
(* Open(j, T): j has the shape T demands (members T does not mention are   *)
(* ignored); DK(j, T): the member names T declares for j; Inh(j, T) =      *)
(* Open and, at every object position, no member outside DK.  A union      *)
(* declares the members of the alternatives j has the shape of; an         *)
(* intersection declares the union of its parts' members.                  *)
(***************************************************************************)
EXTENDS SebufJson

JKeys(j) == IF j.t = "obj" THEN {kv[1] : kv \in j.m} ELSE {}
JHas(j, k) == j.t = "obj" /\ \E kv \in j.m : kv[1] = k
JGet(j, k) == (CHOOSE kv \in j.m : kv[1] = k)[2]

PrimOK(j, n) ==
  CASE n = "string" -> j.t = "str" [] n = "number" -> j.t = "num" [] n = "boolean" -> j.t = "bool"
    [] n = "null" -> j.t = "null" [] n \in {"unknown", "any"} -> TRUE [] OTHER -> FALSE

\* lax = TRUE: a required member may be absent (deviation D_ts_zero_fields_required, see Trace_Ts)
RECURSIVE Open(_, _, _, _, _), DK(_, _, _, _, _), Inh(_, _, _, _, _)
Inh(D, j, T, n, lax) == Open(D, j, T, n, lax) /\ (j.t = "obj" => JKeys(j) \subseteq DK(D, j, T, n, lax))
Open(D, j, T, n, lax) ==
  IF n = 0 THEN FALSE ELSE
  CASE T.t = "prim" -> PrimOK(j, T.n)
    [] T.t = "lit" -> j.t = "str" /\ j.v = T.v
    [] T.t = "ref" -> T.n \in DOMAIN D /\ Open(D, j, D[T.n], n - 1, lax)
    [] T.t = "arr" -> j.t = "arr" /\ \A i \in DOMAIN j.e : Inh(D, j.e[i], T.e, n - 1, lax)
    [] T.t = "rec" -> j.t = "obj" /\ \A kv \in j.m : Inh(D, kv[2], T.v, n - 1, lax)
    [] T.t = "union" -> \E i \in DOMAIN T.alts : Open(D, j, T.alts[i], n - 1, lax)
    [] T.t = "inter" -> \A i \in DOMAIN T.parts : Open(D, j, T.parts[i], n - 1, lax)
    [] T.t = "obj" -> /\ j.t = "obj"
                      /\ \A i \in DOMAIN T.props :
                            LET p == T.props[i] IN
                            IF JHas(j, p.name) THEN Inh(D, JGet(j, p.name), p.ty, n - 1, lax) ELSE (p.opt \/ lax)
    [] OTHER -> FALSE
DK(D, j, T, n, lax) ==
  IF n = 0 THEN {} ELSE
  CASE T.t = "prim" -> (IF T.n \in {"unknown", "any"} THEN JKeys(j) ELSE {})
    [] T.t = "ref" -> (IF T.n \in DOMAIN D THEN DK(D, j, D[T.n], n - 1, lax) ELSE {})
    [] T.t = "rec" -> JKeys(j)
    [] T.t = "union" -> UNION {DK(D, j, T.alts[i], n - 1, lax) : i \in {k \in DOMAIN T.alts : Open(D, j, T.alts[k], n - 1, lax)}}
    [] T.t = "inter" -> UNION {DK(D, j, T.parts[i], n - 1, lax) : i \in DOMAIN T.parts}
    [] T.t = "obj" -> {T.props[i].name : i \in DOMAIN T.props}
    [] OTHER -> {}

TsFuel == 16
DeclTable(decls) == [nm \in {decls[i].name : i \in DOMAIN decls} |-> (CHOOSE d \in {decls[i] : i \in DOMAIN decls} : d.name = nm).ty]
Inhabits(j, T, decls) == Inh(DeclTable(decls), j, T, TsFuel, FALSE)
InhabitsLax(j, T, decls) == Inh(DeclTable(decls), j, T, TsFuel, TRUE)

\* the two TypeScript plugins declare the same types for the same messages
SameDecls(a, b, names) ==
  LET A == DeclTable(a) B == DeclTable(b)
  IN \A nm \in names : (nm \in DOMAIN A \/ nm \in DOMAIN B) => (nm \in DOMAIN A /\ nm \in DOMAIN B /\ A[nm] = B[nm])
=============================================================================
