----------------------------- MODULE SebufConc -----------------------------
(***************************************************************************)
(* C17: a request's outcome does not depend on other requests, concurrent  *)
(* or earlier.                                                             *)
(*                                                                         *)
(* Design model of the generated Go server and Go client at the grain of   *)
(* their shared state:                                                     *)
(*   server: the validator singleton behind sync.Once (shared, written     *)
(*           once), the per-route configuration (shared, read-only after   *)
(*           registration), the request message a route binds into         *)
(*           (private to the request: allocated by BindingMiddleware);     *)
(*   client: the default header map of the client object (shared,          *)
(*           read-only after construction), the header map of one call     *)
(*           (private: built per call from defaults + call options).       *)
(* Every request r is a little process Arrive -> (InitValidator) -> Bind   *)
(* -> Handle -> Respond; steps of different requests interleave freely.    *)
(*                                                                         *)
(* Two deliberately wrong designs are part of the module (constants        *)
(* Pooled, SharedWrite): TLC must find the isolation violation in them     *)
(* (the check runs them as a self-test: a specification that cannot        *)
(* express the flaw cannot detect it in a trace either).                   *)
(*   Pooled      : the request message comes from a pool and is not reset  *)
(*                 (fields the request does not bind keep stale values);   *)
(*   SharedWrite : per-call header options are written into the client's   *)
(*                 default header map before the request is built;         *)
(*   UnsyncInit  : the validator singleton is initialised by "look without *)
(*                 the lock, take the lock only when it is missing" - the  *)
(*                 look is an unsynchronised read that can meet the write  *)
(*                 of another request (a data race under the Go memory     *)
(*                 model, whatever value the read returns).  It only shows *)
(*                 when the FIRST requests of a process arrive together,   *)
(*                 which is why the check also drives every parallel group *)
(*                 as the first thing a new process does.                  *)
(***************************************************************************)
EXTENDS Integers, Sequences, FiniteSets, TLC

CONSTANTS Reqs,          \* request ids
          Fields,        \* field names of the bound message
          ReqOf,         \* [Reqs -> [Fields -> Values \cup {"unset"}]] : what the request binds
          HdrOf,         \* [Reqs -> Values \cup {"none"}] : per-call header option of the client call
          Pooled, SharedWrite, UnsyncInit

VARIABLES pc,            \* [Reqs -> {"new","arrived","bound","handled","done"}]
          validator,     \* "uninit" | "ready"            (sync.Once)
          msg,           \* [Reqs -> [Fields -> value]]   (private request message)
          pool,          \* set of returned message objects (only used when Pooled)
          saw,           \* [Reqs -> what the handler saw]
          defaults,      \* client default header (shared)
          sent,          \* [Reqs -> header the client put on the wire]
          view,          \* [Reqs -> "none" | "uninit" | "ready"] what r read of the singleton WITHOUT synchronisation (UnsyncInit)
          lock           \* "free" | r : holder of the mutex around the initialisation (UnsyncInit)
vars == <<pc, validator, msg, pool, saw, defaults, sent, view, lock>>

Zero == [f \in Fields |-> "zero"]
\* the outcome of r issued alone on a fresh server / client
AloneSaw(r) == [f \in Fields |-> IF ReqOf[r][f] = "unset" THEN "zero" ELSE ReqOf[r][f]]
AloneSent(r) == IF HdrOf[r] = "none" THEN "default" ELSE HdrOf[r]

Init == /\ pc = [r \in Reqs |-> "new"] /\ validator = "uninit" /\ msg = [r \in Reqs |-> Zero] /\ pool = {}
        /\ saw = [r \in Reqs |-> Zero] /\ defaults = "default" /\ sent = [r \in Reqs |-> "?"]
        /\ view = [r \in Reqs |-> "none"] /\ lock = "free"

\* client side of the call: build the header map and send
ClientSend(r) ==
  /\ pc[r] = "new"
  /\ IF SharedWrite /\ HdrOf[r] # "none"
     THEN defaults' = HdrOf[r] /\ sent' = [sent EXCEPT ![r] = HdrOf[r]]      \* flaw: option stored in the shared map
     ELSE UNCHANGED defaults /\ sent' = [sent EXCEPT ![r] = IF HdrOf[r] = "none" THEN defaults ELSE HdrOf[r]]
  /\ pc' = [pc EXCEPT ![r] = "arrived"]
  /\ UNCHANGED <<validator, msg, pool, saw, view, lock>>

InitValidator(r) ==          \* sync.Once: whoever comes first initialises, everybody else reads
  /\ ~UnsyncInit
  /\ pc[r] = "arrived" /\ validator = "uninit" /\ validator' = "ready"
  /\ UNCHANGED <<pc, msg, pool, saw, defaults, sent, view, lock>>

\* the wrong design, step by step: look (no lock), lock when missing, write under the lock, unlock
Look(r) ==
  /\ UnsyncInit /\ pc[r] = "arrived" /\ view[r] = "none"
  /\ view' = [view EXCEPT ![r] = validator]                      \* the unsynchronised read
  /\ UNCHANGED <<pc, validator, msg, pool, saw, defaults, sent, lock>>
LockInit(r) ==
  /\ UnsyncInit /\ pc[r] = "arrived" /\ view[r] = "uninit" /\ lock = "free" /\ lock' = r
  /\ UNCHANGED <<pc, validator, msg, pool, saw, defaults, sent, view>>
WriteInit(r) ==
  /\ UnsyncInit /\ lock = r
  /\ validator' = "ready" /\ lock' = "free" /\ view' = [view EXCEPT ![r] = "ready"]   \* (second look under the lock, then the write)
  /\ UNCHANGED <<pc, msg, pool, saw, defaults, sent>>

Bind(r) ==
  /\ pc[r] = "arrived" /\ validator = "ready" /\ (UnsyncInit => view[r] = "ready")
  /\ IF Pooled /\ pool # {}
     THEN \E obj \in pool :
            /\ pool' = pool \ {obj}
            /\ msg' = [msg EXCEPT ![r] = [f \in Fields |-> IF ReqOf[r][f] = "unset" THEN obj[f] ELSE ReqOf[r][f]]]   \* flaw: no reset
     ELSE /\ msg' = [msg EXCEPT ![r] = AloneSaw(r)]                  \* new(Req) + binding
          /\ UNCHANGED pool
  /\ pc' = [pc EXCEPT ![r] = "bound"]
  /\ UNCHANGED <<validator, saw, defaults, sent, view, lock>>

Handle(r) ==
  /\ pc[r] = "bound" /\ saw' = [saw EXCEPT ![r] = msg[r]] /\ pc' = [pc EXCEPT ![r] = "handled"]
  /\ UNCHANGED <<validator, msg, pool, defaults, sent, view, lock>>

Respond(r) ==
  /\ pc[r] = "handled" /\ pc' = [pc EXCEPT ![r] = "done"]
  /\ pool' = IF Pooled THEN pool \cup {msg[r]} ELSE pool
  /\ UNCHANGED <<validator, msg, saw, defaults, sent, view, lock>>

Next == \E r \in Reqs : ClientSend(r) \/ InitValidator(r) \/ Look(r) \/ LockInit(r) \/ WriteInit(r) \/ Bind(r) \/ Handle(r) \/ Respond(r)
Spec == Init /\ [][Next]_vars /\ WF_vars(Next)

\* ------------------------------------------------------------------ properties
C17_HandlerIsolation == \A r \in Reqs : pc[r] \in {"handled", "done"} => saw[r] = AloneSaw(r)
C17_ClientIsolation  == \A r \in Reqs : pc[r] # "new" => sent[r] = AloneSent(r)
C17_ValidatorOnce    == [][validator = "ready" => validator' = "ready"]_vars
C17_AllComplete      == <>(\A r \in Reqs : pc[r] = "done")
\* no data race on the singleton: an unsynchronised read is never enabled while another request
\* holds the lock with the write still to come (the two accesses are then unordered)
C17_NoDataRace == ~ \E r1, r2 \in Reqs : r1 # r2 /\ ENABLED Look(r1) /\ lock = r2 /\ validator = "uninit"
=============================================================================
