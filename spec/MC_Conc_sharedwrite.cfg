SPECIFICATION Spec
CONSTANTS
  Reqs <- MCReqs
  Fields <- MCFields
  ReqOf <- MCReqOf
  HdrOf <- MCHdrOf
  Pooled = FALSE
  SharedWrite = TRUE
  UnsyncInit = FALSE
INVARIANTS
  C17_HandlerIsolation
  C17_ClientIsolation
  C17_NoDataRace
PROPERTIES
  C17_ValidatorOnce
  C17_AllComplete
CHECK_DEADLOCK FALSE
