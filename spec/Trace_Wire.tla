----------------------------- MODULE Trace_Wire -----------------------------
(***************************************************************************)
(* Trace validation of SebufWire: the events recorded at the public        *)
(* boundary of the real emitted server (harness/drv) must be a behaviour   *)
(* of the specification.  One line per event; unlogged internal steps are  *)
(* silent; many calls are concatenated (a "Req" line starts the next one). *)
(***************************************************************************)
EXTENDS SebufWire, Json, TLCExt

CONSTANT TraceFile
Tr == ndJsonDeserialize(TraceFile)

VARIABLE l
tvars == <<vars, l>>

SawFn(kvs) == [f \in {p.k : p \in Range(kvs)} |-> (CHOOSE p \in Range(kvs) : p.k = f).v]

IsEvent(e) == l <= Len(Tr) /\ Tr[l].event = e /\ l' = l + 1

TInit == /\ pc = "idle" /\ req = [none |-> TRUE] /\ bodyRead = FALSE /\ saw = NoSaw
         /\ err = NoErr /\ hookSaw = "none" /\ resp = NoResp /\ bound = Unbound /\ l = 1
         /\ TLCSet(1, 1)

\* (body.framing: how the harness let the body travel - announced length or chunked; Start and every later
\* action ignore it, which is the statement that the life cycle does not depend on it)
TReq == IsEvent("Req") /\ Start(Tr[l].req) /\ Tr[l].req.body.framing \in {"sized", "chunked", "none"}

\* the header parameters read from the real OpenAPI document for the operation of the current request
ParamSet(ps) == {[lname |-> p.lname, required |-> p.required, type |-> p.type, format |-> p.format] : p \in Range(ps)}
TPublished == /\ IsEvent("Published")
              /\ req # [none |-> TRUE]
              /\ (Required(req.rpc) # {}) => Tr[l].found
              /\ PublishedCovers(req.rpc, ParamSet(Tr[l].params))
              /\ UNCHANGED vars

TBodyRead == IsEvent("BodyRead") /\ TouchBody

THandlerSaw == IsEvent("HandlerSaw") /\ Dispatch(SawFn(Tr[l].saw))

THook == IsEvent("HookCalled") /\ CallHook /\ hookSaw' = Tr[l].errKind

RespMatches(e, r) ==
  /\ e.status = r.status
  /\ r.hookHdr => e.hookHdr
  /\ IF r.raw THEN e.raw = r.val
     ELSE /\ e.ctype = r.ctype
          /\ CASE r.kind = "message" -> e.asMsg.ok /\ e.asMsg.val = r.val
               [] r.kind = "ve"      -> e.asVE.ok /\ Range(e.asVE.viol) = r.viol /\ Len(e.asVE.viol) = Cardinality(r.viol)
               [] r.kind = "err"     -> e.asErr.ok /\ (r.msg = "*" \/ e.asErr.msg = r.msg)
               [] r.kind = "custom"  -> e.asCustom.ok /\ e.asCustom.val = r.val
               [] OTHER -> FALSE

TResp == IsEvent("Resp") /\ Emit /\ RespMatches(Tr[l], resp)

TSilent == Internal /\ UNCHANGED l

TNext == TReq \/ TPublished \/ TBodyRead \/ THandlerSaw \/ THook \/ TResp \/ TSilent

TSpec == TInit /\ [][TNext]_tvars

HighWater == TLCSet(1, IF l > TLCGet(1) THEN l ELSE TLCGet(1))

Accepted == IF TLCGet(1) = Len(Tr) + 1 THEN TRUE
            ELSE /\ PrintT(<<"TRACE_REJECTED_AT_LINE", TLCGet(1)>>)
                 /\ FALSE
=============================================================================
