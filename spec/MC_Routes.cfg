SPECIFICATION Spec
CONSTANTS
  Dev = {}
  Export = FALSE
INVARIANTS
  C03_Agree
  C03_Documented
  C03_OneOp
  FamilyValid
CHECK_DEADLOCK FALSE
