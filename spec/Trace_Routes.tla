----------------------------- MODULE Trace_Routes -----------------------------
(***************************************************************************)
(* Trace validation for C03.  "Schema" loads the abstract schema; each     *)
(* "Route" line is the route one generator publishes for one RPC, as       *)
(* observed on the real artefact (probes of the Go mux and of the TS route *)
(* table, request lines recorded from the Go and TS clients, the OpenAPI   *)
(* document); "Ops" is the list of operations of a service's document.     *)
(***************************************************************************)
EXTENDS SebufRoutes, Json, TLCExt

CONSTANT TraceFile
Tr == ndJsonDeserialize(TraceFile)

\* sl = line of the current "Schema" event; the (large) schema itself stays out of the state
VARIABLES l, sl, published
tvars == <<l, sl, published>>
schema == IF sl = 0 THEN [files |-> <<>>] ELSE Tr[sl].schema

IsEvent(e) == l <= Len(Tr) /\ Tr[l].event = e /\ l' = l + 1

TInit == l = 1 /\ sl = 0 /\ published = <<>> /\ TLCSet(1, 1)

TSchema == IsEvent("Schema") /\ sl' = l /\ published' = <<>>

\* events carry the positions of the service / method / input message inside the logged schema
\* (look-ups by index keep validation linear; the names are checked against the positions)
SvcAt(e) == schema.files[e.fi].services[e.si]
MethodAt(e) == SvcAt(e).methods[e.mi]
InputAt(e) == schema.files[e.ifi].messages[e.imi]
SvcOf(name) == CHOOSE sv \in UNION {Range(f.services) : f \in Range(schema.files)} : sv.name = name

Observed(e) == [verb |-> e.verb, segs |-> e.segs, trail |-> e.trail, placement |-> Range(e.placement)]

TRoute ==
  /\ IsEvent("Route")
  /\ LET e  == Tr[l]
         sv == SvcAt(e)
         me == MethodAt(e)
         r  == Observed(e)
         k  == <<e.svc, e.rpc>>
     IN /\ sv.name = e.svc /\ me.name = e.rpc /\ InputAt(e).full = me.in
        /\ RouteOKP(PlacementIn(me, InputAt(e)), sv, me, e.gen, r)
        \* agreement with every generator seen so far for the same RPC
        /\ (k \in DOMAIN published /\ ("D_default_route_split" \notin Dev \/ HasPath(me))) =>
              \A g \in DOMAIN published[k] :
                 \/ Agree(published[k][g], r)
                 \/ ("D_client_query_in_body" \in Dev /\ (g \in {"tsserver"} \/ e.gen \in {"tsserver"})
                     /\ Agree([published[k][g] EXCEPT !.placement = {}], [r EXCEPT !.placement = {}]))
        /\ published' = [x \in DOMAIN published \cup {k} |->
                           IF x = k THEN (IF k \in DOMAIN published
                                          THEN [g \in DOMAIN published[k] \cup {e.gen} |-> IF g = e.gen THEN r ELSE published[k][g]]
                                          ELSE [g \in {e.gen} |-> r])
                           ELSE published[x]]
  /\ UNCHANGED sl

\* C03_OneOp: the document of a service has exactly one operation per RPC of that service
TOps ==
  /\ IsEvent("Ops")
  /\ LET e == Tr[l] sv == SvcOf(e.svc)
         rpcs == {me.name : me \in Range(sv.methods)}
         undetermined == {me.name : me \in {m \in Range(sv.methods) : ~HasPath(m)}}
     IN \A n \in rpcs :
          \/ Cardinality({i \in DOMAIN e.ops : e.ops[i] = n}) = 1
          \/ ("D_default_route_split" \in Dev /\ n \in undetermined)
  /\ UNCHANGED <<sl, published>>

TNext == TSchema \/ TRoute \/ TOps
TSpec == TInit /\ [][TNext]_tvars

HighWater == TLCSet(1, IF l > TLCGet(1) THEN l ELSE TLCGet(1))
Accepted == IF TLCGet(1) = Len(Tr) + 1 THEN TRUE
            ELSE /\ PrintT(<<"TRACE_REJECTED_AT_LINE", TLCGet(1)>>)
                 /\ FALSE
=============================================================================
