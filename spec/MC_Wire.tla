------------------------------ MODULE MC_Wire ------------------------------
(***************************************************************************)
(* Exhaustive configurations of SebufWire: one request family per property *)
(* (DESIGN §3.5).  Tokens are symbolic here ("U_f" = the URL's value of    *)
(* field f, "B_f" = the body's value, "Z_f" = the zero value); the harness  *)
(* concretises them per field kind.  Start prints every abstract request   *)
(* so that the harness can replay it against the real emitted server.      *)
(***************************************************************************)
EXTENDS SebufWire, Json

CONSTANT Family        \* "C02" | "C09" | "C10" | "C11"
CONSTANT Export        \* TRUE: print every case

Verbs == {"GET", "POST", "PUT", "DELETE", "PATCH"}

Hdr(n, lvl, reqd, ty, fmt) == [name |-> n, lname |-> n, level |-> lvl, required |-> reqd, type |-> ty, format |-> fmt]
NoHook == [on |-> FALSE, msg |-> FALSE, headers |-> FALSE, status |-> FALSE, body |-> FALSE]
OkHandler == [kind |-> "ok", msg |-> "", val |-> "RESP", viol |-> <<>>]

\* The URL-bound kinds the harness gives to p / q / rq (one RPC per kind choice is concretised).
UrlKinds == {"string", "int32", "int64", "uint32", "uint64", "sint32", "sfixed64", "fixed32", "bool", "float", "double"}

(***************************************************************************)
(* The standard RPC shape: p (path), q (optional query), rq (required      *)
(* query), and b (a body field) on body verbs.                             *)
(***************************************************************************)
F(n, k, c, r) == [name |-> n, kind |-> k, card |-> c, rule |-> r, oneof |-> ""]
FO(n, k, c, r, o) == [name |-> n, kind |-> k, card |-> c, rule |-> r, oneof |-> o]
\* x = TRUE adds the validated message-typed fields n (singular), items (repeated), m (map)
FieldsFor(v, x) == IF ~HasBody(v) THEN <<"p", "q", "rq">>
                   ELSE IF x THEN <<"p", "q", "rq", "b", "n", "items", "m">> ELSE <<"p", "q", "rq", "b">>
Fdefs(v, k, x) ==
  <<F("p", k, "one", ""), F("q", k, "one", ""), F("rq", k, "one", "")>>
  \o (IF HasBody(v) THEN <<F("b", "string", "one", "max5")>> ELSE <<>>)
  \o (IF HasBody(v) /\ x THEN <<F("n", "N", "one", ""), F("items", "N", "rep", ""), F("m", "N", "map", "")>> ELSE <<>>)
RpcX(v, k, hs, x) == [name |-> "M", verb |-> v, fields |-> FieldsFor(v, x), fdefs |-> Fdefs(v, k, x),
                  pathVars |-> <<"p">>,
                  query |-> <<[field |-> "q", name |-> "q", required |-> FALSE], [field |-> "rq", name |-> "rq", required |-> TRUE]>>,
                  hdrs |-> hs, group |-> "", ord |-> 0]
Rpc(v, k, hs) == RpcX(v, k, hs, FALSE)
\* the same RPC with query parameters whose URL names differ from the field names
\* ((sebuf.http.query).name): violations still name the FIELD
Renamed(r) == [r EXCEPT !.query = <<[field |-> "q", name |-> "query-q", required |-> FALSE], [field |-> "rq", name |-> "r_q", required |-> TRUE]>>]
ZeroOf(r) == [i \in DOMAIN r.fields |-> [k |-> r.fields[i], v |-> "Z_" \o r.fields[i]]]

Url(pc_, qc, rqc) == <<[field |-> "p", loc |-> "path", cls |-> pc_, tok |-> "U_p"],
                       [field |-> "q", loc |-> "query", cls |-> qc, tok |-> "U_q"],
                       [field |-> "rq", loc |-> "query", cls |-> rqc, tok |-> "U_rq"]>>
GoodUrl == Url("good", "good", "good")

\* body shapes of the C02 quantifier: absent, empty, {} , object omitting the URL-bound fields,
\* object with other fields, object mentioning URL-bound fields
BodyShapes == {"absent", "empty", "emptyobj", "others", "mentions_q", "mentions_all"}
Body(shape, ct) ==
  CASE shape = "absent"       -> [cls |-> "absent", ctype |-> ct, mentions |-> <<>>, vals |-> <<>>]
    [] shape = "empty"        -> [cls |-> "empty", ctype |-> ct, mentions |-> <<>>, vals |-> <<>>]
    [] shape = "emptyobj"     -> [cls |-> "valid", ctype |-> ct, mentions |-> <<>>, vals |-> <<>>]
    [] shape = "others"       -> [cls |-> "valid", ctype |-> ct, mentions |-> <<"b">>, vals |-> <<[k |-> "b", v |-> "B_b"]>>]
    [] shape = "mentions_q"   -> [cls |-> "valid", ctype |-> ct, mentions |-> <<"q", "b">>,
                                  vals |-> <<[k |-> "q", v |-> "B_q"], [k |-> "b", v |-> "B_b"]>>]
    [] shape = "mentions_all" -> [cls |-> "valid", ctype |-> ct, mentions |-> <<"p", "q", "rq", "b">>,
                                  vals |-> <<[k |-> "p", v |-> "B_p"], [k |-> "q", v |-> "B_q"], [k |-> "rq", v |-> "B_rq"], [k |-> "b", v |-> "B_b"]>>]
    [] shape = "malformed"    -> [cls |-> "malformed", ctype |-> ct, mentions |-> <<>>, vals |-> <<>>]
    [] shape = "viol_b"       -> [cls |-> "valid", ctype |-> ct, mentions |-> <<"b">>, vals |-> <<[k |-> "b", v |-> "V_b"]>>]
    [] shape = "viol_n"       -> [cls |-> "valid", ctype |-> ct, mentions |-> <<"n">>, vals |-> <<[k |-> "n", v |-> "V_n"]>>]
    [] shape = "viol_items"   -> [cls |-> "valid", ctype |-> ct, mentions |-> <<"items">>, vals |-> <<[k |-> "items", v |-> "V_items"]>>]
    [] shape = "viol_m"       -> [cls |-> "valid", ctype |-> ct, mentions |-> <<"m">>, vals |-> <<[k |-> "m", v |-> "V_m"]>>]
    [] shape = "viol_two"     -> [cls |-> "valid", ctype |-> ct, mentions |-> <<"b", "n">>, vals |-> <<[k |-> "b", v |-> "V_b"], [k |-> "n", v |-> "V_n"]>>]

Mk(rpc, hv, url, body, rv, h, hook) ==
  [rpc |-> rpc, hdrVals |-> hv, url |-> url, body |-> body, zero |-> ZeroOf(rpc), ruleViol |-> rv,
   handler |-> h, hook |-> hook, server |-> "go"]

(***************************************************************************)
(* C02: verb x body shape x content type x URL value classes               *)
(***************************************************************************)
PCls  == {"good", "pct", "malformed", "oor"}
\* (pct: a value with reserved characters, among them the comma and the semicolon, percent-encoded)
QCls  == {"good", "absent", "malformed", "oor", "repeated", "zero", "pct"}
RQCls == {"good", "missing_required", "malformed"}
C02Requests ==
  { Mk(Rpc(v, "int32", <<>>), <<>>, Url(a, b, c), Body(sh, ct), <<>>, OkHandler, NoHook) :
      v \in Verbs, a \in PCls, b \in QCls, c \in RQCls, sh \in BodyShapes, ct \in {"json", "proto"} }

\* URL-bound fields of other shapes: q as proto3 optional / repeated / member of a oneof (whose
\* other member "alt" is a query parameter too), p as proto3 optional
QShapes == {"opt", "rep", "oneof"}
RpcShape(v, k, qs, ps) ==
  LET pf == IF ps = "opt" THEN F("p", k, "opt", "") ELSE F("p", k, "one", "")
      qf == CASE qs = "opt" -> <<F("q", k, "opt", "")>> [] qs = "rep" -> <<F("q", k, "rep", "")>>
              [] qs = "oneof" -> <<FO("q", k, "one", "", "sel"), FO("alt", "string", "one", "", "sel")>>
              [] OTHER -> <<F("q", k, "one", "")>>
      fds == <<pf>> \o qf \o <<F("rq", k, "one", "")>> \o (IF HasBody(v) THEN <<F("b", "string", "one", "max5")>> ELSE <<>>)
  IN [name |-> "M", verb |-> v, fields |-> [i \in DOMAIN fds |-> fds[i].name], fdefs |-> fds, pathVars |-> <<"p">>,
      query |-> <<[field |-> "q", name |-> "q", required |-> FALSE], [field |-> "rq", name |-> "rq", required |-> TRUE]>>
                \o (IF qs = "oneof" THEN <<[field |-> "alt", name |-> "alt", required |-> FALSE]>> ELSE <<>>),
      hdrs |-> <<>>, group |-> "", ord |-> 0]
UrlX(pc_, qc, rqc, qs) == Url(pc_, qc, rqc) \o (IF qs = "oneof" THEN <<[field |-> "alt", loc |-> "query", cls |-> "absent", tok |-> "U_alt"]>> ELSE <<>>)
C02ShapeRequests ==
  { Mk(RpcShape(v, "int32", qs, "one"), <<>>, UrlX("good", b, "good", qs), Body(sh, ct), <<>>, OkHandler, NoHook) :
      v \in Verbs, qs \in QShapes, b \in QCls, sh \in BodyShapes, ct \in {"json", "proto"} }
  \cup { Mk(RpcShape(v, "int32", "one", "opt"), <<>>, Url(a, "good", "good"), Body(sh, ct), <<>>, OkHandler, NoHook) :
      v \in Verbs, a \in PCls, sh \in BodyShapes, ct \in {"json", "proto"} }
  \cup { Mk(Renamed(Rpc(v, "int32", <<>>)), <<>>, Url("good", b, c), Body("others", ct), <<>>, OkHandler, NoHook) :
      v \in Verbs, b \in QCls, c \in RQCls, ct \in {"json", "proto"} }

(***************************************************************************)
(* C09: declarations x overriding x value classes x body                   *)
(***************************************************************************)
HTypes == {<<"string", "">>, <<"string", "uuid">>, <<"integer", "">>, <<"boolean", "">>}
HCls   == {"ok", "absent", "bad", "empty"}
\* declaration patterns: service header A (required), method header B (required),
\* method-level re-declaration of A: none / required again (case variant) / optional (switches it off)
\* (again_case / optional_case: the re-declaration spells the name in another letter case, and the service-level
\* spelling comes first in byte order - header names are case-insensitive, the method-level declaration wins)
Overrides == {"none", "again", "optional", "again_case", "optional_case"}
HdrAs(n, ln, lvl, reqd, ty, fmt) == [Hdr(ln, lvl, reqd, ty, fmt) EXCEPT !.name = n]
Decl(tyA, tyB, ov) ==
  <<HdrAs(IF ov \in {"again_case", "optional_case"} THEN "X-A" ELSE "x-a", "x-a", "svc", TRUE, tyA[1], tyA[2]),
    Hdr("x-b", "method", TRUE, tyB[1], tyB[2]), Hdr("x-c", "svc", FALSE, "integer", "")>>
  \o (CASE ov = "none" -> <<>>
        [] ov = "again" -> <<Hdr("x-a", "method", TRUE, "integer", "")>>
        [] ov = "optional" -> <<Hdr("x-a", "method", FALSE, tyA[1], tyA[2])>>
        [] ov = "again_case" -> <<HdrAs("X-a", "x-a", "method", TRUE, "integer", "")>>
        [] ov = "optional_case" -> <<HdrAs("X-a", "x-a", "method", FALSE, tyA[1], tyA[2])>>)
C09Requests ==
  { Mk(Rpc(v, "string", Decl(ta, tb, ov)),
       <<[lname |-> "x-a", cls |-> ca], [lname |-> "x-b", cls |-> cb], [lname |-> "x-c", cls |-> cc]>>,
       GoodUrl, Body(sh, "json"), <<>>, OkHandler, NoHook) :
      v \in {"GET", "POST"}, ta \in HTypes, tb \in {<<"string", "">>, <<"integer", "">>}, ov \in Overrides,
      ca \in HCls, cb \in HCls, cc \in {"absent", "bad"}, sh \in {"others", "malformed"} }

\* every published type / format of one required header x every value class incl. values that are
\* not valid UTF-8 (concretised with the byte shape of a well-formed value of the format)
HTypesAll == {<<"string", "">>, <<"string", "uuid">>, <<"string", "email">>, <<"string", "date-time">>, <<"string", "date">>, <<"string", "time">>,
              <<"", "">>, <<"", "uuid">>, <<"", "email">>, <<"integer", "">>, <<"number", "">>, <<"boolean", "">>, <<"array", "">>}
\* "okalt": a second well-formed value of the published type / format in another spelling (upper-case hex
\* digits in a uuid, 0, false) - no class of HdrDefBad / HdrAmbig, so the request has to be dispatched
HClsAll == {"ok", "okalt", "absent", "bad", "empty", "nonutf8"}
C09TypeRequests ==
  { Mk(Rpc(v, "string", Decl(ta, <<"string", "">>, "none")),
       <<[lname |-> "x-a", cls |-> ca], [lname |-> "x-b", cls |-> cb], [lname |-> "x-c", cls |-> "absent"]>>,
       GoodUrl, Body(sh, "json"), <<>>, OkHandler, NoHook) :
      v \in {"GET", "POST"}, ta \in HTypesAll, ca \in HClsAll, cb \in {"ok", "nonutf8"}, sh \in {"others", "malformed"} }

\* several methods of ONE service (group): n service-level headers, the first method declares one more
\* whose name sorts before / between / after the service's, or re-declares a service header with
\* another type; the later methods declare none.  Every method is asked with all of its headers in
\* place, with the service's last header missing, and (first method) with its own header missing.
GroupSizes == {1, 2, 3, 4, 5}
GroupPos   == {"first", "middle", "last", "redeclare"}
SvcHdrs(n) == [i \in 1..n |-> Hdr("x-k" \o ToString(i), "svc", TRUE, "string", "")]
OwnHdr(pos) == CASE pos = "first" -> Hdr("a-own", "method", TRUE, "integer", "")
                 [] pos = "middle" -> Hdr("x-k1m", "method", TRUE, "integer", "")
                 [] pos = "last" -> Hdr("z-own", "method", TRUE, "integer", "")
                 [] pos = "redeclare" -> Hdr("x-k1", "method", TRUE, "integer", "")
GroupRpc(n, pos, o) ==
  [Rpc("GET", "string", SvcHdrs(n) \o (IF o = 1 THEN <<OwnHdr(pos)>> ELSE <<>>))
     EXCEPT !.group = "N" \o ToString(n) \o "P" \o pos, !.ord = o]
GroupVals(n, pos, o, miss) ==
  LET hs == GroupRpc(n, pos, o).hdrs
      \* one value per distinct name (a re-declared name appears twice among the declarations)
      keep == SelectSeq([i \in DOMAIN hs |-> [lname |-> hs[i].lname, cls |-> "ok", lvl |-> hs[i].level]],
                        LAMBDA x : x.lname # miss /\ ~(x.lvl = "svc" /\ \E j \in DOMAIN hs : hs[j].level = "method" /\ hs[j].lname = x.lname))
  IN [i \in DOMAIN keep |-> [lname |-> keep[i].lname, cls |-> "ok"]]
GroupCase(n, pos, o, miss) ==
  Mk(GroupRpc(n, pos, o), GroupVals(n, pos, o, miss), GoodUrl, Body("absent", "json"), <<>>, OkHandler, NoHook)
C09GroupRequests ==
  UNION { { GroupCase(n, pos, o, miss) : miss \in {"", "x-k" \o ToString(n), OwnHdr(pos).lname} } :
          n \in GroupSizes, pos \in GroupPos, o \in 1..3 }

(***************************************************************************)
(* C10: error source x content type x hook behaviour                       *)
(***************************************************************************)
Hooks == { [on |-> o, msg |-> m, headers |-> hd, status |-> st, body |-> bd] :
             o \in BOOLEAN, m \in BOOLEAN, hd \in BOOLEAN, st \in BOOLEAN, bd \in BOOLEAN }
HooksN == {h \in Hooks : h.on \/ (~h.msg /\ ~h.headers /\ ~h.status /\ ~h.body)}
Sources == {"header", "url", "body", "rule1", "rule_nested", "rule_repeated", "rule_map", "rule_two", "plain", "sebufError", "validationError", "custom", "wrapped", "ok"}
SrcReq(src, ct, hk) ==
  LET hs  == IF src = "header" THEN <<Hdr("x-a", "svc", TRUE, "string", "")>> ELSE <<>>
      hv  == IF src = "header" THEN <<[lname |-> "x-a", cls |-> "absent"]>> ELSE <<>>
      url == IF src = "url" THEN Url("malformed", "good", "good") ELSE GoodUrl
      bd  == CASE src = "body" -> Body("malformed", ct) [] src = "rule1" -> Body("viol_b", ct)
               [] src = "rule_nested" -> Body("viol_n", ct) [] src = "rule_repeated" -> Body("viol_items", ct)
               [] src = "rule_map" -> Body("viol_m", ct) [] src = "rule_two" -> Body("viol_two", ct) [] OTHER -> Body("others", ct)
      rv  == CASE src = "rule1" -> <<"b">> [] src = "rule_nested" -> <<"n.s">> [] src = "rule_repeated" -> <<"items.s">>
               [] src = "rule_map" -> <<"m.s">> [] src = "rule_two" -> <<"b", "n.s">> [] OTHER -> <<>>
      h   == CASE src = "plain" -> [kind |-> "plain", msg |-> "boom", val |-> "", viol |-> <<>>]
               \* errors of the built-in classes a handler lets escape (JSON.parse of an upstream payload, new RegExp,
               \* BigInt): the driver throws the class the message names; to the contract they are plain errors
               [] src = "plain_syntax" -> [kind |-> "plain", msg |-> "SyntaxError: boom", val |-> "", viol |-> <<>>]
               [] src = "plain_type" -> [kind |-> "plain", msg |-> "TypeError: boom", val |-> "", viol |-> <<>>]
               [] src = "plain_range" -> [kind |-> "plain", msg |-> "RangeError: boom", val |-> "", viol |-> <<>>]
               [] src = "sebufError" -> [kind |-> "sebufError", msg |-> "boom", val |-> "", viol |-> <<>>]
               [] src = "validationError" -> [kind |-> "validationError", msg |-> "", val |-> "", viol |-> <<"a.b", "c">>]
               [] src = "custom" -> [kind |-> "custom", msg |-> "", val |-> "CUSTOM", viol |-> <<>>]
               [] src = "wrapped" -> [kind |-> "wrapped", msg |-> "", val |-> "CUSTOM", viol |-> <<>>]
               [] OTHER -> OkHandler
  IN Mk(RpcX("POST", "string", hs, TRUE), hv, url, bd, rv, h, hk)
\* URL-binding violations of renamed query parameters (a malformed value, a missing required one)
RenamedUrlReq(qc, rqc, ct) == LET r == SrcReq("url", ct, NoHook) IN [r EXCEPT !.rpc = Renamed(r.rpc), !.url = Url("good", qc, rqc)]
\* the TS server (JSON only; handlers return a value or throw an Error / a ValidationError; the validateRequest
\* option reports rule violations; the onError option returns a whole Response: a hook that "writes the body")
TsSources == {"header", "rule1", "rule_two", "plain", "plain_syntax", "plain_type", "plain_range", "validationError", "ok"}
TsHooks == {h \in HooksN : h.on => (h.body /\ ~h.msg)}
C10TsRequests == { [SrcReq(s, "json", hk) EXCEPT !.server = "ts"] : s \in TsSources, hk \in TsHooks }
C10Requests == { SrcReq(s, ct, hk) : s \in Sources, ct \in {"json", "proto", "octet"}, hk \in HooksN } \cup C10TsRequests
                \cup { RenamedUrlReq(qc, rqc, ct) : qc \in {"good", "malformed", "oor"}, rqc \in {"good", "malformed", "missing_required"}, ct \in {"json", "proto"} }

(***************************************************************************)
(* C11: body class x content type x verb (the classes are expanded into    *)
(* many concrete byte strings by the harness)                              *)
(***************************************************************************)
C11Requests ==
  { Mk(Rpc(v, "int32", <<>>), <<>>, GoodUrl, Body(sh, ct), <<>>, OkHandler, NoHook) :
      v \in Verbs, sh \in {"absent", "empty", "emptyobj", "others", "malformed"}, ct \in {"json", "proto", "octet", "none", "other"} }

Requests == CASE Family = "C02" -> C02Requests \cup C02ShapeRequests [] Family = "C09" -> C09Requests \cup C09TypeRequests \cup C09GroupRequests
              [] Family = "C10" -> C10Requests [] Family = "C11" -> C11Requests

Init == /\ pc = "idle" /\ req = (CHOOSE r \in Requests : TRUE) /\ bodyRead = FALSE /\ saw = NoSaw
        /\ err = NoErr /\ hookSaw = "none" /\ resp = NoResp /\ bound = Unbound

MCStart == /\ pc = "idle"
           /\ \E r \in Requests :
                /\ Start(r)
                /\ (Export => PrintT(<<"CASE", ToJson(r)>>))

Next == \/ MCStart
        \/ CheckHeaders \/ BindUrl \/ TouchBody \/ BindBody \/ Validate
        \/ (pc = "valid_ok" /\ \E s \in SawSet(req) : Dispatch(s))
        \/ HandlerReturn \/ CallHook \/ Respond \/ Emit

Spec == Init /\ [][Next]_vars

\* the call always completes (no stuck intermediate state): checked as deadlock freedom of all
\* states but "done"
NoStuck == (pc # "done" /\ pc # "idle") => ENABLED (CheckHeaders \/ BindUrl \/ BindBody \/ Validate
                 \/ (pc = "valid_ok" /\ \E s \in SawSet(req) : Dispatch(s)) \/ HandlerReturn \/ CallHook \/ Respond \/ Emit)
=============================================================================
