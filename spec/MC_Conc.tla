------------------------------- MODULE MC_Conc -------------------------------
(***************************************************************************)
(* Bounded instance of SebufConc: four requests on one route, two fields   *)
(* (one that every request binds, one that only some bind), per-call       *)
(* header options on two of them.  All interleavings.                      *)
(***************************************************************************)
EXTENDS SebufConc
MCReqs == {"r1", "r2", "r3", "r4"}
MCFields == {"id", "tag"}
MCReqOf == [r \in MCReqs |-> CASE r = "r1" -> [id |-> "a", tag |-> "x"]
                               [] r = "r2" -> [id |-> "b", tag |-> "unset"]
                               [] r = "r3" -> [id |-> "c", tag |-> "y"]
                               [] r = "r4" -> [id |-> "d", tag |-> "unset"]]
MCHdrOf == [r \in MCReqs |-> CASE r = "r1" -> "k1" [] r = "r2" -> "none" [] r = "r3" -> "k3" [] r = "r4" -> "none"]
=============================================================================
