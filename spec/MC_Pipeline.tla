---------------------------- MODULE MC_Pipeline ----------------------------
(***************************************************************************)
(* Exhaustive configurations of SebufPipeline over the schema families.    *)
(* Every case is printed (Export) so that the harness can give the very    *)
(* same abstract schema to the real plugins.                               *)
(***************************************************************************)
EXTENDS SebufPipeline, SebufFamilies, Json

CONSTANT Family, Export

VARIABLES fv, pc
mvars == <<pvars, fv, pc>>

C12Cases ==
  {[kind |-> "msg", rule |-> r, pl |-> pl, sur |-> s] : r \in MessageRules, pl \in Placements, s \in Surrounds}
  \cup {[kind |-> "method", rule |-> r, pl |-> "top", sur |-> s] : r \in MethodRules, s \in Surrounds}
  \cup {[kind |-> "twin", rule |-> t, pl |-> "top", sur |-> "plain"] : t \in Twins}
  \* "a definition that breaks none of the rules is accepted by all five plugins": the valid shapes and
  \* single-field schemas of C13 are valid definitions too (a plugin that refuses one emits nothing C13 could build)
  \cup {[kind |-> "c13x", rule |-> sh, pl |-> "shape", sur |-> "plain"] : sh \in C13Shapes}
  \cup {[kind |-> "c13s", rule |-> t, pl |-> "single", sur |-> "plain"] : t \in C13Singles}

\* (and every codec annotation on every cardinality it is accepted on - the single-field schemas of C13)
C14Cases == {[kind |-> "c14", rule |-> t, pl |-> lay, sur |-> "plain"] : t \in CodecFeatures, lay \in Layouts}
            \cup {[kind |-> "c13s", rule |-> t, pl |-> "single", sur |-> "plain"] :
                     t \in {x \in C13Singles : x[1] \notin {"query", "path", "plain"}}}
C15Cases == {[kind |-> "c15", rule |-> t, pl |-> "multi", sur |-> "plain"] : t \in {"T_plain", "T_int64", "T_enum_custom", "T_nullable", "T_flatten", "T_oneof", "T_unwrap_mapvalue"}}
\* a definition that breaks a documented rule is a well-formed request too: the answer is then an
\* error message (or files, where a plugin does not look), never a crash
C16Cases == {[kind |-> "c16", rule |-> sh, pl |-> par, sur |-> "plain"] : sh \in Shapes, par \in Params}
            \cup {[kind |-> "msg", rule |-> r, pl |-> "top", sur |-> "plain"] : r \in MessageRules}
            \cup {[kind |-> "method", rule |-> r, pl |-> "top", sur |-> "plain"] : r \in MethodRules}

C13Cases == {[kind |-> "c13s", rule |-> t, pl |-> "single", sur |-> "plain"] : t \in C13Singles}
            \cup {[kind |-> "c13p", rule |-> pr, pl |-> "pair", sur |-> "plain"] : pr \in C13Pairs}
            \cup {[kind |-> "c13x", rule |-> sh, pl |-> "shape", sur |-> "plain"] : sh \in C13Shapes}
            \cup {[kind |-> "c13m", rule |-> t, pl |-> "method", sur |-> "plain"] : t \in C13MethodShapes}
            \cup {[kind |-> "twin", rule |-> t, pl |-> "top", sur |-> "plain"] : t \in Twins}
            \* the nestings of the mock family (every package is also built with the optional mock server)
            \cup {[kind |-> "c20", rule |-> <<"string", "one", "parsable">>, pl |-> n, sur |-> "plain"] : n \in MockNestings \ {"xpkg"}}

\* (path_braces: templates whose braces do not form variables are answered, C16 - what a document should say
\* about them is not defined, they are outside "accepted schemas")
C18Cases == {[kind |-> "c16", rule |-> sh, pl |-> "plain", sur |-> "plain"] : sh \in Shapes \ {"no_go_package", "long_names", "svc_no_methods", "path_braces", "same_named_services"}}
            \cup {[kind |-> "twin", rule |-> t, pl |-> "top", sur |-> "plain"] : t \in Twins}
            \cup {[kind |-> "c18", rule |-> sh, pl |-> "doc", sur |-> "plain"] : sh \in C18Shapes}

C20Cases == {[kind |-> "c20", rule |-> <<k, c, ex>>, pl |-> "flat", sur |-> "plain"] : k \in MockKinds, c \in MockCards, ex \in {"none", "mixed"}}
            \cup {[kind |-> "c20", rule |-> <<k, "one", ex>>, pl |-> "flat", sur |-> "plain"] : k \in {"string", "int32", "double", "bool", "enum"}, ex \in {"parsable", "unparsable"}}
            \cup {[kind |-> "c20", rule |-> <<k, c, ex>>, pl |-> "flat", sur |-> "plain"] : k \in {"string", "int32", "uint32", "uint64", "fixed32", "sint32", "float"}, c \in {"one", "opt", "rep"}, ex \in {"awkward", "range"}}
            \cup {c \in {[kind |-> "c20", rule |-> <<k, "one", "parsable">>, pl |-> n, sur |-> "plain"] : k \in {"string", "int64", "int32", "enum", "msg", "ts"}, n \in MockNestings \ {"flat"}} :
                     c.pl = "xpkg" => c.rule[1] \notin {"enum", "msg"}}
            \cup {[kind |-> "c20", rule |-> <<k, c, "padded">>, pl |-> "flat", sur |-> "plain"] : k \in {"int32", "int64", "uint32", "uint64"}, c \in {"one", "rep"}}

Cases == CASE Family = "C12" -> C12Cases [] Family = "C13" -> C13Cases [] Family = "C18" -> C18Cases [] Family = "C20" -> C20Cases [] Family = "C14" -> C14Cases [] Family = "C15" -> C15Cases [] Family = "C16" -> C16Cases

Build(c) == CASE c.kind = "msg"    -> C12MessageCase("PFX", c.rule, c.pl, c.sur)
              [] c.kind = "method" -> C12MethodCase("PFX", c.rule, c.sur)
              [] c.kind = "twin"   -> TwinCase("PFX", c.rule)
              [] c.kind = "c13s"   -> C13SingleCase("PFX", c.rule)
              [] c.kind = "c13p"   -> C13PairCase("PFX", c.rule)
              [] c.kind = "c13x"   -> C13ShapeCase("PFX", c.rule)
              [] c.kind = "c13m"   -> C13MethodCase("PFX", c.rule)
              [] c.kind = "c18"    -> C18Case("PFX", c.rule)
              [] c.kind = "c20"    -> C20Case("PFX", c.rule[1], c.rule[2], c.rule[3], c.pl)
              [] c.kind = "c14"    -> C14Case("PFX", c.rule, c.pl)
              [] c.kind = "c15"    -> C15Case("PFX", c.rule)
              [] c.kind = "c16"    -> C16Case("PFX", c.rule, 4)

\* the modelled (contract) outcomes of a plugin
Outcomes(p) ==
  LET viol == IF p = "go-http" THEN Violations(schema) ELSE IF p = "go-client" THEN ClientViolations(schema) ELSE {}
  IN IF viol # {}
     THEN {[exit |-> "error", nfiles |-> 0, mentions |-> {v.offender}, files |-> {}, gen |-> {"PFX/svc.proto"}] : v \in viol}
     ELSE {[exit |-> "files", nfiles |-> 1, mentions |-> {},
            files |-> {[name |-> "PFX/svc." \o p, sha |-> "h:" \o p, stripped |-> "s", kind |-> "other", src |-> "PFX/svc.proto"]},
            gen |-> {"PFX/svc.proto"}]}

Init == /\ fv \in Cases /\ pc = "new"
        /\ schema = Schema(<<>>) /\ domain = TRUE /\ seen = <<>> /\ stripped = <<>> /\ runs = 0 /\ codecBase = <<>> /\ outNames = <<>> /\ accepted = {}

MCLoad == /\ pc = "new" /\ pc' = "loaded"
          /\ Load(Build(fv), TRUE)
          /\ (Export => PrintT(<<"CASE", ToJson([fv |-> fv, schema |-> Build(fv), domain |-> TRUE])>>))
          /\ UNCHANGED fv

MCRun == /\ pc = "loaded" /\ runs < 3
         /\ \E p \in Plugins : \E o \in Outcomes(p) : Run(p, "base", o)
         /\ UNCHANGED <<fv, pc>>

Next == MCLoad \/ MCRun
Spec == Init /\ [][Next]_mvars

\* the family builds what it says it builds: the rule operator finds exactly the intended rule and
\* offender; twins and imported-file placements break no rule in the files to generate
FamilyIntent ==
  pc = "loaded" =>
    CASE fv.kind \in {"twin", "c13s", "c13p", "c13x", "c13m", "c14", "c15", "c16", "c18", "c20"} -> Violations(schema) = {}
      [] fv.pl = "imported" -> Violations(schema) = {}
      [] OTHER -> /\ \E v \in Violations(schema) : v.rule = BaseRule(fv.rule) /\ v.offender = OffenderName(fv.rule)
                  /\ \A v \in Violations(schema) : v.rule = BaseRule(fv.rule)
C12_Reject == (pc = "loaded" /\ Violations(schema) # {}) => \A p \in {"go-http"} : \A o \in Outcomes(p) : o.exit = "error" /\ o.nfiles = 0
C12_Accept == (pc = "loaded" /\ Violations(schema) = {}) => \A p \in Plugins : \A o \in Outcomes(p) : o.exit = "files"
=============================================================================
