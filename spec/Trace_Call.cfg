SPECIFICATION TSpec
CONSTANTS
  Dev = {}
  Inventory = FALSE
  TraceFile = "trace.ndjson"
CONSTRAINT HighWater
POSTCONDITION Accepted
CHECK_DEADLOCK FALSE
