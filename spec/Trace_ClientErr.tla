--------------------------- MODULE Trace_ClientErr ---------------------------
(***************************************************************************)
(* Trace validation (inventory mode) of the client halves of C10 and C11:  *)
(* every line is one canned or real server response handed to a real       *)
(* emitted client (Go or TS) and what the caller got back.                 *)
(***************************************************************************)
EXTENDS SebufClientErr, Json, TLCExt
CONSTANT TraceFile, Enforce, Dev
Tr == ndJsonDeserialize(TraceFile)
VARIABLE l
IsEvent(e) == l <= Len(Tr) /\ Tr[l].event = e /\ l' = l + 1
Say(ok, how) == PrintT(<<"VERDICT", l, ok, how>>)
\* D_go_client_error_without_status (known finding): the Go client returns a bare *sebufhttp.Error
\* for a failure whose body is a sebuf Error: the message is carried, the status is not
GoErrorNoStatus(e) == /\ "D_go_client_error_without_status" \in Dev /\ e.lang = "go" /\ e.resp.err.ok
                      /\ e.ret.kind = "apiError" /\ e.ret.message = e.resp.err.msg /\ e.ret.status = 0
How(e) ==
  IF "C11" \in Enforce /\ ~C11_ClientTotal(e.resp, e.ret) THEN "client_did_not_return_a_value"
  ELSE IF "C10" \in Enforce /\ e.judgeMapping /\ ~C10_ClientMaps(e.resp, e.ret)
       THEN (IF GoErrorNoStatus(e) THEN "D_go_client_error_without_status" ELSE "failure_not_carried_to_the_caller")
  ELSE "ok"
TMap == IsEvent("ClientMap") /\ LET h == How(Tr[l]) IN Say(h = "ok" \/ h \in Dev, h)
TSpec == l = 1 /\ [][TMap]_l
=============================================================================
