SPECIFICATION Spec
CONSTANTS
  Dev = {}
  Export = FALSE
INVARIANTS
  Completes
CHECK_DEADLOCK FALSE
