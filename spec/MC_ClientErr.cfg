SPECIFICATION Spec
CONSTANTS
  Export = FALSE
INVARIANTS
  ContractOK
  Discriminates
CHECK_DEADLOCK FALSE
