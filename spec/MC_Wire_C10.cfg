SPECIFICATION Spec
CONSTANTS
  Dev = {}
  Family = "C10"
  Export = FALSE
INVARIANTS
  TypeOK
  C02_UrlWins
  C02_BadUrl400
  C09_Dispatch
  C09_OnePerOffender
  C09_NeverReadAfterHeaderReject
  C09_PublishedAccepted
  C10_Status
  C10_HandlerErr500
  C10_Custom
  C10_Ctype
  C10_HookOverride
  C11_Outcome
  C11_NoDispatchUndecoded
  C01_ServerReq
  C01_ServerResp
  NoStuck
PROPERTIES
  C09_BeforeBody
CHECK_DEADLOCK FALSE
