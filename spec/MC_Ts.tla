-------------------------------- MODULE MC_Ts --------------------------------
(***************************************************************************)
(* C07: (1) a truth table of Inhabits on small types and values, checked   *)
(* as an invariant (the operator means what the prose of SebufTs says);    *)
(* (2) the family of URL-bound request fields whose handler argument the   *)
(* TS server assembles from raw path segments and query strings:           *)
(* verb x field kind x 64-bit encoding x placement x value class.          *)
(***************************************************************************)
EXTENDS SebufTs, Json
CONSTANT Export
VARIABLES fv, done
mvars == <<fv, done>>

S(v) == [t |-> "str", v |-> v]
N(v) == [t |-> "num", v |-> v, int |-> TRUE]
B(v) == [t |-> "bool", v |-> v]
Nul == [t |-> "null"]
O(m) == [t |-> "obj", m |-> m]
A(e) == [t |-> "arr", e |-> e]
P(n) == [t |-> "prim", n |-> n]
Prop(nm, opt, ty) == [name |-> nm, opt |-> opt, ty |-> ty]
Obj(ps) == [t |-> "obj", props |-> ps]
Ref(n) == [t |-> "ref", n |-> n]
Un(as) == [t |-> "union", alts |-> as]
In(ps) == [t |-> "inter", parts |-> ps]
TLit(v) == [t |-> "lit", v |-> v]

Decls == << [name |-> "Child", ty |-> Obj(<<Prop("x", FALSE, P("string")), Prop("y", TRUE, P("number"))>>)],
            [name |-> "E", ty |-> Un(<<TLit("A"), TLit("B")>>)],
            [name |-> "WBase", ty |-> Obj(<<Prop("k", FALSE, P("string"))>>)],
            [name |-> "WU", ty |-> Un(<<Obj(<<Prop("kind", FALSE, TLit("a")), Prop("n", TRUE, P("number"))>>),
                                        Obj(<<Prop("kind", FALSE, TLit("b")), Prop("c", TRUE, Ref("Child"))>>)>>)],
            [name |-> "W", ty |-> In(<<Ref("WBase"), Ref("WU")>>)],
            [name |-> "Rec", ty |-> Obj(<<Prop("self", TRUE, Ref("Rec")), Prop("v", FALSE, Un(<<P("string"), P("null")>>))>>)] >>
I(j, T) == Inhabits(j, T, Decls)
TruthTable ==
  /\ I(S("a"), P("string")) /\ ~I(N("1"), P("string")) /\ I(N("1"), P("number")) /\ ~I(S("1"), P("number"))
  /\ I(B("true"), P("boolean")) /\ ~I(S("true"), P("boolean")) /\ I(Nul, P("null")) /\ ~I(Nul, P("string"))
  /\ I(S("A"), Ref("E")) /\ ~I(S("C"), Ref("E")) /\ ~I(N("0"), Ref("E"))
  /\ I(O({<<"x", S("v")>>}), Ref("Child"))                                  \* optional member may be absent
  /\ ~I(O({}), Ref("Child"))                                                \* required member must be present
  /\ ~I(O({<<"x", S("v")>>, <<"y", Nul>>}), Ref("Child"))                   \* optional is not nullable
  /\ ~I(O({<<"x", S("v")>>, <<"z", N("1")>>}), Ref("Child"))                \* undeclared member
  /\ I(A(<<S("a"), S("b")>>), [t |-> "arr", e |-> P("string")]) /\ ~I(A(<<S("a"), N("1")>>), [t |-> "arr", e |-> P("string")])
  /\ I(O({<<"k1", O({<<"x", S("v")>>})>>}), [t |-> "rec", k |-> P("string"), v |-> Ref("Child")])
  /\ ~I(O({<<"k1", O({})>>}), [t |-> "rec", k |-> P("string"), v |-> Ref("Child")])
  /\ I(O({<<"k", S("a")>>, <<"kind", S("a")>>, <<"n", N("1")>>}), Ref("W"))       \* intersection with a discriminated union
  /\ ~I(O({<<"k", S("a")>>, <<"kind", S("a")>>, <<"c", O({<<"x", S("v")>>})>>}), Ref("W"))   \* member of the other branch
  /\ I(O({<<"k", S("a")>>, <<"kind", S("b")>>, <<"c", O({<<"x", S("v")>>})>>}), Ref("W"))
  /\ ~I(O({<<"kind", S("a")>>}), Ref("W"))                                   \* base member missing
  /\ I(O({<<"v", Nul>>, <<"self", O({<<"v", S("s")>>})>>}), Ref("Rec"))       \* recursive type
  /\ ~I(O({<<"v", Nul>>, <<"self", O({})>>}), Ref("Rec"))
  /\ ~I(S("a"), Ref("Missing"))                                              \* unresolved name

Verbs == {"GET", "DELETE", "POST"}
Kinds == {"string", "int32", "uint32", "sint32", "int64", "uint64", "sfixed64", "fixed32", "bool", "float", "double", "enum"}
Encs == {"plain", "int64num"}
Places == {"path", "query", "query_req"}
Classes == {"ord", "zero", "max"}
Cases == {[verb |-> v, kind |-> k, enc |-> e, place |-> p, cls |-> c] : v \in Verbs, k \in Kinds, e \in Encs, p \in Places, c \in Classes}
Family == {c \in Cases : /\ (c.enc = "int64num" => c.kind \in {"int64", "uint64", "sfixed64"})
                         /\ (c.place = "path" => c.cls # "zero" \/ c.kind # "string")
                         /\ (c.verb = "POST" => c.cls = "ord")}

Init == fv \in Family /\ done = FALSE
Next == ~done /\ done' = TRUE /\ (Export => PrintT(<<"CASE", ToJson(fv)>>)) /\ UNCHANGED fv
Spec == Init /\ [][Next]_mvars
=============================================================================
