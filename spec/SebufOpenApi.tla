---------------------------- MODULE SebufOpenApi ----------------------------
(***************************************************************************)
(* The OpenAPI side of the published contract.                             *)
(*  - Validates(j, S, doc): JSON Schema 2020-12 validity for the           *)
(*    structural subset the generator emits (type incl. type arrays,       *)
(*    properties, required, additionalProperties, items, enum, const,      *)
(*    oneOf, anyOf, allOf, not, $ref).  Keywords it does not interpret     *)
(*    (pattern, numeric bounds, lengths, format) are left to the           *)
(*    instrument (jsonschema), see C19.                                    *)
(*  - Described(j, S, doc): every member present in j is described by S    *)
(*    at that position (C06 "contains no property the schema does not      *)
(*    describe").                                                          *)
(*  - well-formedness predicates of a whole document (C18).                *)
(* JSON values are canonical trees (SebufJson!Canon): objects are sets of  *)
(* <<key, value>>.  The document itself is a canonical tree too; "$ref"    *)
(* values are pre-split by the harness into [t |-> "ref", path |-> <<..>>].*)
(***************************************************************************)
EXTENDS SebufJson

Keys(o)   == IF o.t = "obj" THEN {kv[1] : kv \in o.m} ELSE {}
Has(o, k) == o.t = "obj" /\ \E kv \in o.m : kv[1] = k
Get(o, k) == (CHOOSE kv \in o.m : kv[1] = k)[2]
Elems(a)  == IF a.t = "arr" THEN {a.e[i] : i \in DOMAIN a.e} ELSE {}
StrOf(n)  == IF n.t = "str" THEN n.v ELSE "?"

IsRef(S) == Has(S, "$ref")
RefPath(S) == Get(S, "$ref").path
RefOK(doc, S) ==
  LET p == RefPath(S) IN
  /\ Len(p) = 3 /\ p[1] = "components" /\ p[2] = "schemas"
  /\ Has(doc, "components") /\ Has(Get(doc, "components"), "schemas")
  /\ Has(Get(Get(doc, "components"), "schemas"), p[3])
Resolve(doc, S) == Get(Get(Get(doc, "components"), "schemas"), RefPath(S)[3])

TypeNames(S) == IF ~Has(S, "type") THEN {} ELSE
                LET t == Get(S, "type") IN IF t.t = "str" THEN {t.v} ELSE {StrOf(x) : x \in Elems(t)}
TypeMatches(j, tn) ==
  CASE tn = "object" -> j.t = "obj" [] tn = "array" -> j.t = "arr" [] tn = "string" -> j.t = "str"
    [] tn = "boolean" -> j.t = "bool" [] tn = "null" -> j.t = "null"
    [] tn = "number" -> j.t = "num" [] tn = "integer" -> j.t = "num" /\ j.int
    [] OTHER -> FALSE

RECURSIVE VS(_, _, _, _)
\* n is fuel: every unfolding of $ref / composition consumes one unit (documents are finite)
VS(doc, j, S, n) ==
  IF n = 0 THEN FALSE
  ELSE IF S.t = "bool" THEN S.v = "true"
  ELSE IF S.t # "obj" THEN FALSE
  ELSE IF IsRef(S) THEN RefOK(doc, S) /\ VS(doc, j, Resolve(doc, S), n - 1)
  ELSE
  /\ (Has(S, "type") => \E tn \in TypeNames(S) : TypeMatches(j, tn))
  /\ (Has(S, "enum") => \E x \in Elems(Get(S, "enum")) : x = j)
  /\ (Has(S, "const") => Get(S, "const") = j)
  /\ (Has(S, "allOf") => \A x \in Elems(Get(S, "allOf")) : VS(doc, j, x, n - 1))
  /\ (Has(S, "anyOf") => \E x \in Elems(Get(S, "anyOf")) : VS(doc, j, x, n - 1))
  /\ (Has(S, "oneOf") => LET a == Get(S, "oneOf") IN Cardinality({i \in DOMAIN a.e : VS(doc, j, a.e[i], n - 1)}) = 1)
  /\ (Has(S, "not") => ~VS(doc, j, Get(S, "not"), n - 1))
  /\ (j.t = "obj" =>
        /\ (Has(S, "required") => \A r \in Elems(Get(S, "required")) : StrOf(r) \in Keys(j))
        /\ \A kv \in j.m :
             IF Has(S, "properties") /\ Has(Get(S, "properties"), kv[1])
             THEN VS(doc, kv[2], Get(Get(S, "properties"), kv[1]), n - 1)
             ELSE IF Has(S, "additionalProperties") THEN VS(doc, kv[2], Get(S, "additionalProperties"), n - 1)
             ELSE TRUE)
  /\ (j.t = "arr" /\ Has(S, "items") => \A i \in DOMAIN j.e : VS(doc, j.e[i], Get(S, "items"), n - 1))

Fuel == 24
Validates(j, S, doc) == VS(doc, j, S, Fuel)

\* the sub-schemas that apply to instance j at schema S (S itself, allOf branches, the oneOf / anyOf
\* branches j validates against), $ref resolved
RECURSIVE Applicable(_, _, _, _)
Applicable(doc, j, S, n) ==
  IF n = 0 \/ S.t # "obj" THEN {}
  ELSE IF IsRef(S) THEN (IF RefOK(doc, S) THEN Applicable(doc, j, Resolve(doc, S), n - 1) ELSE {})
  ELSE {S}
       \cup (IF Has(S, "allOf") THEN UNION {Applicable(doc, j, x, n - 1) : x \in Elems(Get(S, "allOf"))} ELSE {})
       \cup (IF Has(S, "oneOf") THEN UNION {Applicable(doc, j, x, n - 1) : x \in {y \in Elems(Get(S, "oneOf")) : VS(doc, j, y, n - 1)}} ELSE {})
       \cup (IF Has(S, "anyOf") THEN UNION {Applicable(doc, j, x, n - 1) : x \in {y \in Elems(Get(S, "anyOf")) : VS(doc, j, y, n - 1)}} ELSE {})

\* a schema that says "any JSON value" in so many words (google.protobuf.Value; the items of a ListValue):
\* no keyword that constrains or describes anything - whatever stands there is what the schema describes
OpenSchema(A) == A.t = "obj" /\ ~IsRef(A)
                 /\ \A k \in {"type", "properties", "additionalProperties", "items", "allOf", "oneOf", "anyOf", "enum", "const", "not"} : ~Has(A, k)
RECURSIVE D(_, _, _, _)
D(doc, j, S, n) ==
  IF n = 0 THEN FALSE ELSE
  LET app == Applicable(doc, j, S, n) IN
  IF \E A \in app : OpenSchema(A) THEN TRUE ELSE
  CASE j.t = "obj" ->
         \A kv \in j.m :
            \/ \E A \in app : Has(A, "properties") /\ Has(Get(A, "properties"), kv[1])
                              /\ D(doc, kv[2], Get(Get(A, "properties"), kv[1]), n - 1)
            \/ \E A \in app : Has(A, "additionalProperties") /\ Get(A, "additionalProperties").t = "obj"
                              /\ D(doc, kv[2], Get(A, "additionalProperties"), n - 1)
            \* additionalProperties: true - members of any name and shape are part of the description (Struct)
            \/ \E A \in app : Has(A, "additionalProperties") /\ Get(A, "additionalProperties").t = "bool"
                              /\ Get(A, "additionalProperties").v = "true"
    [] j.t = "arr" ->
         \A i \in DOMAIN j.e : \/ \E A \in app : Has(A, "items") /\ D(doc, j.e[i], Get(A, "items"), n - 1)
                               \/ (j.e[i].t \notin {"obj", "arr"})
    [] OTHER -> TRUE
Described(j, S, doc) == D(doc, j, S, Fuel)

(***************************************************************************)
(* C18: well-formedness of a whole document.                               *)
(***************************************************************************)
RECURSIVE AllRefs(_)
AllRefs(n) == CASE n.t = "obj" -> (IF IsRef(n) THEN {n} ELSE {}) \cup UNION {AllRefs(kv[2]) : kv \in n.m}
                [] n.t = "arr" -> UNION {AllRefs(n.e[i]) : i \in DOMAIN n.e}
                [] OTHER -> {}
RefsResolve(doc) == \A r \in AllRefs(doc) : RefOK(doc, r)

Verbs5 == {"get", "post", "put", "delete", "patch"}
Paths(doc) == IF Has(doc, "paths") THEN Get(doc, "paths").m ELSE {}
Operations(doc) == UNION {{[path |-> p[1], verb |-> v, op |-> Get(p[2], v)] : v \in {x \in Verbs5 : Has(p[2], x)}} : p \in Paths(doc)}
ParamsOf(o) == IF Has(o.op, "parameters") THEN Elems(Get(o.op, "parameters")) ELSE {}
\* path variables of a template are logged by the harness next to the document (no string surgery
\* here): tmplVars : function path -> set of variable names
PathVarsDeclaredOnce(doc, tmplVars) ==
  \A o \in Operations(doc) :
     LET pp == {q \in ParamsOf(o) : StrOf(Get(q, "in")) = "path"} IN
     /\ {StrOf(Get(q, "name")) : q \in pp} = tmplVars[o.path]
     /\ Cardinality(pp) = Cardinality(tmplVars[o.path])
     /\ \A q \in pp : Has(q, "required") /\ Get(q, "required") = [t |-> "bool", v |-> "true"]
ParamNamesUniquePerLocation(doc) ==
  \A o \in Operations(doc) :
     LET ps == IF Has(o.op, "parameters") THEN Get(o.op, "parameters") ELSE [t |-> "arr", e |-> <<>>]
         key(i) == <<StrOf(Get(ps.e[i], "in")), StrOf(Get(ps.e[i], "name"))>>
     IN \A i, k \in DOMAIN ps.e : i # k => key(i) # key(k)
OperationIdsUnique(doc) ==
  \A a, b \in Operations(doc) : (a # b /\ Has(a.op, "operationId") /\ Has(b.op, "operationId"))
                                   => Get(a.op, "operationId") # Get(b.op, "operationId")
SchemaNames(doc) == IF Has(doc, "components") /\ Has(Get(doc, "components"), "schemas")
                    THEN Keys(Get(Get(doc, "components"), "schemas")) ELSE {}
=============================================================================
