SPECIFICATION Spec
CONSTANTS
  Dev = {}
  Nodes = {"A", "B", "C"}
INVARIANTS
  C16_StackBounded
PROPERTIES
  C16_Ends
CHECK_DEADLOCK FALSE
