----------------------------- MODULE SebufRoutes -----------------------------
(***************************************************************************)
(* C03: the published route of an RPC.  Every generator publishes, for     *)
(* every RPC, a route = [verb, segs, trail, placement]; the property is    *)
(* that all five publish the same one, that it is the documented           *)
(* resolution (docs/http-generation.md, "Path Resolution") where the       *)
(* documentation fixes it, and that a service's OpenAPI document has       *)
(* exactly one operation per RPC.                                          *)
(***************************************************************************)
EXTENDS SebufSchema

CONSTANT Dev

Gens == {"goserver", "goclient", "tsclient", "tsserver", "openapi"}

VerbOf(me) == IF me.hasCfg /\ me.verb # "" THEN me.verb ELSE "POST"
BodyVerb(v) == v \in {"POST", "PUT", "PATCH"}
HasPath(me) == me.hasCfg /\ me.path # ""

\* Documented path resolution.  Cases 1 and 2 are fully determined; for cases 3 and 4 (no custom
\* path) the documentation fixes the shape (base path, or the package, followed by ONE segment
\* derived from the method name) but not the spelling of the derived segments, so those are
\* compared between generators only.
DocSegs(sv, me) == IF HasPath(me) THEN (IF sv.hasBase THEN sv.baseParts.segs ELSE <<>>) \o me.parts.segs ELSE <<>>
DocLen(sv, me)  == IF HasPath(me) THEN Len(DocSegs(sv, me))
                   ELSE IF sv.hasBase THEN Len(sv.baseParts.segs) + 1 ELSE 2
DocTrail(sv, me) == HasPath(me) /\ me.parts.trail /\ me.parts.segs # <<>>

\* primary location of a request field: path, else query (declared for every verb), else body
PlacementIn(me, inMsg) ==
  {[field |-> f.name,
    loc |-> IF HasPath(me) /\ f.name \in PathVars(me) THEN "path"
            ELSE IF f.ann.query THEN "query"
            ELSE IF BodyVerb(VerbOf(me)) THEN "body" ELSE "none"] : f \in Range(inMsg.fields)}
Placement(s, me) == IF ~HasMsg(s, me.in) THEN {} ELSE PlacementIn(me, MsgByName(s, me.in))

\* r = an observed route [verb, segs, trail, placement (set)]
MatchesDocumentedP(pl, sv, me, r) ==
  /\ r.verb = VerbOf(me)
  /\ Len(r.segs) = DocLen(sv, me)
  /\ HasPath(me) => (r.segs = DocSegs(sv, me) /\ r.trail = DocTrail(sv, me))
  /\ (~HasPath(me) /\ sv.hasBase) => SubSeq(r.segs, 1, Len(sv.baseParts.segs)) = sv.baseParts.segs
  /\ r.placement = pl
MatchesDocumented(s, sv, me, r) == MatchesDocumentedP(Placement(s, me), sv, me, r)

\* D_default_route_split (known finding): without a custom path the generators derive different
\* default paths; D_client_query_in_body: the clients send query-annotated fields of body verbs
\* in the body only.
RouteOKP(pl, sv, me, g, r) ==
  LET inBody == {[field |-> p.field, loc |-> IF p.loc = "query" THEN "body" ELSE p.loc] : p \in pl}
      lenient == "D_client_query_in_body" \in Dev /\ g \in {"tsserver"} /\ BodyVerb(VerbOf(me))
  IN \/ MatchesDocumentedP(pl, sv, me, r)
     \/ /\ "D_default_route_split" \in Dev /\ ~HasPath(me)
        /\ r.verb = VerbOf(me) /\ r.placement = pl
     \/ /\ lenient
        /\ MatchesDocumentedP(pl, sv, me, [r EXCEPT !.placement = pl])
        /\ r.placement = inBody
     \/ /\ "D_default_route_split" \in Dev /\ lenient /\ ~HasPath(me)
        /\ r.verb = VerbOf(me) /\ r.placement = inBody
RouteOK(s, sv, me, g, r) == RouteOKP(Placement(s, me), sv, me, g, r)

Agree(r1, r2) == r1.verb = r2.verb /\ r1.segs = r2.segs /\ r1.trail = r2.trail /\ r1.placement = r2.placement
=============================================================================
