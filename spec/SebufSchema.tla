---------------------------- MODULE SebufSchema ----------------------------
(***************************************************************************)
(* The abstract definitions (DESIGN §3.1): files, services, methods,       *)
(* messages, fields with kind / cardinality / annotations, and the         *)
(* documented annotation and HTTP-configuration rules as                   *)
(*    Violations(schema) = set of [rule, offender]                         *)
(* The records have exactly the shape of harness/abs (JSON), so a schema   *)
(* built here is concretised by the harness as is, and a schema logged by  *)
(* the harness is evaluated here as is.                                    *)
(***************************************************************************)
EXTENDS Integers, Sequences, FiniteSets, TLC

Range(s) == {s[i] : i \in DOMAIN s}

(***************************************************************************)
(* Constructors (every key always present).                                *)
(***************************************************************************)
NoAnn == [query |-> FALSE, queryName |-> "", queryReq |-> FALSE, unwrap |-> FALSE, int64 |-> "", enumEnc |-> "",
          nullable |-> FALSE, empty |-> "", ts |-> "", bytes |-> "", flatten |-> FALSE, prefix |-> "",
          oneofValue |-> "", examples |-> <<>>,
          \* explicit: every applicable annotation that is not set is written out with its default value
          \* (nullable = false, unwrap = false, flatten = false, *_UNSPECIFIED); no operator of the
          \* specification looks at it: such a definition means what the bare one means
          explicit |-> FALSE]
NoRules == [required |-> FALSE, minLen |-> -1, maxLen |-> -1, pattern |-> "", format |-> "", hasConst |-> FALSE,
            const |-> "", in |-> <<>>, gt |-> "", gte |-> "", lt |-> "", lte |-> "", minItems |-> -1, maxItems |-> -1,
            unique |-> FALSE, minPairs |-> -1, maxPairs |-> -1]

\* F(name, jsonName, number, kind, cardinality): a plain field
F(n, j, num, k, c) == [name |-> n, json |-> j, num |-> num, kind |-> k, card |-> c, ref |-> "", keyKind |-> "",
                       oneof |-> "", ann |-> NoAnn, rules |-> NoRules]
FRef(n, j, num, k, c, ref) == [F(n, j, num, k, c) EXCEPT !.ref = ref]
FMap(n, j, num, kk, k, ref) == [F(n, j, num, k, "map") EXCEPT !.ref = ref, !.keyKind = kk]
InOneof(f, o) == [f EXCEPT !.oneof = o]
Ann(f, key, v) == [f EXCEPT !.ann = [f.ann EXCEPT ![key] = v]]

Msg(n, full, fs) == [name |-> n, full |-> full, fields |-> fs, oneofs |-> <<>>, nested |-> <<>>, enums |-> <<>>]
MsgN(n, full, fs, nested) == [Msg(n, full, fs) EXCEPT !.nested = nested]
MsgO(n, full, fs, os) == [Msg(n, full, fs) EXCEPT !.oneofs = os]
Oneof(n, hasCfg, disc, flat) == [name |-> n, hasCfg |-> hasCfg, discriminator |-> disc, flatten |-> flat]
EnumV(n, num, custom) == [name |-> n, num |-> num, custom |-> custom]
Enum(n, vs) == [name |-> n, values |-> vs]

\* Paths are segment sequences with explicit leading / trailing slash flags; the string is rendered
\* by concatenation (the harness parses real strings back into the same record).
Lit(t) == [var |-> FALSE, text |-> t]
Var(t) == [var |-> TRUE, text |-> t]
Parts(lead, segs, trail) == [lead |-> lead, trail |-> trail, segs |-> segs]
NoParts == Parts(FALSE, <<>>, FALSE)
SegText(sg) == IF sg.var THEN "{" \o sg.text \o "}" ELSE sg.text
RECURSIVE JoinSegs(_)
JoinSegs(segs) == IF segs = <<>> THEN "" ELSE IF Len(segs) = 1 THEN SegText(segs[1])
                  ELSE SegText(Head(segs)) \o "/" \o JoinSegs(Tail(segs))
Render(pp) == (IF pp.lead THEN "/" ELSE "") \o JoinSegs(pp.segs) \o (IF pp.trail THEN "/" ELSE "")

Method(n, in, out, hasCfg, parts, verb) ==
  [name |-> n, in |-> in, out |-> out, hasCfg |-> hasCfg, path |-> IF hasCfg THEN Render(parts) ELSE "",
   parts |-> IF hasCfg THEN parts ELSE NoParts, segs |-> IF hasCfg THEN parts.segs ELSE <<>>, verb |-> verb, headers |-> <<>>]
Service(n, hasBase, baseParts, ms) ==
  [name |-> n, hasBase |-> hasBase, basePath |-> IF hasBase THEN Render(baseParts) ELSE "",
   baseParts |-> IF hasBase THEN baseParts ELSE NoParts, headers |-> <<>>, methods |-> ms]
Header(n, ty, fmt, reqd) == [name |-> n, type |-> ty, format |-> fmt, required |-> reqd, example |-> ""]
File(n, pkg, goPkg, gen, deps, svcs, msgs, enums) ==
  [name |-> n, pkg |-> pkg, goPkg |-> goPkg, generate |-> gen, deps |-> deps, services |-> svcs, messages |-> msgs, enums |-> enums]
Schema(fs) == [files |-> fs]

(***************************************************************************)
(* Look-ups.                                                               *)
(***************************************************************************)
RECURSIVE AllMsgs(_)
AllMsgs(ms) == UNION {{m} \cup AllMsgs(m.nested) : m \in Range(ms)}

FileMsgs(f) == AllMsgs(f.messages)
SchemaMsgs(s) == UNION {FileMsgs(f) : f \in Range(s.files)}
GenFiles(s) == {f \in Range(s.files) : f.generate}
GenMsgs(s) == UNION {FileMsgs(f) : f \in GenFiles(s)}

HasMsg(s, full) == \E m \in SchemaMsgs(s) : m.full = full
MsgByName(s, full) == CHOOSE m \in SchemaMsgs(s) : m.full = full

MsgEnums(m, prefix) == {[full |-> prefix \o "." \o e.name, enum |-> e] : e \in Range(m.enums)}
SchemaEnums(s) ==
  UNION {{[full |-> (IF f.pkg = "" THEN e.name ELSE f.pkg \o "." \o e.name), enum |-> e] : e \in Range(f.enums)} : f \in Range(s.files)}
  \cup UNION {MsgEnums(m, m.full) : m \in SchemaMsgs(s)}
EnumByName(s, full) == (CHOOSE e \in SchemaEnums(s) : e.full = full).enum
HasEnum(s, full) == \E e \in SchemaEnums(s) : e.full = full

ScalarKinds == {"double", "float", "int32", "int64", "uint32", "uint64", "sint32", "sint64",
                "fixed32", "fixed64", "sfixed32", "sfixed64", "bool", "string", "bytes"}
PathKinds == ScalarKinds \ {"bytes"}
IsTimestamp(f) == f.kind = "message" /\ f.ref = "google.protobuf.Timestamp"

(***************************************************************************)
(* The documented rules.  An offender is the name the error must mention.  *)
(***************************************************************************)
V(rule, off) == [rule |-> rule, offender |-> off]

UnwrapViol(m) ==
  LET uw == {f \in Range(m.fields) : f.ann.unwrap} IN
     {V("R1", f.name) : f \in {g \in uw : g.card \notin {"rep", "map"}}}
  \cup (IF Cardinality(uw) >= 2 THEN {V("R2", f.name) : f \in uw} ELSE {})
  \cup {V("R3", f.name) : f \in {g \in uw : g.card = "map" /\ Len(m.fields) > 1 /\ Cardinality(uw) = 1}}

NullableViol(m) ==
     {V("R4", f.name) : f \in {g \in Range(m.fields) : g.ann.nullable /\ g.card # "opt"}}
  \cup {V("R5", f.name) : f \in {g \in Range(m.fields) : g.ann.nullable /\ g.card = "opt" /\ g.kind = "message"}}

EmptyViol(m) ==
     {V("R6", f.name) : f \in {g \in Range(m.fields) : g.ann.empty # "" /\ g.kind # "message"}}
  \cup {V("R7", f.name) : f \in {g \in Range(m.fields) : g.ann.empty # "" /\ g.kind = "message" /\ g.card = "rep"}}
  \cup {V("R8", f.name) : f \in {g \in Range(m.fields) : g.ann.empty # "" /\ g.kind = "message" /\ g.card = "map"}}

TsViol(m)    == {V("R9", f.name) : f \in {g \in Range(m.fields) : g.ann.ts # "" /\ ~IsTimestamp(g)}}
BytesViol(m) == {V("R10", f.name) : f \in {g \in Range(m.fields) : g.ann.bytes # "" /\ g.kind # "bytes"}}

FlattenViol(s, m) ==
  LET fl == {f \in Range(m.fields) : f.ann.flatten} IN
     {V("R11", f.name) : f \in {g \in fl : g.card = "rep"}}
  \cup {V("R12", f.name) : f \in {g \in fl : g.card = "map"}}
  \cup {V("R13", f.name) : f \in {g \in fl : g.card \notin {"rep", "map"} /\ g.kind # "message"}}
  \cup {V("R14", f.name) : f \in {g \in fl : g.card = "one" /\ g.kind = "message" /\ g.oneof # ""}}
  \cup {V("R16", f.name) : f \in {g \in Range(m.fields) : g.ann.prefix # "" /\ ~g.ann.flatten}}

\* R15: a flattened child's JSON name (prefix + child name, a plain string concatenation) equals a
\* non-flattened parent field's JSON name or another flattened child's name
FlatNames(s, m, f) ==
  IF f.ann.flatten /\ f.kind = "message" /\ f.card \in {"one", "opt"} /\ HasMsg(s, f.ref)
  THEN {[parent |-> f.name, name |-> f.ann.prefix \o c.json] : c \in Range(MsgByName(s, f.ref).fields)} ELSE {}
FlattenCollisionViol(s, m) ==
  LET own  == {f.json : f \in {g \in Range(m.fields) : ~g.ann.flatten}}
      flat == UNION {FlatNames(s, m, f) : f \in Range(m.fields)}
  IN {V("R15", x.parent) : x \in {y \in flat : y.name \in own \/ \E z \in flat : z # y /\ z.name = y.name}}

OneofViol(s, m) ==
  UNION { LET members == {f \in Range(m.fields) : f.oneof = o.name}
              others  == {f \in Range(m.fields) : f.oneof # o.name}
              reserved == {f.json : f \in others} \cup {o.discriminator}
              kids(f) == IF f.kind = "message" /\ HasMsg(s, f.ref) THEN {c.json : c \in Range(MsgByName(s, f.ref).fields)} ELSE {}
          IN  (IF \E f \in others : f.json = o.discriminator THEN {V("R17", o.name)} ELSE {})
              \cup (IF o.flatten /\ \E f \in members : f.kind # "message" THEN {V("R18", o.name)} ELSE {})
              \cup (IF o.flatten /\ \E f \in members : kids(f) \cap reserved # {} THEN {V("R19", o.name)} ELSE {})
        : o \in {x \in Range(m.oneofs) : x.hasCfg} }

EnumViol(s, m) ==
  {V("R20", f.name) :
     f \in {g \in Range(m.fields) : g.kind = "enum" /\ g.ann.enumEnc = "NUMBER" /\ HasEnum(s, g.ref)
                                      /\ \E v \in Range(EnumByName(s, g.ref).values) : v.custom # ""}}

MessageViol(s, m) == UnwrapViol(m) \cup NullableViol(m) \cup EmptyViol(m) \cup TsViol(m) \cup BytesViol(m)
                     \cup FlattenViol(s, m) \cup FlattenCollisionViol(s, m) \cup OneofViol(s, m) \cup EnumViol(s, m)

\* HTTP configuration rules need the path variables; the harness parses the template into
\* segment records [var, text] and logs them as method.segs (TLA+ does no string surgery).
PathVars(me) == {sg.text : sg \in {x \in Range(me.segs) : x.var}}
MethodViol(s, me) ==
  IF ~me.hasCfg \/ ~HasMsg(s, me.in) THEN {} ELSE
  LET in == MsgByName(s, me.in)
      fld(n) == CHOOSE f \in Range(in.fields) : f.name = n
      has(n) == \E f \in Range(in.fields) : f.name = n
      verb == IF me.verb = "" THEN "POST" ELSE me.verb
      bound == PathVars(me) \cup {f.name : f \in {g \in Range(in.fields) : g.ann.query}}
  IN {V("R21", v) : v \in {x \in PathVars(me) : ~has(x)}}
     \cup {V("R22", v) : v \in {x \in PathVars(me) : has(x) /\ fld(x).kind \notin PathKinds}}
     \cup {V("R23", v) : v \in {x \in PathVars(me) : has(x) /\ fld(x).ann.query}}
     \cup (IF verb \in {"GET", "DELETE"} /\ \E f \in Range(in.fields) : f.name \notin bound
           THEN {V("R24", me.name)} ELSE {})

JsonRules == {"R4", "R5", "R6", "R7",
              "R8", "R9", "R10", "R11",
              "R12", "R13", "R14", "R15",
              "R16", "R17", "R18",
              "R19", "R20"}

\* violations in the files to generate (imported files are only read; what a plugin does with an
\* offending construct there is recorded but not judged)
Violations(s) ==
  UNION {MessageViol(s, m) : m \in GenMsgs(s)}
  \cup UNION {UNION {UNION {MethodViol(s, me) : me \in Range(sv.methods)} : sv \in Range(f.services)} : f \in GenFiles(s)}

ClientViolations(s) == {v \in Violations(s) : v.rule \in JsonRules}
=============================================================================
