----------------------------- MODULE Trace_Conc -----------------------------
(***************************************************************************)
(* Trace validation for C17.  The real emitted Go server (one registered   *)
(* instance) and Go client (one shared instance per service) are driven    *)
(* with random multisets of calls at several parallelism levels under the  *)
(* race detector; every event of every call is logged with a global        *)
(* sequence number.  Each call is also issued alone against a freshly      *)
(* registered server through a fresh client: that outcome travels on the   *)
(* call's Begin line.                                                      *)
(*   Begin(id, alone)  : the call enters the system                        *)
(*   Sent(id, hdrs)    : the shared client put the request on the wire     *)
(*   Saw(id, rpc, vals): the handler of the call's RPC saw the request     *)
(*   End(id, out)      : the caller (or the raw HTTP peer) got the outcome *)
(*   Race              : the race detector reported - there is no such     *)
(*                       action                                            *)
(* The steps of different calls interleave as they were observed; a step   *)
(* is enabled only if it carries exactly what the call yields alone.       *)
(***************************************************************************)
EXTENDS Integers, Sequences, FiniteSets, TLC, Json, TLCExt
CONSTANT TraceFile
Tr == ndJsonDeserialize(TraceFile)
VARIABLES l, open
tvars == <<l, open>>

IsEvent(e) == l <= Len(Tr) /\ Tr[l].event = e /\ l' = l + 1
Ids == {o.id : o \in open}
Of(id) == CHOOSE o \in open : o.id = id

TInit == l = 1 /\ open = {} /\ TLCSet(1, 1)
TReset == IsEvent("Reset") /\ open' = {}                         \* next group (all calls of a group have ended)
\* (alone2: the same call alone on a server generated from the same schema with the methods of every service
\* declared in the opposite order - what a route demands does not depend on the routes declared around it)
TBegin == /\ IsEvent("Begin") /\ Tr[l].id \notin Ids
          /\ ("alone2" \in DOMAIN Tr[l] => Tr[l].alone2 = Tr[l].alone)
          /\ open' = open \cup {[id |-> Tr[l].id, alone |-> Tr[l].alone, stage |-> "begun"]}
Advance(id, st) == open' = (open \ {Of(id)}) \cup {[Of(id) EXCEPT !.stage = st]}
TSent == /\ IsEvent("Sent") /\ Tr[l].id \in Ids
         /\ Tr[l].wire = Of(Tr[l].id).alone.wire                \* C17: per-call options affect only their own call
         /\ Advance(Tr[l].id, "sent")
TSaw == /\ IsEvent("Saw") /\ Tr[l].id \in Ids
        /\ Of(Tr[l].id).alone.reached                            \* alone, the call reaches a handler
        /\ Tr[l].rpc = Of(Tr[l].id).alone.rpc /\ Tr[l].vals = Of(Tr[l].id).alone.saw
        /\ Advance(Tr[l].id, "saw")
TEnd == /\ IsEvent("End") /\ Tr[l].id \in Ids
        /\ Tr[l].out = Of(Tr[l].id).alone.out
        /\ (Of(Tr[l].id).alone.reached => Of(Tr[l].id).stage = "saw")
        /\ open' = open \ {Of(Tr[l].id)}
TNext == TReset \/ TBegin \/ TSent \/ TSaw \/ TEnd
TSpec == TInit /\ [][TNext]_tvars
HighWater == TLCSet(1, IF l > TLCGet(1) THEN l ELSE TLCGet(1))
Accepted == IF TLCGet(1) = Len(Tr) + 1 THEN TRUE ELSE PrintT(<<"TRACE_REJECTED_AT_LINE", TLCGet(1)>>) /\ FALSE
=============================================================================
