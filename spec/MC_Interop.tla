----------------------------- MODULE MC_Interop -----------------------------
(***************************************************************************)
(* C08 family.  The same call protocol as C01 (SebufCall: Start / Sent /   *)
(* Saw / Ret) run over the three language pairs                            *)
(*   ts_go : generated TS client  -> generated Go server                   *)
(*   go_ts : generated Go client  -> generated TS server                   *)
(*   ts_ts : generated TS client  -> generated TS server                   *)
(* and extended by the header obligation: a value handed to a client       *)
(* through one of its header options must be on the wire under exactly the *)
(* header name the servers validate (call.hdrs / Sent.hdrVals).            *)
(* The model runs the contract client / server and checks completion;      *)
(* every case is exported and replayed against the real emitted modules.   *)
(***************************************************************************)
EXTENDS SebufCall, Json
CONSTANT Export
VARIABLES fv
mvars == <<cvars, fv>>

Pairs == {"ts_go", "go_ts", "ts_ts"}
Verbs == {"GET", "POST", "PUT", "DELETE", "PATCH"}
\* route: pq = /s<i>/{p} plus query parameters q (plain), rq (required), rep (repeated), oq (proto3
\*        optional: presence counts); p = path variable only;
\*        deep = two path variables around a literal; default = no http config (POST, derived route)
Routes == {"pq", "p", "deep", "default"}
UrlKinds == {"string", "int32", "int64", "uint64", "bool", "double"}
Classes == {"ord", "zero", "max", "big53", "nonascii", "urlreserved", "padded"}
\* how the caller supplies the value of the one required header the RPC's service / method declares
\*   none            : no header declared
\*   client_default  : constructor option defaultHeaders / WithXDefaultHeader(name, v)   (service level)
\*   client_typed    : typed constructor option (apiKey: v / WithXAPIKey(v))             (service level)
\*   call_plain      : per-call headers option / WithXHeader(name, v)                    (method level)
\*   call_typed_svc  : typed per-call option for a service-level header
\*   call_typed_meth : typed per-call option for a method-level header
\*   override        : constructor default overridden per call (the per-call value must win)
HModes == {"none", "client_default", "client_typed", "call_plain", "call_typed_svc", "call_typed_meth", "override"}
HNames == {"X-API-Key", "Authorization", "X-Request-ID", "x-trace-id", "X-Tenant"}

Cases == {[pair |-> pr, verb |-> v, route |-> r, kind |-> k, cls |-> cl, hmode |-> hm, hname |-> hn] :
            pr \in Pairs, v \in Verbs, r \in Routes, k \in UrlKinds, cl \in Classes, hm \in HModes, hn \in HNames}
Base(c) == [c EXCEPT !.route = "pq", !.kind = "string", !.cls = "ord", !.hmode = "none", !.hname = "X-API-Key"]
Differs(c) == {d \in {"route", "kind", "cls", "hmode", "hname"} : c[d] # Base(c)[d]}
Family == {c \in Cases :
             /\ (c.route = "default" => c.verb = "POST")
             /\ (c.hmode = "none" => c.hname = "X-API-Key")
             /\ \/ Cardinality(Differs(c)) <= 1
                \/ Differs(c) = {"kind", "cls"}                       \* every kind x class
                \/ Differs(c) = {"hmode", "hname"}                    \* every way of supplying x every name shape
                \/ (Differs(c) = {"route", "hmode"} /\ c.hmode = "client_typed")}

BodyFields(c) == IF BodyVerb(c.verb) THEN <<"b">> ELSE <<>>
Fields(c) == CASE c.route = "pq" -> <<"p", "q", "rq", "rep", "oq", "rrep", "ropt">> \o BodyFields(c)
               [] c.route = "p" -> <<"p">> \o BodyFields(c)
               [] c.route = "deep" -> <<"p", "p_2">> \o BodyFields(c)
               [] c.route = "default" -> <<"b">>
PathVars(c) == CASE c.route \in {"pq", "p"} -> <<"p">> [] c.route = "deep" -> <<"p", "p_2">> [] OTHER -> <<>>
Query(c) == IF c.route = "pq" THEN <<[field |-> "q", name |-> "q", required |-> FALSE], [field |-> "rq", name |-> "rq", required |-> TRUE],
                                    [field |-> "rep", name |-> "rep", required |-> FALSE], [field |-> "oq", name |-> "oq", required |-> FALSE],
                                    [field |-> "rrep", name |-> "rrep", required |-> TRUE], [field |-> "ropt", name |-> "ropt", required |-> TRUE]>> ELSE <<>>
RpcOf(c) == [name |-> "M", verb |-> c.verb, fields |-> Fields(c), pathVars |-> PathVars(c), query |-> Query(c)]
ValOf(c) == [i \in DOMAIN Fields(c) |-> [k |-> Fields(c)[i], v |-> "V_" \o Fields(c)[i]]]
HdrsOf(c) == IF c.hmode = "none" THEN <<>> ELSE <<[k |-> c.hname, v |-> "HV"]>>
CallOf(c) == [rpc |-> RpcOf(c), value |-> ValOf(c), zero |-> [i \in DOMAIN Fields(c) |-> [k |-> Fields(c)[i], v |-> "Z_" \o Fields(c)[i]]],
              ctype |-> "json", resp |-> "RESP", handler |-> "ok", hdrs |-> HdrsOf(c)]

Init == fv \in Family /\ cpc = "idle" /\ call = [none |-> TRUE] /\ sentOK = FALSE
MStart == cpc = "idle" /\ Start(CallOf(fv)) /\ (Export => PrintT(<<"CASE", ToJson(fv)>>)) /\ UNCHANGED fv
ContractSent == [verb |-> call.rpc.verb, litsOK |-> TRUE, pathVals |-> call.value, hasBody |-> BodyVerb(call.rpc.verb),
                 bodyDecodes |-> TRUE, bodyVals |-> call.value, ctype |-> call.ctype, queryVals |-> call.value, hdrVals |-> call.hdrs]
MSent == cpc = "called" /\ Sent(ContractSent) /\ UNCHANGED fv
MSaw == cpc = "sent" /\ Saw([rpc |-> call.rpc.name, vals |-> call.value]) /\ UNCHANGED fv
MRet == cpc = "dispatched" /\ Ret([kind |-> "ok", val |-> call.resp, message |-> ""]) /\ UNCHANGED fv
Next == MStart \/ MSent \/ MSaw \/ MRet
Spec == Init /\ [][Next]_mvars
Completes == cpc = "returned" \/ ENABLED Next
\* a client that puts the value under another name (or drops it) has no Sent step
WrongNameBlocked ==
  cpc = "called" /\ call.hdrs # <<>> => ~SentMatches(call, [ContractSent EXCEPT !.hdrVals = <<[k |-> "x-other", v |-> "HV"]>>])
=============================================================================
