------------------------------ MODULE SebufJson ------------------------------
(***************************************************************************)
(* The documented JSON mapping: proto3 JSON modified only as the           *)
(* annotations document, at any depth (C05), and the losses a round trip   *)
(* may have (C04).                                                         *)
(*                                                                         *)
(* Values are trees logged by the harness:                                 *)
(*   leaf  [t |-> "s", std, num, custom, unixs, unixms, date, b64, b64raw, *)
(*          b64url, b64urlraw, hex : JSON renderings of the leaf computed  *)
(*          by independent harness functions / protojson; tok, tokS,       *)
(*          tokMs, tokDate : identity tokens (full / truncated)]           *)
(*   msg   [t |-> "m", type, empty, fs : Seq([name, has, v])]              *)
(*   list  [t |-> "l", es]      map [t |-> "mp", es : Seq([k, v])]         *)
(* JSON documents are tagged trees; objects are compared as sets of        *)
(* <<key, value>> pairs (member order is irrelevant, a duplicate key       *)
(* changes the member count).                                              *)
(***************************************************************************)
EXTENDS SebufSchema

CONSTANT Dev

JNull == [t |-> "null"]
JObj(ms) == [t |-> "obj", n |-> Cardinality(ms), m |-> ms]          \* ms : set of <<k, v>>
JArr(es) == [t |-> "arr", e |-> es]

\* canonical form of a logged JSON tree (sequences of members -> sets)
RECURSIVE Canon(_)
Canon(j) == CASE j.t = "obj" -> [t |-> "obj", n |-> Len(j.m), m |-> {<<j.m[i].k, Canon(j.m[i].v)>> : i \in DOMAIN j.m}]
              [] j.t = "arr" -> [t |-> "arr", e |-> [i \in DOMAIN j.e |-> Canon(j.e[i])]]
              [] OTHER -> j

FieldOf(M, n) == CHOOSE f \in Range(M.fields) : f.name = n
OneofOf(M, n) == CHOOSE o \in Range(M.oneofs) : o.name = n
HasOneofCfg(M, f) == f.oneof # "" /\ \E o \in Range(M.oneofs) : o.name = f.oneof /\ o.hasCfg /\ o.discriminator # ""
UnwrapFieldOf(M) == CHOOSE f \in Range(M.fields) : f.ann.unwrap
HasUnwrap(M) == \E f \in Range(M.fields) : f.ann.unwrap
IsRootUnwrap(M) == Len(M.fields) = 1 /\ M.fields[1].ann.unwrap

(***************************************************************************)
(* Structure predicates over a schema (guards of the known findings).      *)
(***************************************************************************)
\* messages reachable from the RPC's top-level message (excluding it) that carry codec annotations
RECURSIVE Reach(_, _, _)
Reach(s, todo, seen) ==
  IF todo = {} THEN seen
  ELSE LET n == CHOOSE x \in todo : TRUE
           refs == IF HasMsg(s, n) THEN {f.ref : f \in {g \in Range(MsgByName(s, n).fields) : g.kind = "message" /\ HasMsg(s, g.ref)}} ELSE {}
       IN Reach(s, (todo \cup refs) \ (seen \cup {n}), seen \cup {n})
Annotated(s, M) ==
  \/ \E f \in Range(M.fields) : f.ann.int64 = "NUMBER" \/ f.ann.enumEnc = "NUMBER" \/ f.ann.nullable \/ f.ann.empty \in {"NULL", "OMIT"}
                                   \/ f.ann.ts \in {"UNIX_SECONDS", "UNIX_MILLIS", "DATE"} \/ f.ann.bytes \notin {"", "BASE64"}
                                   \/ f.ann.flatten \/ f.ann.unwrap
                                   \/ (f.kind = "enum" /\ HasEnum(s, f.ref) /\ \E v \in Range(EnumByName(s, f.ref).values) : v.custom # "")
  \/ \E o \in Range(M.oneofs) : o.hasCfg
  \/ \E f \in Range(M.fields) : f.card = "map" /\ f.kind = "message" /\ HasMsg(s, f.ref) /\ HasUnwrap(MsgByName(s, f.ref))
NestedAnnotated(s, top) == \E n \in Reach(s, {top}, {}) \ {top} : Annotated(s, MsgByName(s, n))
\* a message on the way encodes its children with encoding/json instead of the proto3 JSON mapping
\* (flatten, discriminated oneof): irregular, left unconstrained under its finding
UsesStdJson(s, M) ==
  \/ \E f \in Range(M.fields) : f.ann.flatten
  \/ \E o \in Range(M.oneofs) : o.hasCfg
\* a map whose value message has an unwrap field (the container encodes its scalar siblings itself)
UnwrapContainer(s, M) == \E f \in Range(M.fields) : f.card = "map" /\ f.kind = "message" /\ HasMsg(s, f.ref) /\ HasUnwrap(MsgByName(s, f.ref))
StdJsonOnPath(s, top) == \E n \in Reach(s, {top}, {}) : UsesStdJson(s, MsgByName(s, n))
\* a flattened field whose message has an array / map JSON form (root unwrap): nothing to merge
FlattenOfRootUnwrap(s, top) ==
  \E n \in Reach(s, {top}, {}) : \E f \in Range(MsgByName(s, n).fields) :
     f.ann.flatten /\ HasMsg(s, f.ref) /\ IsRootUnwrap(MsgByName(s, f.ref))
\* enum custom values / numeric enum encoding have no effect in the Go codecs
EnumAnnotated(s, top) ==
  \E n \in Reach(s, {top}, {}) : \E f \in Range(MsgByName(s, n).fields) :
     f.kind = "enum" /\ (f.ann.enumEnc = "NUMBER" \/ (HasEnum(s, f.ref) /\ \E v \in Range(EnumByName(s, f.ref).values) : v.custom # ""))


\* the rendering of a leaf under the annotations of the field that carries it.  The leaf
\* annotations are documented for singular and repeated fields of the annotated kind; on a map
\* field they have no documented meaning and no effect.
OneofCfgReachable(s, top) == \E n \in Reach(s, {top}, {}) : \E o \in Range(MsgByName(s, n).oneofs) : o.hasCfg
\* a flattened child that itself flattens (or has a flattened oneof): the document flattens one level only
NestedFlatten(s, top) ==
  \E n \in Reach(s, {top}, {}) : \E f \in Range(MsgByName(s, n).fields) :
     /\ f.ann.flatten /\ HasMsg(s, f.ref)
     /\ LET C == MsgByName(s, f.ref) IN (\E g \in Range(C.fields) : g.ann.flatten) \/ (\E o \in Range(C.oneofs) : o.hasCfg)
\* well-known types whose proto3 JSON form is a scalar, not an object
WktScalarLike == {"google.protobuf.Duration", "google.protobuf.FieldMask", "google.protobuf.StringValue", "google.protobuf.BytesValue",
                  "google.protobuf.Int32Value", "google.protobuf.Int64Value", "google.protobuf.UInt32Value", "google.protobuf.UInt64Value",
                  "google.protobuf.FloatValue", "google.protobuf.DoubleValue", "google.protobuf.BoolValue", "google.protobuf.Value",
                  "google.protobuf.ListValue"}
WktScalarReachable(s, top) == \E n \in Reach(s, {top}, {}) : \E f \in Range(MsgByName(s, n).fields) : f.kind = "message" /\ f.ref \in WktScalarLike

Leaf(f, x) ==
  CASE f.card = "map" -> (IF f.kind = "enum" THEN x.custom ELSE x.std)
    [] f.ann.int64 = "NUMBER" /\ f.kind \in {"int64", "uint64", "sint64", "fixed64", "sfixed64"} -> x.num
    [] f.kind = "enum" /\ f.ann.enumEnc = "NUMBER" -> x.num
    [] f.kind = "enum" -> x.custom                      \* = std when the value has no custom name
    [] f.ann.ts = "UNIX_SECONDS" -> x.unixs [] f.ann.ts = "UNIX_MILLIS" -> x.unixms [] f.ann.ts = "DATE" -> x.date
    [] f.ann.bytes = "BASE64_RAW" -> x.b64raw [] f.ann.bytes = "BASE64URL" -> x.b64url
    [] f.ann.bytes = "BASE64URL_RAW" -> x.b64urlraw [] f.ann.bytes = "HEX" -> x.hex
    [] OTHER -> x.std

\* "empty" for empty_behavior is proto.Size() = 0: a message without a populated field - or a well-known type
\* (a leaf here: its JSON form is protojson's) at its default value, whatever that renders as ("0s", "", 0)
EmptyMsgVal(v) == (v.t = "m" /\ v.empty) \/ (v.t = "s" /\ "wempty" \in DOMAIN v /\ v.wempty)

\* Enc has a mode h ("honour"): TRUE = the message's annotations apply (the contract, at any depth);
\* FALSE = plain proto3 JSON (every annotation of this message ignored, enum names as declared).
\* The contract is Enc(s, x) = EncMsgVal(s, x, TRUE, TRUE): h stays TRUE for nested messages.
\* nh = the mode nested messages are encoded in (FALSE models D_nested_codec_ignored).
RECURSIVE EncVal(_, _, _, _, _), Members(_, _, _, _, _), EncMsgVal(_, _, _, _)
\* md = [nh, nn]: nh = the mode nested messages are encoded in (FALSE models D_nested_codec_ignored);
\* nn = TRUE models D_unwrap_empty_as_null (an empty unwrapped list is written as null).
EncMsgVal(s, x, h, md) ==
  IF ~HasMsg(s, x.type) THEN Canon(x.std)               \* well-known / foreign types: protojson's rendering
  ELSE LET M == MsgByName(s, x.type) IN
       IF h /\ IsRootUnwrap(M) THEN EncVal(s, M.fields[1], x.fs[1].v, h, md)
       ELSE JObj(Members(s, M, x, h, md))

EncVal(s, f, x, h, md) ==
  CASE x.t = "s"  -> Canon(IF h THEN Leaf(f, x) ELSE x.std)   \* (a well-known type may render as an object / array)
    [] x.t = "l"  -> JArr([i \in DOMAIN x.es |-> EncVal(s, f, x.es[i], h, md)])
    [] x.t = "mp" -> JObj({<<x.es[i].k,
                             \* map-value unwrap: a value message with an unwrap field collapses to that field's array
                             IF h /\ x.es[i].v.t = "m" /\ HasMsg(s, x.es[i].v.type) /\ HasUnwrap(MsgByName(s, x.es[i].v.type))
                             THEN LET VM == MsgByName(s, x.es[i].v.type)
                                      uf == UnwrapFieldOf(VM)
                                      uv == (CHOOSE p \in Range(x.es[i].v.fs) : p.name = uf.name).v
                                  IN IF md.nn /\ uv.t = "l" /\ uv.es = <<>> THEN JNull ELSE EncVal(s, uf, uv, md.nh, md)
                             ELSE EncVal(s, f, x.es[i].v, h, md)>> : i \in DOMAIN x.es})
    [] x.t = "m"  -> EncMsgVal(s, x, md.nh, md)        \* a nested message: its own mapping, in mode nh

Members(s, M, x, h, md) ==
  UNION {
    LET f  == FieldOf(M, p.name)
        v  == p.v
    IN  CASE h /\ HasOneofCfg(M, f) ->
               IF ~p.has THEN {}
               ELSE LET o == OneofOf(M, f.oneof)
                        dv == [t |-> "str", v |-> IF f.ann.oneofValue # "" THEN f.ann.oneofValue ELSE f.name]
                    IN {<<o.discriminator, dv>>}
                       \cup (IF o.flatten /\ v.t = "m" /\ HasMsg(s, v.type)
                             THEN Members(s, MsgByName(s, v.type), v, md.fh, md)
                             ELSE IF v.t = "m" THEN {<<f.json, EncMsgVal(s, v, md.fh, md)>>}
                             ELSE {<<f.json, EncVal(s, f, v, h, md)>>})
          [] h /\ f.ann.flatten /\ f.kind = "message" ->
               IF ~p.has \/ ~HasMsg(s, v.type) THEN {}
               ELSE {<<f.ann.prefix \o kv[1], kv[2]>> : kv \in Members(s, MsgByName(s, v.type), v, md.fh, md)}
          [] h /\ f.ann.nullable -> IF p.has THEN {<<f.json, EncVal(s, f, v, h, md)>>} ELSE {<<f.json, JNull>>}
          [] h /\ f.ann.empty \in {"NULL", "OMIT"} /\ p.has /\ EmptyMsgVal(v) ->
               IF f.ann.empty = "NULL" THEN {<<f.json, JNull>>} ELSE {}
          [] OTHER -> IF p.has THEN {<<f.json, EncVal(s, f, v, h, md)>>} ELSE {}
    : p \in Range(x.fs) }

Contract == [nh |-> TRUE, fh |-> TRUE, nn |-> FALSE]
\* the JSON form of a top-level message value (the contract)
Enc(s, x) == EncMsgVal(s, x, TRUE, Contract)
\* the variants the code produces today (each tied to a known finding)
\* (fh: a message reached through a flatten field or as the variant of a discriminated oneof is written by
\* the holder's codec, which calls the child's own codec - D_nested_codec_ignored does not reach those)
EncVariant(s, x, nestedPlain, nilNull) == EncMsgVal(s, x, TRUE, [nh |-> ~nestedPlain, fh |-> TRUE, nn |-> nilNull])
EncPlainNested(s, x) == EncVariant(s, x, TRUE, FALSE)

(***************************************************************************)
(* Round trip (C04): decoding what was encoded yields the value up to the  *)
(* documented losses.  Identity is compared on tokens.                     *)
(***************************************************************************)
\* fl = TRUE additionally applies the loss of the finding D_flatten_empty_child_presence: a flattened
\* child that is set but contributes no member (all its fields at their defaults) comes back unset
RECURSIVE NormValF(_, _, _, _), NormMsgF(_, _, _)
NormLeaf(f, x) == CASE f.ann.ts = "UNIX_SECONDS" -> x.tokS [] f.ann.ts = "UNIX_MILLIS" -> x.tokMs
                    [] f.ann.ts = "DATE" -> x.tokDate [] OTHER -> x.tok
NormValF(s, f, x, fl) ==
  CASE x.t = "s"  -> [t |-> "s", tok |-> NormLeaf(f, x)]
    [] x.t = "l"  -> [t |-> "l", es |-> [i \in DOMAIN x.es |-> NormValF(s, f, x.es[i], fl)]]
    \* map-value unwrap: "message can have other fields (but only the unwrap field is used)" - the
    \* wrapper's other fields are a documented loss when it travels as a map value
    [] x.t = "mp" -> [t |-> "mp", es |-> {<<x.es[i].k,
                         LET v == x.es[i].v IN
                         IF v.t = "m" /\ HasMsg(s, v.type) /\ HasUnwrap(MsgByName(s, v.type))
                         THEN LET nm == NormMsgF(s, v, fl)
                                  un == UnwrapFieldOf(MsgByName(s, v.type)).name
                              IN [t |-> "m", fs |-> {<<q[1], IF q[1] = un THEN q[2] ELSE [t |-> "unset"]>> : q \in nm.fs}]
                         ELSE NormValF(s, f, v, fl)>> : i \in DOMAIN x.es}]
    [] x.t = "m"  -> NormMsgF(s, x, fl)
NormMsgF(s, x, fl) ==
  IF ~HasMsg(s, x.type) THEN [t |-> "s", tok |-> x.tok]
  ELSE LET M == MsgByName(s, x.type) IN
       [t |-> "m", fs |-> { LET f == FieldOf(M, p.name)
                                lost == p.has /\ EmptyMsgVal(p.v) /\ f.ann.empty \in {"NULL", "OMIT"}
                                lostFlat == fl /\ p.has /\ p.v.t = "m" /\ f.ann.flatten /\ HasMsg(s, p.v.type)
                                            /\ LET j == EncMsgVal(s, p.v, TRUE, Contract) IN j.t = "obj" /\ j.m = {}
                            IN <<p.name, IF p.has /\ ~lost /\ ~lostFlat THEN NormValF(s, f, p.v, fl) ELSE [t |-> "unset"]>> : p \in Range(x.fs) }]
NormVal(s, f, x) == NormValF(s, f, x, FALSE)
NormMsg(s, x) == NormMsgF(s, x, FALSE)

\* the same projection of a decoded value (no losses applied: what came back is what it is)
RECURSIVE PlainVal(_), PlainMsg(_)
PlainVal(x) ==
  CASE x.t = "s"  -> [t |-> "s", tok |-> x.tok]
    [] x.t = "l"  -> [t |-> "l", es |-> [i \in DOMAIN x.es |-> PlainVal(x.es[i])]]
    [] x.t = "mp" -> [t |-> "mp", es |-> {<<x.es[i].k, PlainVal(x.es[i].v)>> : i \in DOMAIN x.es}]
    [] x.t = "m"  -> PlainMsg(x)
PlainMsg(x) ==
  IF "fs" \notin DOMAIN x THEN [t |-> "s", tok |-> x.tok]
  ELSE [t |-> "m", fs |-> {<<p.name, IF p.has THEN PlainVal(p.v) ELSE [t |-> "unset"]>> : p \in Range(x.fs)}]

\* a value satisfies the (buf.validate.field) rules of its message types that bear on which values the
\* server accepts and sends: every required field is populated (a singular field is set / non-zero, a
\* list or map is non-empty), and a singular string / bytes value has a length within min_len .. max_len
\* (characters of a string, BYTES of a bytes value - not characters of its JSON rendering), at every depth
RECURSIVE SatisfiesRules(_, _)
Populated(p) == p.has /\ (p.v.t \in {"l", "mp"} => Len(p.v.es) > 0)
LenOK(f, v) == (v.t = "s" /\ f.kind \in {"string", "bytes"} /\ "len" \in DOMAIN v) =>
                 /\ (f.rules.minLen >= 0 => v.len >= f.rules.minLen)
                 /\ (f.rules.maxLen >= 0 => v.len <= f.rules.maxLen)
SatisfiesRules(s, x) ==
  IF "fs" \notin DOMAIN x \/ ~HasMsg(s, x.type) THEN TRUE
  ELSE LET M == MsgByName(s, x.type) IN
       \A p \in Range(x.fs) :
          /\ (FieldOf(M, p.name).rules.required => Populated(p))
          /\ (p.has => LenOK(FieldOf(M, p.name), p.v))
          \* a field without presence is judged by its rules also when it holds the zero value (length 0)
          /\ (~p.has /\ FieldOf(M, p.name).card = "one" /\ FieldOf(M, p.name).kind \in {"string", "bytes"} => FieldOf(M, p.name).rules.minLen <= 0)
          /\ (p.has /\ p.v.t = "m" => SatisfiesRules(s, p.v))
          /\ (p.has /\ p.v.t = "l" => \A i \in DOMAIN p.v.es : p.v.es[i].t = "m" => SatisfiesRules(s, p.v.es[i]))
          /\ (p.has /\ p.v.t = "mp" => \A i \in DOMAIN p.v.es : p.v.es[i].v.t = "m" => SatisfiesRules(s, p.v.es[i].v))

\* The losses are allowed, not required - field by field: a set-but-empty message under empty_behavior NULL /
\* OMIT may come back unset or present (a decoder may read "c": null as "present and empty"); a timestamp
\* leaf comes back exact or truncated to its format; the other fields of a map-value unwrap wrapper never travel.
RECURSIVE BackVal(_, _, _, _), BackMsg(_, _, _)
BackVal(s, f, x, b) ==
  /\ b.t = x.t
  /\ CASE x.t = "s"  -> b.tok \in {x.tok, NormLeaf(f, x)}
        [] x.t = "l"  -> Len(b.es) = Len(x.es) /\ \A i \in DOMAIN x.es : BackVal(s, f, x.es[i], b.es[i])
        [] x.t = "mp" -> /\ {x.es[i].k : i \in DOMAIN x.es} = {b.es[i].k : i \in DOMAIN b.es} /\ Len(b.es) = Len(x.es)
                         /\ \A i \in DOMAIN x.es : \E j \in DOMAIN b.es :
                               /\ b.es[j].k = x.es[i].k
                               /\ LET v == x.es[i].v w == b.es[j].v IN
                                  IF v.t = "m" /\ HasMsg(s, v.type) /\ HasUnwrap(MsgByName(s, v.type)) /\ w.t = "m" /\ "fs" \in DOMAIN w
                                  THEN LET un == UnwrapFieldOf(MsgByName(s, v.type)).name IN
                                       \A p \in Range(v.fs) : \E q \in Range(w.fs) : q.name = p.name /\
                                           (IF p.name = un THEN (p.has = q.has /\ (p.has => BackVal(s, FieldOf(MsgByName(s, v.type), un), p.v, q.v))) ELSE ~q.has)
                                  ELSE BackVal(s, f, v, w)
        [] x.t = "m"  -> BackMsg(s, x, b)
BackMsg(s, x, b) ==
  IF "fs" \notin DOMAIN x \/ ~HasMsg(s, x.type) THEN b.tok = x.tok
  ELSE /\ "fs" \in DOMAIN b
       /\ LET M == MsgByName(s, x.type) IN
          \A p \in Range(x.fs) : \E q \in Range(b.fs) :
             /\ q.name = p.name
             /\ LET f == FieldOf(M, p.name)
                    mayLose == p.has /\ EmptyMsgVal(p.v) /\ f.ann.empty \in {"NULL", "OMIT"}
                IN IF ~p.has THEN ~q.has
                   ELSE IF mayLose THEN (~q.has \/ BackVal(s, f, p.v, q.v))
                   ELSE q.has /\ BackVal(s, f, p.v, q.v)
RoundTripOK(s, x, back) == PlainMsg(back) \in {NormMsg(s, x), PlainMsg(x)} \/ BackMsg(s, x, back)
RoundTripFlatLossOK(s, x, back) == PlainMsg(back) = NormMsgF(s, x, TRUE)

\* Skeleton of a value for the finding D_stdjson_children: the children a message encodes with
\* encoding/json (flattened fields, members of a discriminated oneof) are reduced to their presence;
\* everything else - the message's other fields, which oneof member is set, which flattened child is
\* present - is kept.  Under the finding a round trip must still preserve the skeleton.
StdJsonField(M, f) == f.ann.flatten \/ (f.oneof # "" /\ \E o \in Range(M.oneofs) : o.name = f.oneof /\ o.hasCfg)
RECURSIVE SkelVal(_, _, _), SkelMsg(_, _)
SkelVal(s, f, x) ==
  CASE x.t = "s"  -> [t |-> "s", tok |-> NormLeaf(f, x)]
    [] x.t = "l"  -> [t |-> "l", es |-> [i \in DOMAIN x.es |-> SkelVal(s, f, x.es[i])]]
    [] x.t = "mp" -> [t |-> "mp", es |-> {<<x.es[i].k, SkelVal(s, f, x.es[i].v)>> : i \in DOMAIN x.es}]
    [] x.t = "m"  -> SkelMsg(s, x)
SkelMsg(s, x) ==
  IF "fs" \notin DOMAIN x \/ ~HasMsg(s, x.type) THEN [t |-> "s", tok |-> x.tok]
  ELSE LET M == MsgByName(s, x.type) IN
       [t |-> "m", fs |-> { LET f == FieldOf(M, p.name)
                                lost == p.has /\ EmptyMsgVal(p.v) /\ f.ann.empty \in {"NULL", "OMIT"}
                            IN <<p.name, IF p.has /\ ~lost
                                         THEN (IF StdJsonField(M, f) THEN [t |-> "present"] ELSE SkelVal(s, f, p.v))
                                         ELSE [t |-> "unset"]>> : p \in Range(x.fs) }]
RoundTripSkelOK(s, x, back) == SkelMsg(s, x) = SkelMsg(s, back)
FormOK(s, x, json) == Canon(json) = Enc(s, x)
=============================================================================
