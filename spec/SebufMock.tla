------------------------------ MODULE SebufMock ------------------------------
(***************************************************************************)
(* The optional mock server (generate_mock=true) as the contract sees it.  *)
(* A mock RPC is a total function of the request that returns a message    *)
(* of the RPC's response type; what the contract fixes about that message: *)
(*  - its JSON form (as written by the generated server) validates         *)
(*    against, and is described by, the RPC's published 200 schema;        *)
(*  - every singular scalar / enum field present in the reply that         *)
(*    declares at least one example parsable to the field's type carries   *)
(*    one of the parsable examples (an unparsable entry in the list never  *)
(*    hides the usable ones).  Fields without usable examples are free.    *)
(* A leaf is logged as [tok, parsed, hasParsable, hasUnparsable]: the      *)
(* observed canonical value token and the canonical tokens of the          *)
(* examples that parse (string -> typed value is strconv's, not TLA+'s,    *)
(* job: the harness parses, the specification compares).                   *)
(***************************************************************************)
EXTENDS SebufOpenApi

MockReplyConforms(j, S, doc) == Validates(j, S, doc) /\ Described(j, S, doc)
LeafOK(lf) == lf.hasParsable => lf.tok \in Range(lf.parsed)
ExamplesUsed(leaves) == \A lf \in Range(leaves) : LeafOK(lf)
=============================================================================
