--------------------------- MODULE SebufEndToEnd ---------------------------
(***************************************************************************)
(* The composition of the two halves that the other modules specify apart: *)
(* the CLIENT contract of SebufCall (what a generated client must put on   *)
(* the wire for a call: SentMatches) feeding the SERVER life cycle of      *)
(* SebufWire (header check, URL / body binding, validation, dispatch,      *)
(* error pipeline), and the client's mapping of the answer back to its     *)
(* caller (SebufClientErr).                                                *)
(*                                                                         *)
(* Neither half mentions the other.  This module asks whether they FIT:    *)
(* for every encoding of a call the client contract allows (which fields   *)
(* the body mentions, which zero-valued optional parameters are left out), *)
(* and for every schedule of the server steps,                             *)
(*   E2E_ReqEq   the handler sees exactly the caller's value               *)
(*   E2E_RespEq  the caller gets exactly the handler's value               *)
(*   E2E_Errors  a handler error / a rejected call reaches the caller as   *)
(*               the error value the client half promises                  *)
(*   E2E_Total   every call returns (no stuck state)                       *)
(* A failure here means one of the two contracts is too weak for the other *)
(* to rely on, whatever the code does - which is how the rule for a        *)
(* repeated field mentioned by URL and body (SebufWire!BothMentionRepeated)*)
(* was found to be under-specified and tightened.                          *)
(***************************************************************************)
EXTENDS SebufWire

VARIABLES cl,        \* client program counter: idle / called / sent / returned
          call,      \* the call as the caller made it
          ret        \* what the caller got back
evars == <<vars, cl, call, ret>>

CE == INSTANCE SebufClientErr

BodyVerb(v) == HasBody(v)
Val(c, f)  == Lookup(c.value, f, "?")
ZeroV(c, f) == Lookup(c.zero, f, "?")
IsZero(c, f) == Val(c, f) = ZeroV(c, f)
QueryFields(c) == {q.field : q \in Range(c.rpc.query)}
ReqQuery(c) == {q.field : q \in {x \in Range(c.rpc.query) : x.required}}
PathFields(c) == Range(c.rpc.pathVars)
AllFields(c) == Range(c.rpc.fields)

\* --- the encodings the client contract (SebufCall!SentMatches) allows ------------------------
\* mentioned: the fields the body carries (a field left out decodes to its zero value, so only
\*            zero-valued fields may be left out); on verbs without a body nothing is mentioned
\* absentQ:   optional query parameters left out of the URL (only when the value is the zero value)
Encodings(c) ==
  { [mentioned |-> m, absentQ |-> a] :
      m \in (IF BodyVerb(c.rpc.verb) THEN {x \in SUBSET AllFields(c) : \A f \in AllFields(c) \ x : IsZero(c, f)} ELSE {{}}),
      a \in {x \in SUBSET (QueryFields(c) \ ReqQuery(c)) : \A f \in x : IsZero(c, f)} }

SeqOf(S) == CHOOSE s \in [1..Cardinality(S) -> S] : \A i, j \in 1..Cardinality(S) : i # j => s[i] # s[j]

\* the abstract wire request of the call under an encoding
WireOf(c, e) ==
  LET fs == c.rpc.fields
      urlFields == [i \in 1..(Len(c.rpc.pathVars) + Len(c.rpc.query)) |->
                      IF i <= Len(c.rpc.pathVars)
                      THEN [field |-> c.rpc.pathVars[i], loc |-> "path", cls |-> "good", tok |-> Val(c, c.rpc.pathVars[i])]
                      ELSE LET q == c.rpc.query[i - Len(c.rpc.pathVars)] IN
                           [field |-> q.field, loc |-> "query",
                            cls |-> IF q.field \in e.absentQ THEN "absent" ELSE IF IsZero(c, q.field) THEN "zero" ELSE "good",
                            tok |-> Val(c, q.field)]]
      ms == SeqOf(e.mentioned)
  IN [rpc |-> c.rpc,
      hdrVals |-> [i \in DOMAIN c.hdrVals |-> c.hdrVals[i]],
      url |-> urlFields,
      body |-> IF BodyVerb(c.rpc.verb)
               THEN [cls |-> "valid", ctype |-> c.ctype, mentions |-> ms, vals |-> [i \in DOMAIN ms |-> [k |-> ms[i], v |-> Val(c, ms[i])]]]
               ELSE [cls |-> "absent", ctype |-> c.ctype, mentions |-> <<>>, vals |-> <<>>],
      zero |-> c.zero, ruleViol |-> c.ruleViol, handler |-> c.handler, hook |-> c.hook, server |-> c.server]

\* --- the client's mapping of the answer (the contract half of SebufClientErr) -----------------
\* the response as the client sees it
SeenResp(r) ==
  [status |-> r.status, ctype |-> r.ctype,
   ve  |-> [ok |-> r.kind = "ve", viol |-> IF r.kind = "ve" THEN SeqOf(r.viol) ELSE <<>>],
   err |-> [ok |-> r.kind = "err", msg |-> IF r.kind = "err" THEN r.msg ELSE ""],
   raw |-> IF r.kind = "custom" THEN r.val ELSE ""]
\* the outcomes the client half allows for it
Outcomes(r) ==
  IF r.status = 200 /\ r.kind = "message"
  THEN {[kind |-> "ok", val |-> r.val, viol |-> <<>>, status |-> 0, message |-> "", body |-> ""]}
  ELSE { o \in { [kind |-> k, val |-> "", viol |-> v, status |-> st, message |-> m, body |-> b] :
                   k \in {"validationError", "apiError", "rawError"}, v \in {<<>>, SeenResp(r).ve.viol},
                   st \in {0, r.status}, m \in {"", r.msg}, b \in {"", SeenResp(r).raw} } :
         CE!C10_ClientMaps(SeenResp(r), o) /\ CE!C11_ClientTotal(SeenResp(r), o) }

NoCall == [none |-> TRUE]
NoRet  == [kind |-> "none", val |-> "", viol |-> <<>>, status |-> 0, message |-> "", body |-> ""]

EInit == /\ pc = "idle" /\ req = [none |-> TRUE] /\ bodyRead = FALSE /\ saw = NoSaw /\ err = NoErr
         /\ hookSaw = "none" /\ resp = NoResp /\ bound = Unbound
         /\ cl = "idle" /\ call = NoCall /\ ret = NoRet

\* the caller makes the call; the client encodes it in one of the allowed ways and it reaches the server
ClientCall(c) == /\ cl = "idle" /\ cl' = "called" /\ call' = c /\ ret' = NoRet /\ UNCHANGED vars
ClientSend == /\ cl = "called" /\ cl' = "sent"
              /\ \E e \in Encodings(call) : Start(WireOf(call, e))
              /\ UNCHANGED <<call, ret>>
ServerStep == /\ cl = "sent"
              /\ \/ CheckHeaders \/ BindUrl \/ TouchBody \/ BindBody \/ Validate
                 \/ (pc = "valid_ok" /\ \E s \in SawSet(req) : Dispatch(s))
                 \/ HandlerReturn \/ CallHook \/ Respond \/ Emit
              /\ UNCHANGED <<cl, call, ret>>
ClientReturn == /\ cl = "sent" /\ pc = "done" /\ cl' = "returned"
                /\ ret' \in Outcomes(resp)
                /\ UNCHANGED <<vars, call>>

ENext(Calls) == (\E c \in Calls : ClientCall(c)) \/ ClientSend \/ ServerStep \/ ClientReturn

(***************************************************************************)
(* What the composition must guarantee.                                    *)
(***************************************************************************)
Valid(c) == c.ruleViol = <<>>
HeadersOK(c) == \A h \in Required(c.rpc) : \E v \in Range(c.hdrVals) : v.lname = h.lname /\ v.cls = "ok"

\* the handler sees exactly the caller's value, field by field
E2E_ReqEq == Dispatched => \A f \in AllFields(call) : saw[f] = Val(call, f)
\* a well-formed call with its headers in place is dispatched, never rejected
E2E_Accepted == (cl = "returned" /\ Valid(call) /\ HeadersOK(call)) => Dispatched
\* the caller gets exactly the handler's value
E2E_RespEq == (cl = "returned" /\ Dispatched /\ call.handler.kind = "ok") => ret.kind = "ok" /\ ret.val = call.handler.val
\* a handler error reaches the caller as an error value that carries its message or body
E2E_HandlerError ==
  (cl = "returned" /\ Dispatched /\ call.handler.kind \in {"plain", "sebufError"} /\ ~call.hook.on) =>
     ret.kind \in {"apiError", "rawError"} /\ ret.message = call.handler.msg
\* a call the server refuses (missing header, rule violation) reaches the caller as a validation error
\* naming what the server named
E2E_Refused ==
  (cl = "returned" /\ ~Dispatched /\ ~call.hook.on) =>
     ret.kind = "validationError" /\ ret.viol # <<>> /\ Range(ret.viol) = resp.viol
\* every call returns
E2E_Total == (cl \in {"called", "sent"}) => ENABLED (ClientSend \/ ServerStep \/ ClientReturn)
ETypeOK == cl \in {"idle", "called", "sent", "returned"}
=============================================================================
