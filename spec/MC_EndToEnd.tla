---------------------------- MODULE MC_EndToEnd ----------------------------
(***************************************************************************)
(* Exhaustive instance of SebufEndToEnd: every verb, every combination of  *)
(* zero / non-zero field values, every encoding the client contract allows *)
(* (body mentions, omitted optional parameters), a required header present *)
(* or missing, a rule violation or none, every handler outcome - and every *)
(* schedule of the server steps.                                           *)
(***************************************************************************)
EXTENDS SebufEndToEnd

Verbs == {"GET", "POST", "PUT", "DELETE", "PATCH"}
F(n, k, c) == [name |-> n, kind |-> k, card |-> c, rule |-> "", oneof |-> ""]
FieldsOf(v) == IF HasBody(v) THEN <<"p", "q", "rq", "rep", "b">> ELSE <<"p", "q", "rq", "rep">>
FdefsOf(v) == <<F("p", "string", "one"), F("q", "int32", "one"), F("rq", "int32", "one"), F("rep", "string", "rep")>>
              \o (IF HasBody(v) THEN <<F("b", "string", "one")>> ELSE <<>>)
RpcOf(v) == [name |-> "M", verb |-> v, fields |-> FieldsOf(v), fdefs |-> FdefsOf(v), pathVars |-> <<"p">>,
             query |-> <<[field |-> "q", name |-> "q", required |-> FALSE], [field |-> "rq", name |-> "rq", required |-> TRUE],
                         [field |-> "rep", name |-> "rep", required |-> FALSE]>>,
             hdrs |-> <<[name |-> "x-a", lname |-> "x-a", level |-> "svc", required |-> TRUE, type |-> "string", format |-> ""]>>,
             group |-> "", ord |-> 0]
NoHook == [on |-> FALSE, msg |-> FALSE, headers |-> FALSE, status |-> FALSE, body |-> FALSE]
Handlers == {[kind |-> "ok", msg |-> "", val |-> "RESP", viol |-> <<>>], [kind |-> "plain", msg |-> "boom", val |-> "", viol |-> <<>>],
             [kind |-> "validationError", msg |-> "", val |-> "", viol |-> <<"a.b">>], [kind |-> "custom", msg |-> "", val |-> "CUSTOM", viol |-> <<>>]}

\* zs = the set of fields that carry their zero value (p never does: a path segment is not empty)
CallOf(v, zs, hdr, rv, h, ct, srv) ==
  LET fs == FieldsOf(v) IN
  [rpc |-> RpcOf(v),
   value |-> [i \in DOMAIN fs |-> [k |-> fs[i], v |-> IF fs[i] \in zs THEN "Z_" \o fs[i] ELSE "V_" \o fs[i]]],
   zero |-> [i \in DOMAIN fs |-> [k |-> fs[i], v |-> "Z_" \o fs[i]]],
   hdrVals |-> IF hdr THEN <<[lname |-> "x-a", cls |-> "ok"]>> ELSE <<>>,
   ruleViol |-> IF rv /\ HasBody(v) /\ "b" \notin zs THEN <<"b">> ELSE <<>>,
   handler |-> h, hook |-> NoHook, ctype |-> ct, server |-> srv]
\* the TS server speaks JSON only
Calls == { CallOf(v, zs, hdr, rv, h, ct, srv) :
             v \in Verbs, zs \in SUBSET {"q", "rq", "rep", "b"}, hdr \in BOOLEAN, rv \in BOOLEAN, h \in Handlers, ct \in {"json", "proto"}, srv \in {"go", "ts"} }
           \ { c \in { CallOf(v, zs, hdr, rv, h, "proto", "ts") : v \in Verbs, zs \in SUBSET {"q", "rq", "rep", "b"}, hdr \in BOOLEAN, rv \in BOOLEAN, h \in Handlers } : TRUE }

ESpec == EInit /\ [][ENext(Calls)]_evars
=============================================================================
