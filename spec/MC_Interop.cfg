SPECIFICATION Spec
CONSTANTS
  Dev = {}
  Export = FALSE
INVARIANTS
  Completes
  WrongNameBlocked
CHECK_DEADLOCK FALSE
