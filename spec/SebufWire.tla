----------------------------- MODULE SebufWire -----------------------------
(***************************************************************************)
(* The wire life-cycle of ONE call against a generated server, as the      *)
(* published contract describes it (docs/, the emitted ErrorHandler doc    *)
(* comment, errors.proto).  Actions mirror the steps of the emitted        *)
(* BindingMiddleware / genericHandler / writeErrorWithHandler:             *)
(*   CheckHeaders ; BindUrl ; BindBody ; Validate ; Dispatch ;             *)
(*   HandlerReturn ; ErrorPipeline(Hook) ; Respond                         *)
(* Properties C02, C09, C10, C11 (server side) and the server half of C01  *)
(* are stated at the end.  Deviations of the real code that are known      *)
(* findings are extra disjuncts guarded by membership in Dev.              *)
(***************************************************************************)
EXTENDS Naturals, Sequences, FiniteSets, TLC

CONSTANT Dev            \* set of deviation names switched on (contract: {})

VARIABLES pc,           \* program counter of the call
          req,          \* the abstract request (constant during one call)
          bodyRead,     \* has the server touched the request body
          saw,          \* what the handler saw: function field -> token
          err,          \* pending error record
          hookSaw,      \* error kind the hook observed, or "none"
          resp,         \* response record
          bound         \* which of the two binding steps (URL, body) are done
vars == <<pc, req, bodyRead, saw, err, hookSaw, resp, bound>>

Range(s)   == {s[i] : i \in DOMAIN s}
NoErr      == [kind |-> "none", src |-> "none", viol |-> {}, msg |-> "", val |-> ""]
NoResp     == [status |-> 0, kind |-> "none", viol |-> {}, msg |-> "", val |-> "", ctype |-> "none",
               hookHdr |-> FALSE, raw |-> FALSE]
NoSaw      == <<>>
Unbound    == [url |-> FALSE, body |-> FALSE]

BodyVerbs  == {"POST", "PUT", "PATCH"}
HasBody(v) == v \in BodyVerbs
Binary     == {"proto", "octet"}

(***************************************************************************)
(* Headers.  A method-level declaration replaces a service-level one of    *)
(* the same (case-insensitive) name.  lname is the lower-cased name.       *)
(***************************************************************************)
Effective(rpc) ==
  LET m == {h \in Range(rpc.hdrs) : h.level = "method"}
      s == {h \in Range(rpc.hdrs) : h.level = "svc" /\ ~\E g \in m : g.lname = h.lname}
  IN  m \cup s
Required(rpc) == {h \in Effective(rpc) : h.required}

\* What the OpenAPI document publishes for the operation: one header parameter per effective
\* declaration ("" = no declared type is published as a string).
PubType(t) == IF t = "" THEN "string" ELSE t
Published(rpc) == {[lname |-> h.lname, required |-> h.required, type |-> PubType(h.type), format |-> h.format] : h \in Effective(rpc)}
\* The last sentence of C09 speaks about requests that satisfy the PUBLISHED list; it carries over from
\* the declarations to a real document ps exactly when the document says, of every header the servers
\* insist on, that it is required and what its type and format are.
PublishedCovers(rpc, ps) == \A p \in Published(rpc) : p.required => p \in ps

HdrCls(r, lname) ==
  IF \E v \in Range(r.hdrVals) : v.lname = lname
  THEN (CHOOSE v \in Range(r.hdrVals) : v.lname = lname).cls
  ELSE "absent"

\* value classes are generated FROM the published type/format: "ok" satisfies it, "bad" and
\* "nonutf8" clearly do not, "absent" is no header at all; "empty"/"ambiguous" are lexically
\* ambiguous forms that are recorded but never judged.
\* On a JavaScript runtime a header value is a byte string: bytes that are not UTF-8 are not by
\* themselves ill-formed there, so for the TS server that class is recorded but not judged.
HdrDefBad(r) == IF r.server = "ts" THEN {"absent", "bad"} ELSE {"absent", "bad", "nonutf8"}
HdrAmbig(r)  == IF r.server = "ts" THEN {"empty", "ambiguous", "nonutf8"} ELSE {"empty", "ambiguous"}

HdrDefOffenders(r) == {h.lname : h \in {g \in Required(r.rpc) : HdrCls(r, g.lname) \in HdrDefBad(r)}}
\* The statement constrains dispatch by the REQUIRED headers. A present but ill-formed OPTIONAL header
\* may be ignored (Go server) or reported (TS server): it can offend, it need not.
OptionalIllFormed(r) == {h.lname : h \in {g \in Effective(r.rpc) \ Required(r.rpc) : HdrCls(r, g.lname) \in {"bad", "nonutf8", "ambiguous", "empty"}}}
HdrMayOffenders(r) == {h.lname : h \in {g \in Required(r.rpc) : HdrCls(r, g.lname) \in HdrDefBad(r) \cup HdrAmbig(r)}}
                      \cup (IF r.server = "ts" THEN OptionalIllFormed(r) ELSE {})

(***************************************************************************)
(* URL-carried fields.                                                     *)
(***************************************************************************)
UrlBad   == {"malformed", "oor", "missing_required"}
\* D_client_query_in_body (known finding, TS server): on POST / PUT / PATCH the emitted TS route
\* handler never looks at the query string: query-annotated fields come from the body only and a
\* missing required query parameter is not noticed
TsIgnoresQuery(r) == "D_client_query_in_body" \in Dev /\ r.server = "ts" /\ HasBody(r.rpc.verb)
UrlEff(r)       == IF TsIgnoresQuery(r) THEN {u \in Range(r.url) : u.loc = "path"} ELSE Range(r.url)
UrlOffenders(r) == {u.field : u \in {x \in UrlEff(r) : x.cls \in UrlBad}}
UrlBound(r)     == {u.field : u \in UrlEff(r)}
UrlTok(r, f)    == (CHOOSE u \in Range(r.url) : u.field = f).tok
UrlCls(r, f)    == (CHOOSE u \in Range(r.url) : u.field = f).cls
\* a URL value "sets" the field when it is present and convertible
UrlSets(r, f)   == f \in UrlBound(r) /\ UrlCls(r, f) \in {"good", "pct", "repeated", "zero"}

Lookup(kvs, k, d) == IF \E p \in Range(kvs) : p.k = k THEN (CHOOSE p \in Range(kvs) : p.k = k).v ELSE d

BodyApplies(r)  == HasBody(r.rpc.verb) /\ r.body.cls \in {"valid", "lenient"}
Mentions(r)     == IF BodyApplies(r) THEN Range(r.body.mentions) ELSE {}
Zero(r, f)      == Lookup(r.zero, f, "?")

\* The request message the handler must see (contract).  Where URL and body both mention a field
\* either value is allowed, hence a set of admissible tokens per field.
\* (for a repeated field mentioned by both, the statement leaves the result open: Any)
CardOf(r, f) == (CHOOSE d \in Range(r.rpc.fdefs) : d.name = f).card
Admissible(r, f) ==
  LET fromUrl  == IF UrlSets(r, f) THEN {UrlTok(r, f)} ELSE {}
      fromBody == IF f \in Mentions(r) THEN {Lookup(r.body.vals, f, "?")} ELSE {}
  IN  IF fromUrl \cup fromBody = {} THEN {Zero(r, f)} ELSE fromUrl \cup fromBody
BothMentionRepeated(r, f) == UrlSets(r, f) /\ f \in Mentions(r) /\ CardOf(r, f) = "rep"

\* D_body_resets_url (known finding): a non-empty body on a body verb resets the message after
\* URL binding, so URL-bound fields the body does not mention arrive as their zero value.
DevAdmissible(r, f) ==
  IF "D_body_resets_url" \in Dev /\ BodyApplies(r) /\ f \in UrlBound(r) /\ f \notin Mentions(r)
  THEN {Zero(r, f)} ELSE {}

\* D_ts_server_url_values_unchecked (known finding, TS server): URL values are converted with Number(..)
\* / === "true" and never checked, a missing required query parameter is not noticed: the request is
\* dispatched and the offending fields carry whatever the conversion gave
TsUrlUnchecked(r) == "D_ts_server_url_values_unchecked" \in Dev /\ r.server = "ts"
SawOK(r, s) ==
  /\ DOMAIN s = Range(r.rpc.fields)
  /\ \A f \in DOMAIN s :
        \/ s[f] \in Admissible(r, f) \cup DevAdmissible(r, f)
        \/ (TsUrlUnchecked(r) /\ f \in UrlOffenders(r))
        \/ BothMentionRepeated(r, f)
        \* a leniently decoded body leaves body-carried fields unconstrained
        \/ (r.body.cls = "lenient" /\ BodyApplies(r) /\ f \notin UrlBound(r))

\* finite enumeration used by the exhaustive configs (lenient bodies are judged in traces only):
\* the product of the admissible sets, built field by field
RECURSIVE SawProd(_, _)
SawProd(r, fs) ==
  IF fs = <<>> THEN {<<>>}
  ELSE LET f == Head(fs) IN
       { (f :> t) @@ g : t \in Admissible(r, f) \cup DevAdmissible(r, f), g \in SawProd(r, Tail(fs)) }
SawSet(r) == SawProd(r, r.rpc.fields)

(***************************************************************************)
(* Error pipeline.                                                         *)
(***************************************************************************)
VE(src, names)  == [kind |-> "ve", src |-> src, viol |-> names, msg |-> "", val |-> ""]
DefaultStatus(e) == IF e.kind = "ve" THEN 400 ELSE 500
RespCtype(r)     == IF r.body.ctype \in Binary THEN "proto" ELSE "json"

HandlerErr(h) ==
  CASE h.kind = "plain"           -> [kind |-> "err", src |-> "handler", viol |-> {}, msg |-> h.msg, val |-> ""]
    [] h.kind = "sebufError"      -> [kind |-> "err", src |-> "handler", viol |-> {}, msg |-> h.msg, val |-> ""]
    [] h.kind = "validationError" -> [kind |-> "ve", src |-> "handler", viol |-> Range(h.viol), msg |-> "", val |-> ""]
    [] h.kind \in {"custom", "wrapped"} -> [kind |-> "custom", src |-> "handler", viol |-> {}, msg |-> "", val |-> h.val]
    [] OTHER -> NoErr

\* what the hook is told (errors.As view documented in the ErrorHandler comment)
HookView(e) == CASE e.kind = "ve" -> "validationError" [] e.kind = "err" -> "sebufError"
                 [] e.kind = "custom" -> "protoMessage" [] OTHER -> "other"
\* The TS server's hook (ServerOptions.onError) is handed the thrown value and returns the whole Response;
\* a thrown ValidationError is answered with the 400 without the hook being asked (it may be asked).
HookViewOf(r, e) == IF r.server = "ts" THEN (IF e.kind = "ve" THEN "validationError" ELSE "jsError") ELSE HookView(e)
TsVeBypass(r, e) == r.server = "ts" /\ e.kind = "ve"
HookOff(r) == [r EXCEPT !.hook = [on |-> FALSE, msg |-> FALSE, headers |-> FALSE, status |-> FALSE, body |-> FALSE]]

ErrorResponse(r, e) ==
  LET h == r.hook IN
  IF h.on /\ h.body
  THEN [status |-> IF h.status THEN 418 ELSE 200, kind |-> "raw", viol |-> {}, msg |-> "", val |-> "HOOKBODY",
        ctype |-> "any", hookHdr |-> h.headers, raw |-> TRUE]
  ELSE LET st == IF h.on /\ h.status THEN 418 ELSE DefaultStatus(e)
           b  == IF h.on /\ h.msg THEN [kind |-> "err", viol |-> {}, msg |-> "hooked", val |-> ""]
                 ELSE [kind |-> e.kind, viol |-> e.viol, msg |-> e.msg, val |-> e.val]
       IN [status |-> st, kind |-> b.kind, viol |-> b.viol, msg |-> b.msg, val |-> b.val,
           ctype |-> RespCtype(r), hookHdr |-> h.on /\ h.headers, raw |-> FALSE]

\* D_wrapped_custom (known finding): a custom proto error inside a wrapped error is not recognised;
\* it is reported as a plain error whose message is the wrapped text.
DevErrorResponses(r, e) ==
  IF "D_wrapped_custom" \in Dev /\ r.handler.kind = "wrapped" /\ e.kind = "custom"
  THEN {ErrorResponse(r, [e EXCEPT !.kind = "err", !.msg = "*", !.val = ""])} ELSE {}

(***************************************************************************)
(* The step-wise pipeline.                                                 *)
(***************************************************************************)
Start(r) == /\ pc \in {"idle", "done"}
            /\ pc' = "recv" /\ req' = r /\ bodyRead' = FALSE /\ saw' = NoSaw
            /\ err' = NoErr /\ hookSaw' = "none" /\ resp' = NoResp /\ bound' = Unbound

CheckHeaders ==
  /\ pc = "recv"
  /\ \E off \in SUBSET HdrMayOffenders(req) :
        /\ HdrDefOffenders(req) \subseteq off
        /\ IF off = {} THEN pc' = "binding" /\ err' = err
                       ELSE pc' = "errored" /\ err' = VE("header", off)
  /\ UNCHANGED <<req, bodyRead, saw, hookSaw, resp, bound>>

\* URL binding and body binding may happen in either order (the contract does not fix it; where
\* both mention a field either value is admissible, and either failure may be the one reported).
BindUrl ==
  /\ pc = "binding" /\ ~bound.url
  /\ IF UrlOffenders(req) = {} \/ TsUrlUnchecked(req)
     THEN pc' = pc /\ err' = err /\ bound' = [bound EXCEPT !.url = TRUE]
     ELSE /\ \E off \in (SUBSET UrlOffenders(req)) \ {{}} : pc' = "errored" /\ err' = VE("url", off)
          /\ bound' = bound
  /\ UNCHANGED <<req, bodyRead, saw, hookSaw, resp>>

\* the server may touch the body at any time after the header check has passed
TouchBody ==
  /\ pc \in {"binding", "valid_ok", "dispatched"} \/ (pc = "errored" /\ err.src # "header")
  /\ ~bodyRead /\ req.body.cls # "absent"
  /\ bodyRead' = TRUE
  /\ UNCHANGED <<pc, req, saw, err, hookSaw, resp, bound>>

BindBody ==
  /\ pc = "binding" /\ ~bound.body
  /\ \/ /\ ~HasBody(req.rpc.verb) \/ req.body.cls \in {"absent", "empty", "valid"}
        /\ pc' = pc /\ err' = err /\ bound' = [bound EXCEPT !.body = TRUE]
     \/ /\ HasBody(req.rpc.verb) /\ req.body.cls \in {"malformed", "lenient"}
        /\ pc' = "errored" /\ err' = VE("body", {"body"}) /\ bound' = bound
     \/ /\ HasBody(req.rpc.verb) /\ req.body.cls = "lenient"
        /\ pc' = pc /\ err' = err /\ bound' = [bound EXCEPT !.body = TRUE]
  /\ UNCHANGED <<req, bodyRead, saw, hookSaw, resp>>

Validate ==
  /\ pc = "binding" /\ bound.url /\ bound.body
  /\ IF Range(req.ruleViol) = {}
     THEN pc' = "valid_ok" /\ err' = err
     ELSE pc' = "errored" /\ err' = VE("rule", Range(req.ruleViol))
  /\ UNCHANGED <<req, bodyRead, saw, hookSaw, resp, bound>>

Dispatch(s) ==
  /\ pc = "valid_ok"
  /\ SawOK(req, s) /\ saw' = s
  /\ pc' = "dispatched"
  /\ UNCHANGED <<req, bodyRead, err, hookSaw, resp, bound>>

HandlerReturn ==
  /\ pc = "dispatched"
  /\ IF req.handler.kind = "ok"
     THEN /\ pc' = "responding"
          /\ resp' = [status |-> 200, kind |-> "message", viol |-> {}, msg |-> "", val |-> req.handler.val,
                      ctype |-> RespCtype(req), hookHdr |-> FALSE, raw |-> FALSE]
          /\ err' = err
     ELSE /\ pc' = "errored" /\ err' = HandlerErr(req.handler) /\ resp' = resp
  /\ UNCHANGED <<req, bodyRead, saw, hookSaw, bound>>

CallHook ==
  /\ pc = "errored" /\ req.hook.on /\ hookSaw = "none"
  /\ hookSaw' = HookViewOf(req, err)
  /\ UNCHANGED <<pc, req, bodyRead, saw, err, resp, bound>>

Respond ==
  /\ pc = "errored"
  /\ (req.hook.on /\ ~TsVeBypass(req, err)) => hookSaw # "none"
  \* a hook that was not asked has overridden nothing
  /\ resp' \in (IF req.hook.on /\ hookSaw = "none" THEN {ErrorResponse(HookOff(req), err)} ELSE {ErrorResponse(req, err)})
                \cup DevErrorResponses(req, err)
  /\ pc' = "responding"
  /\ UNCHANGED <<req, bodyRead, saw, err, hookSaw, bound>>

\* the response leaves the server (the observable end of the call)
Emit ==
  /\ pc = "responding" /\ pc' = "done"
  /\ UNCHANGED <<req, bodyRead, saw, err, hookSaw, resp, bound>>

\* steps that have no logged event of their own
Internal == CheckHeaders \/ BindUrl \/ BindBody \/ Validate \/ HandlerReturn \/ Respond

Finished == pc = "done"

(***************************************************************************)
(* Properties (stated in the terms of the property statements, not of the  *)
(* pipeline above).                                                        *)
(***************************************************************************)
Dispatched == saw # NoSaw

\* C02: a URL-carried field arrives with the URL's value whenever the body does not mention it
C02_UrlWins ==
  Dispatched => \A f \in UrlBound(req) : (UrlSets(req, f) /\ f \notin Mentions(req)) => saw[f] = UrlTok(req, f)
\* C02: unconvertible URL value / missing required query parameter => 400 naming that field, no dispatch
C02_BadUrl400 ==
  (Finished /\ UrlOffenders(req) # {} /\ HdrMayOffenders(req) = {} /\ err.src # "body") =>
     /\ resp.status = 400 \/ (req.hook.on /\ (req.hook.status \/ req.hook.body))
     /\ ~Dispatched
     /\ (~req.hook.on => resp.kind = "ve" /\ resp.viol # {} /\ resp.viol \subseteq UrlOffenders(req))

\* C09: dispatch only with every required header present and well-formed
C09_Dispatch == Dispatched => HdrDefOffenders(req) = {}
C09_OnePerOffender ==
  (Finished /\ HdrDefOffenders(req) # {} /\ ~req.hook.on) =>
     resp.status = 400 /\ resp.kind = "ve" /\ HdrDefOffenders(req) \subseteq resp.viol /\ resp.viol \subseteq HdrMayOffenders(req)
\* C09: header rejection is decided before the body is read (action property)
C09_BeforeBody == [][ (pc' = "errored" /\ err'.src = "header") => ~bodyRead' ]_vars
C09_NeverReadAfterHeaderReject == (err.src = "header") => ~bodyRead
\* C09: a request whose headers satisfy the published types is never rejected for its headers
C09_PublishedAccepted == (Finished /\ HdrMayOffenders(req) = {}) => err.src # "header"

\* C10: the documented table
C10_Status ==
  (Finished /\ resp.kind # "message" /\ ~(req.hook.on /\ (req.hook.status \/ req.hook.body))) =>
     resp.status = (IF err.kind = "ve" THEN 400 ELSE 500)
C10_HandlerErr500 ==
  (Finished /\ ~req.hook.on /\ err.src = "handler" /\ req.handler.kind \in {"plain", "sebufError"}) =>
     resp.status = 500 /\ resp.kind = "err" /\ resp.msg = req.handler.msg
C10_Custom ==
  (Finished /\ ~req.hook.on /\ err.src = "handler" /\ req.handler.kind \in {"custom", "wrapped"} /\ Dev = {}) =>
     resp.status = 500 /\ resp.kind = "custom" /\ resp.val = req.handler.val
C10_Ctype == (Finished /\ ~resp.raw) => resp.ctype = RespCtype(req)
C10_HookOverride ==
  (Finished /\ req.hook.on /\ err.kind # "none" /\ ~(TsVeBypass(req, err) /\ hookSaw = "none")) =>
     /\ hookSaw = HookViewOf(req, err)
     /\ (req.hook.body => resp.raw /\ resp.val = "HOOKBODY")
     /\ ((req.hook.status /\ ~req.hook.body) => resp.status = 418)
     /\ ((req.hook.msg /\ ~req.hook.body) => resp.kind = "err" /\ resp.msg = "hooked")
     /\ (req.hook.headers => resp.hookHdr)

\* C11: outcome is 200-with-decoded-request or a well-formed 400; never 5xx for a malformed body
C11_Outcome ==
  (Finished /\ err.src \in {"none", "header", "url", "body", "rule"} /\ ~req.hook.on) =>
     \/ resp.status = 200 /\ Dispatched
     \/ resp.status = 400 /\ resp.kind = "ve" /\ resp.viol # {} /\ ~Dispatched
C11_NoDispatchUndecoded ==
  (Dispatched /\ HasBody(req.rpc.verb)) => req.body.cls # "malformed"

\* server half of C01: the handler sees an admissible message and the response carries its value
C01_ServerReq == Dispatched => SawOK(req, saw)
C01_ServerResp == (Finished /\ req.handler.kind = "ok" /\ Dispatched) => resp.status = 200 /\ resp.val = req.handler.val

TypeOK == pc \in {"idle", "recv", "binding", "valid_ok", "dispatched", "errored", "responding", "done"}
=============================================================================
