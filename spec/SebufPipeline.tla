--------------------------- MODULE SebufPipeline ---------------------------
(***************************************************************************)
(* The code-generation run: plugin invocations (any plugin, any request    *)
(* variant, any order, any multiplicity) over one abstract schema, each    *)
(* adding named files with content identities to what has been seen, or    *)
(* failing with an error that names an offender.                           *)
(*   C12  misuse stops generation / valid definitions are never refused    *)
(*   C14  go-http and go-client emit interchangeable files                 *)
(*   C15  output is a pure, order-independent function of the definitions  *)
(*   C16  every run ends with files or an error                            *)
(***************************************************************************)
EXTENDS SebufSchema

CONSTANT Dev
CONSTANT Enforce        \* which property groups guard the actions: subset of {"C12", "C13", "C14", "C15", "C16"}

VARIABLES schema,     \* the abstract schema of the current segment
          domain,     \* TRUE when the schema is documented-valid usage (C12's accept direction applies)
          seen,       \* function <<plugin, file>> -> set of content identities observed so far
          stripped,   \* function file -> set of <<plugin, header-stripped identity>>
          runs,       \* number of runs so far in this segment
          codecBase,  \* function plugin -> set of codec file names it emitted for the whole request ("base" variant)
          outNames,   \* function <<plugin, input file>> -> the set of file names emitted for that input file
          accepted    \* plugins that returned files for the whole request
pvars == <<schema, domain, seen, stripped, runs, codecBase, outNames, accepted>>

Plugins == {"go-http", "go-client", "ts-client", "ts-server", "openapiv3"}

\* table of build-level deviations (known findings, see known_findings.json): the failure kind
\* and the class of the first diagnostic each one prescribes; the guards are in DevGuard below
DevBuild == {[dev |-> "D_ts_dup_url", kind |-> "load", diag |-> "redeclared"],
             [dev |-> "D_client_helper_dup", kind |-> "build", diag |-> "redeclared"],
             [dev |-> "D_server_helper_dup", kind |-> "build", diag |-> "redeclared"],
             [dev |-> "D_service_files_share_package", kind |-> "build", diag |-> "redeclared"]}

AnyField(s, P(_)) == \E m \in GenMsgs(s) : \E f \in Range(m.fields) : P(f)
GenServices(s) == UNION {Range(f.services) : f \in GenFiles(s)}
HeaderNames(sv) == [i \in 1..Len(sv.headers) |-> sv.headers[i].name]
DevGuard(d, s, subset) ==
  CASE d = "D_ts_dup_url" ->
         /\ subset = {"ts-server"}
         /\ \E sv \in GenServices(s) : \E me \in Range(sv.methods) :
               /\ me.hasCfg /\ me.verb \in {"GET", "DELETE"} /\ PathVars(me) # {} /\ HasMsg(s, me.in)
               /\ \E f \in Range(MsgByName(s, me.in).fields) : f.ann.query
    [] d = "D_client_helper_dup" ->
         /\ "go-client" \in subset
         /\ \E sv \in GenServices(s) :
               LET decls == {<<0, i>> : i \in 1..Len(sv.headers)}
                            \cup {<<j, i>> : j \in 1..Len(sv.methods), i \in 1..10}
                   name(x) == IF x[1] = 0 THEN sv.headers[x[2]].name
                              ELSE IF x[2] <= Len(sv.methods[x[1]].headers) THEN sv.methods[x[1]].headers[x[2]].name ELSE ""
               IN \E a, b \in decls : a # b /\ name(a) # "" /\ name(a) = name(b)
    [] d = "D_server_helper_dup" ->
         /\ "go-http" \in subset
         /\ \E f \in GenFiles(s) : \E i, j \in 1..Len(f.services) :
               i # j /\ \E a \in Range(f.services[i].methods), b \in Range(f.services[j].methods) : a.name = b.name
    [] d = "D_service_files_share_package" ->
         /\ subset \cap {"go-http", "go-client"} # {}
         /\ \E i, j \in DOMAIN s.files : LET a == s.files[i] b == s.files[j] IN
               i # j /\ a.generate /\ b.generate /\ a.goPkg = b.goPkg /\ Len(a.services) > 0 /\ Len(b.services) > 0
    [] OTHER -> FALSE

GoPlugins == {"go-http", "go-client"}
CodecKinds == {"codec:unwrap", "codec:int64", "codec:enum", "codec:nullable", "codec:empty", "codec:timestamp",
               "codec:bytes", "codec:flatten", "codec:oneof"}

\* An outcome o = [exit, nfiles, mentions (set of names found in the error text), files (set of
\* [name, sha, stripped])].
Answered(o) == o.exit \in {"files", "error"}                                     \* C16

Refuses(o, viol) == /\ o.exit = "error" /\ o.nfiles = 0
                    /\ \E v \in viol : v.offender \in o.mentions

\* what the contract allows plugin p to answer for schema s
Allowed(p, s, dom, o) ==
  /\ Answered(o)
  /\ CASE p = "go-http" ->
            IF Violations(s) # {} THEN Refuses(o, Violations(s)) ELSE (dom => o.exit = "files")
       [] p = "go-client" ->
            IF ClientViolations(s) # {} THEN Refuses(o, ClientViolations(s))
            ELSE (Violations(s) = {} /\ dom) => o.exit = "files"
       [] OTHER -> (Violations(s) = {} /\ dom) => o.exit = "files"
  /\ o.exit = "files" => o.nfiles = Cardinality(o.files)

\* C15: the bytes a plugin emits for a file never differ from what was seen before (any variant)
Pure(p, o) == \A f \in o.files :
                 LET k == <<p, f.name>> IN k \in DOMAIN seen => seen[k] = {f.sha}
\* C15: the SET of files a plugin emits for an input file is the same in every invocation that
\* generates that input file (o.gen = input files generated by this run, f.src = input file of f)
SameFileSet(p, o) ==
  o.exit = "files" =>
    \A src \in o.gen : LET k == <<p, src>> IN
        k \in DOMAIN outNames => outNames[k] = {f.name : f \in {g \in o.files : g.src = src}}
\* C14: a file name written by both Go plugins carries the same content modulo the header line
Interchangeable(p, o) ==
  p \in GoPlugins =>
    \A f \in o.files : f.name \in DOMAIN stripped =>
        \A w \in stripped[f.name] : w[1] \in GoPlugins => w[2] = f.stripped

\* C14 (second sentence): a package generated by go-client alone has a custom codec for exactly the
\* messages the server side has one for; observed as the set of per-feature codec files.
\* D_client_no_unwrap (known finding): go-client has no unwrap codec emitter at all.
CodecNames(o) == {f.name : f \in {g \in o.files : g.kind \in CodecKinds
                                     /\ ~("D_client_no_unwrap" \in Dev /\ g.kind = "codec:unwrap")}}
ClientAloneEquivalent(p, variant, o) ==
  (variant = "base" /\ p \in GoPlugins /\ o.exit = "files") =>
     \A q \in GoPlugins \ {p} : q \in DOMAIN codecBase => codecBase[q] = CodecNames(o)

Load(s, dom) == /\ schema' = s /\ domain' = dom
                /\ seen' = <<>> /\ stripped' = <<>> /\ runs' = 0 /\ codecBase' = <<>> /\ outNames' = <<>> /\ accepted' = {}

Run(p, variant, o) ==
  /\ "C16" \in Enforce => Answered(o)
  /\ "C12" \in Enforce => Allowed(p, schema, domain, o)
  /\ "C15" \in Enforce => (Pure(p, o) /\ SameFileSet(p, o))
  /\ outNames' = IF o.exit # "files" THEN outNames
                 ELSE [k \in DOMAIN outNames \cup {<<p, src>> : src \in o.gen} |->
                         IF k \in DOMAIN outNames THEN outNames[k]
                         ELSE {f.name : f \in {g \in o.files : g.src = k[2]}}]
  /\ "C14" \in Enforce => (Interchangeable(p, o) /\ ClientAloneEquivalent(p, variant, o))
  /\ codecBase' = IF variant = "base" /\ p \in GoPlugins /\ o.exit = "files"
                  THEN [q \in DOMAIN codecBase \cup {p} |-> IF q = p THEN CodecNames(o) ELSE codecBase[q]]
                  ELSE codecBase
  /\ seen' = [k \in DOMAIN seen \cup {<<p, f.name>> : f \in o.files} |->
                IF k \in DOMAIN seen THEN seen[k] ELSE {(CHOOSE f \in o.files : f.name = k[2]).sha}]
  /\ stripped' = [n \in DOMAIN stripped \cup {f.name : f \in o.files} |->
                    (IF n \in DOMAIN stripped THEN stripped[n] ELSE {})
                    \cup {<<p, f.stripped>> : f \in {g \in o.files : g.name = n}}]
  /\ runs' = runs + 1
  /\ accepted' = IF variant = "base" /\ o.exit = "files" THEN accepted \cup {p} ELSE accepted
  /\ UNCHANGED <<schema, domain>>

(***************************************************************************)
(* C13: what the plugins accept builds.  subset = the set of plugins whose *)
(* output (plus the standard protobuf Go output) forms the package.        *)
(* Deviations (known findings) are guarded by a predicate over the schema  *)
(* and prescribe the class of the first diagnostic.                        *)
(***************************************************************************)
CodecFeaturesOf(m) ==
  {x \in {"int64", "nullable", "empty", "ts", "bytes"} :
     \E f \in Range(m.fields) :
        CASE x = "int64" -> f.ann.int64 = "NUMBER" [] x = "nullable" -> f.ann.nullable [] x = "empty" -> f.ann.empty # ""
          [] x = "ts" -> f.ann.ts # "" [] x = "bytes" -> f.ann.bytes # ""}
MultiFeatureMsg(s) == \E m \in GenMsgs(s) : Cardinality(CodecFeaturesOf(m)) >= 2

\* a build / vet / load failure is tolerated only under a listed deviation whose guard holds and
\* whose diagnostic class matches
\* (written as an equation so that TLC evaluates it as a value: inside an action a bare \E yields one
\* successor per witness)
Tolerated(kind, subset, diag) ==
  TRUE = (\/ "D_dup_marshaljson" \in Dev /\ kind = "build" /\ MultiFeatureMsg(schema) /\ diag = "redeclared"
          \/ \E d \in DevBuild : d.dev \in Dev /\ d.kind = kind /\ d.diag = diag /\ DevGuard(d.dev, schema, subset))

NoDupDecls(subset, dups) ==
  "C13" \in Enforce => (subset \subseteq accepted => (dups = {} \/ Tolerated("build", subset, "redeclared")))
Builds(kind, subset, ok, diag) ==
  "C13" \in Enforce => (subset \subseteq accepted => (ok \/ Tolerated(kind, subset, diag)))
Instrument == UNCHANGED pvars

(***************************************************************************)
(* Invariants in the terms of the statements.                              *)
(***************************************************************************)
C15_Pure == \A k \in DOMAIN seen : Cardinality(seen[k]) = 1
C14_SameNamesSameBytes ==
  \A n \in DOMAIN stripped : \A a, b \in stripped[n] : (a[1] \in GoPlugins /\ b[1] \in GoPlugins) => a[2] = b[2]
=============================================================================
