SPECIFICATION Spec
CONSTANTS
  Dev = {}
  Export = FALSE
INVARIANTS
  TruthTable
CHECK_DEADLOCK FALSE
