--------------------------- MODULE SebufClientErr ---------------------------
(***************************************************************************)
(* The client half of C10 and C11: what a generated client hands to its    *)
(* caller for a response it did not expect.                                *)
(*                                                                         *)
(* A response is abstracted as                                             *)
(*   [status, ctype, ve : [ok, viol : Seq(<<field, description>>)],        *)
(*    err : [ok, msg], raw (body text, "" when not text)]                  *)
(* where ve / err say whether the body is a sebuf ValidationError / Error  *)
(* in the response's encoding (decided by the harness with the protobuf    *)
(* runtime, the same way for every client).                                *)
(* A client outcome is                                                     *)
(*   [kind \in {"ok", "validationError", "apiError", "rawError", "panic",  *)
(*             "timeout", "nilnil"}, viol, status (0 = not carried),       *)
(*    message, body]                                                       *)
(* C10: a 400 whose body is a validation error with violations becomes a   *)
(* validation error carrying the same violations in the same order; every  *)
(* other failure becomes an error value carrying the same status and the   *)
(* message or the body.                                                    *)
(* C11: whatever the response, the outcome is a response or an error       *)
(* value: there is no outcome panic / timeout / (nil, nil).                *)
(***************************************************************************)
EXTENDS Integers, Sequences, FiniteSets, TLC

Success(st) == st \in 200..299
IsVE(resp) == resp.status = 400 /\ resp.ve.ok /\ Len(resp.ve.viol) > 0

ErrorValue(ret) == ret.kind \in {"validationError", "apiError", "rawError"}
C11_ClientTotal(resp, ret) == ret.kind = "ok" \/ ErrorValue(ret)

CarriesFailure(resp, ret) ==
  /\ ret.kind \in {"apiError", "rawError"}
  /\ ret.status = resp.status
  /\ \/ (resp.err.ok /\ ret.message = resp.err.msg)
     \/ (resp.raw # "" /\ ret.body = resp.raw)
     \/ (resp.raw = "" /\ ~resp.err.ok)                                  \* nothing textual to carry
C10_ClientMaps(resp, ret) ==
  IF Success(resp.status) THEN TRUE                                       \* not an error: C01's business
  ELSE IF IsVE(resp) THEN ret.kind = "validationError" /\ ret.viol = resp.ve.viol
  \* a 400 that carries no violations: a validation error without violations (the statement's "a 400
  \* becomes a validation error") or an error value with the status; but a body that holds something
  \* else must not be swallowed
  ELSE IF resp.status = 400 /\ (resp.ve.ok \/ (resp.raw = "" /\ ~resp.err.ok))
       THEN (ret.kind = "validationError" /\ ret.viol = <<>>) \/ CarriesFailure(resp, ret)
  ELSE CarriesFailure(resp, ret)
=============================================================================
