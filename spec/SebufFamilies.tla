--------------------------- MODULE SebufFamilies ---------------------------
(***************************************************************************)
(* Schema families (DESIGN §3.5): operators that build whole abstract      *)
(* schemas from small feature vectors.  The harness concretises whatever   *)
(* record these return, so a new family is a new operator here and nothing *)
(* else.  P is the name prefix that keeps packed cases apart.              *)
(***************************************************************************)
EXTENDS SebufSchema, SequencesExt

TS == "google.protobuf.Timestamp"
Pkg(P)   == P \o ".v1"
GoPkg(P) == "scratch/gen/" \o P \o ";" \o P
FN(P, n) == Pkg(P) \o "." \o n          \* full name of a top-level message

Child(P)  == Msg("Child", FN(P, "Child"), <<F("x", "x", 1, "string", "one"), F("y_z", "yZ", 2, "int32", "one")>>)
Child2(P) == Msg("Child2", FN(P, "Child2"), <<F("w", "w", 1, "string", "one")>>)
EnumE     == Enum("E", <<EnumV("E_UNSPECIFIED", 0, ""), EnumV("E_A", 1, "a"), EnumV("E_B", 2, "")>>)
EnumPlain == Enum("P", <<EnumV("P_UNSPECIFIED", 0, ""), EnumV("P_A", 1, "")>>)
In(P)     == Msg("In", FN(P, "In"), <<F("id", "id", 1, "string", "one")>>)
Out(P)    == Msg("Out", FN(P, "Out"), <<F("ok", "ok", 1, "bool", "one")>>)
Req(f)    == [f EXCEPT !.rules = [f.rules EXCEPT !.required = TRUE]]
Good(P)   == Msg("Good", FN(P, "Good"), <<Ann(F("s", "s", 1, "string", "opt"), "nullable", TRUE)>>)

PostIn(P, in) == Method("Do", in, FN(P, "Out"), TRUE, Parts(TRUE, <<Lit("do")>>, FALSE), "POST")
Svc(P, ms)    == Service("Svc", TRUE, Parts(TRUE, <<Lit("api")>>, FALSE), ms)

(***************************************************************************)
(* C12: one offending construct per documented rule.                       *)
(***************************************************************************)
Rules == {"R1", "R2", "R3", "R4", "R5", "R6", "R7", "R8", "R9", "R10", "R11", "R12", "R13", "R14", "R15", "R16",
          "R17", "R18", "R19", "R20", "R21", "R22", "R23", "R24",
          \* collision rules against other sibling shapes: o = the colliding sibling is a proto3 optional
          \* field, x = it is a member of another (plain) oneof
          "R15o", "R15x", "R17o", "R17x", "R19o", "R19x",
          \* the same collisions with the colliding sibling declared AFTER the flattened field / the oneof
          \* (a = after), and through a flatten_prefix (p: prefix + child name = sibling name)
          "R15a", "R15p", "R15pa", "R17a", "R19a",
          \* the annotation on a field of the wrong type, written with the value that is the default of the
          \* right type (PRESERVE, RFC3339, BASE64): still the annotation, still the wrong type
          "R6d", "R9d", "R10d",
          \* nullable on a primitive member of an ordinary oneof (it tracks presence, but is not "proto3 optional")
          "R4o",
          \* the unbound-field rule by verb and by whether the configuration names a path at all
          \* (v = verb only: the RPC stays on its default route), d = DELETE
          "R24v", "R24d", "R24dv"}
MethodRules == {"R21", "R22", "R23", "R24", "R24v", "R24d", "R24dv"}
BaseRule(r) == CASE r \in {"R15o", "R15x", "R15a", "R15p", "R15pa"} -> "R15" [] r \in {"R17o", "R17x", "R17a"} -> "R17" [] r \in {"R19o", "R19x", "R19a"} -> "R19"
                 [] r = "R6d" -> "R6" [] r = "R9d" -> "R9" [] r = "R10d" -> "R10" [] r = "R4o" -> "R4"
                 [] r \in {"R24v", "R24d", "R24dv"} -> "R24" [] OTHER -> r
MessageRules == Rules \ MethodRules

\* the offending message "Bad" (full name given) for a message-level rule
Bad(P, full, r) ==
  LET c  == FN(P, "Child")
      c2 == FN(P, "Child2")
      e  == FN(P, "E")
  IN CASE r = "R1"  -> Msg("Bad", full, <<Ann(F("a", "a", 1, "string", "one"), "unwrap", TRUE)>>)
       [] r = "R2"  -> Msg("Bad", full, <<Ann(F("a", "a", 1, "string", "rep"), "unwrap", TRUE), Ann(F("b", "b", 2, "string", "rep"), "unwrap", TRUE)>>)
       [] r = "R3"  -> Msg("Bad", full, <<Ann(FMap("a", "a", 1, "string", "string", ""), "unwrap", TRUE), F("b", "b", 2, "string", "one")>>)
       [] r = "R4"  -> Msg("Bad", full, <<Ann(F("a", "a", 1, "string", "one"), "nullable", TRUE)>>)
       [] r = "R5"  -> Msg("Bad", full, <<Ann(FRef("a", "a", 1, "message", "opt", c), "nullable", TRUE)>>)
       [] r = "R6"  -> Msg("Bad", full, <<Ann(F("a", "a", 1, "string", "one"), "empty", "NULL")>>)
       [] r = "R7"  -> Msg("Bad", full, <<Ann(FRef("a", "a", 1, "message", "rep", c), "empty", "OMIT")>>)
       [] r = "R8"  -> Msg("Bad", full, <<Ann(FMap("a", "a", 1, "string", "message", c), "empty", "NULL")>>)
       [] r = "R4o" -> MsgO("Bad", full, <<InOneof(Ann(F("a", "a", 1, "string", "one"), "nullable", TRUE), "o"), InOneof(F("b", "b", 2, "int32", "one"), "o")>>,
                             <<Oneof("o", FALSE, "", FALSE)>>)
       [] r = "R6d" -> Msg("Bad", full, <<Ann(F("a", "a", 1, "string", "one"), "empty", "PRESERVE")>>)
       [] r = "R9d" -> Msg("Bad", full, <<Ann(F("a", "a", 1, "string", "one"), "ts", "RFC3339")>>)
       [] r = "R10d" -> Msg("Bad", full, <<Ann(F("a", "a", 1, "string", "one"), "bytes", "BASE64")>>)
       [] r = "R9"  -> Msg("Bad", full, <<Ann(F("a", "a", 1, "string", "one"), "ts", "UNIX_SECONDS")>>)
       [] r = "R10" -> Msg("Bad", full, <<Ann(F("a", "a", 1, "string", "one"), "bytes", "HEX")>>)
       [] r = "R11" -> Msg("Bad", full, <<Ann(FRef("a", "a", 1, "message", "rep", c), "flatten", TRUE)>>)
       [] r = "R12" -> Msg("Bad", full, <<Ann(FMap("a", "a", 1, "string", "message", c), "flatten", TRUE)>>)
       [] r = "R13" -> Msg("Bad", full, <<Ann(F("a", "a", 1, "string", "one"), "flatten", TRUE)>>)
       [] r = "R14" -> MsgO("Bad", full, <<InOneof(Ann(FRef("a", "a", 1, "message", "one", c), "flatten", TRUE), "o"),
                                           InOneof(F("b", "b", 2, "string", "one"), "o")>>, <<Oneof("o", FALSE, "", FALSE)>>)
       [] r = "R15" -> Msg("Bad", full, <<F("x", "x", 1, "string", "one"), Ann(FRef("a", "a", 2, "message", "one", c), "flatten", TRUE)>>)
       [] r = "R16" -> Msg("Bad", full, <<Ann(FRef("a", "a", 1, "message", "one", c), "prefix", "p_")>>)
       [] r = "R17" -> MsgO("Bad", full, <<F("kind", "kind", 1, "string", "one"),
                                           InOneof(FRef("a", "a", 2, "message", "one", c), "o"),
                                           InOneof(FRef("b", "b", 3, "message", "one", c2), "o")>>, <<Oneof("o", TRUE, "kind", FALSE)>>)
       [] r = "R18" -> MsgO("Bad", full, <<InOneof(FRef("a", "a", 1, "message", "one", c), "o"),
                                           InOneof(F("b", "b", 2, "string", "one"), "o")>>, <<Oneof("o", TRUE, "type", TRUE)>>)
       [] r = "R19" -> MsgO("Bad", full, <<F("x", "x", 1, "string", "one"),
                                           InOneof(FRef("a", "a", 2, "message", "one", c), "o")>>, <<Oneof("o", TRUE, "type", TRUE)>>)
       [] r = "R20" -> Msg("Bad", full, <<Ann(FRef("a", "a", 1, "enum", "one", e), "enumEnc", "NUMBER")>>)
       [] r = "R15a" -> Msg("Bad", full, <<Ann(FRef("a", "a", 1, "message", "one", c), "flatten", TRUE), F("x", "x", 2, "string", "one")>>)
       [] r = "R15p" -> Msg("Bad", full, <<F("px", "px", 1, "string", "one"), Ann(Ann(FRef("a", "a", 2, "message", "one", c), "flatten", TRUE), "prefix", "p")>>)
       [] r = "R15pa" -> Msg("Bad", full, <<Ann(Ann(FRef("a", "a", 1, "message", "one", c), "flatten", TRUE), "prefix", "p"), F("px", "px", 2, "string", "one")>>)
       [] r = "R17a" -> MsgO("Bad", full, <<InOneof(FRef("a", "a", 2, "message", "one", c), "o"),
                                            InOneof(FRef("b", "b", 3, "message", "one", c2), "o"),
                                            F("kind", "kind", 4, "string", "one")>>, <<Oneof("o", TRUE, "kind", FALSE)>>)
       [] r = "R19a" -> MsgO("Bad", full, <<InOneof(FRef("a", "a", 2, "message", "one", c), "o"),
                                            F("x", "x", 3, "string", "one")>>, <<Oneof("o", TRUE, "type", TRUE)>>)
       [] r = "R15o" -> Msg("Bad", full, <<F("x", "x", 1, "string", "opt"), Ann(FRef("a", "a", 2, "message", "one", c), "flatten", TRUE)>>)
       [] r = "R15x" -> MsgO("Bad", full, <<InOneof(F("x", "x", 1, "string", "one"), "other"), InOneof(F("w", "w", 3, "int32", "one"), "other"),
                                            Ann(FRef("a", "a", 2, "message", "one", c), "flatten", TRUE)>>, <<Oneof("other", FALSE, "", FALSE)>>)
       [] r = "R17o" -> MsgO("Bad", full, <<F("kind", "kind", 1, "string", "opt"),
                                            InOneof(FRef("a", "a", 2, "message", "one", c), "o"),
                                            InOneof(FRef("b", "b", 3, "message", "one", c2), "o")>>, <<Oneof("o", TRUE, "kind", FALSE)>>)
       [] r = "R17x" -> MsgO("Bad", full, <<InOneof(F("kind", "kind", 1, "string", "one"), "other"), InOneof(F("w", "w", 4, "int32", "one"), "other"),
                                            InOneof(FRef("a", "a", 2, "message", "one", c), "o"),
                                            InOneof(FRef("b", "b", 3, "message", "one", c2), "o")>>,
                                 <<Oneof("other", FALSE, "", FALSE), Oneof("o", TRUE, "kind", FALSE)>>)
       [] r = "R19o" -> MsgO("Bad", full, <<F("x", "x", 1, "string", "opt"),
                                            InOneof(FRef("a", "a", 2, "message", "one", c), "o")>>, <<Oneof("o", TRUE, "type", TRUE)>>)
       [] r = "R19x" -> MsgO("Bad", full, <<InOneof(F("x", "x", 1, "string", "one"), "other"), InOneof(F("w", "w", 3, "int32", "one"), "other"),
                                            InOneof(FRef("a", "a", 2, "message", "one", c), "o")>>,
                                 <<Oneof("other", FALSE, "", FALSE), Oneof("o", TRUE, "type", TRUE)>>)

\* the primary name an error message must mention for each rule
OffenderName(r) == CASE r \in {"R14"} -> "a" [] r \in {"R17", "R18", "R19", "R17o", "R17x", "R19o", "R19x", "R17a", "R19a"} -> "o"
                     [] r = "R21" -> "nope" [] r = "R22" -> "c" [] r = "R23" -> "a" [] r \in {"R24", "R24v", "R24d", "R24dv"} -> "Do" [] OTHER -> "a"

Placements == {"top", "nested", "nested_in_annotated", "otherfile", "imported"}
\* with_valid: an unrelated valid annotation next to the offender; peer_msg: an earlier message that
\* uses the offender's field type (same kind, same referenced enum / message) without the annotation;
\* peer_field: the same as an earlier field of the offending message itself (for the nested placement:
\* of the enclosing message).  A validation that looks at a type or an annotation "once" is wrong there.
Surrounds  == {"plain", "with_valid", "peer_msg", "peer_field"}
PeerField(bad) == LET a == CHOOSE f \in Range(bad.fields) : f.name = "a"
                  IN [a EXCEPT !.name = "v0", !.json = "v0", !.num = 90, !.ann = NoAnn, !.oneof = ""]
WithPeerField(bad) == [bad EXCEPT !.fields = <<PeerField(bad)>> \o bad.fields]

\* message-level rule r at a placement
C12MessageCase(P, r, pl, sur) ==
  LET common == <<Child(P), Child2(P)>>
      bad0   == Bad(P, FN(P, "Bad"), r)
      extra  == CASE sur = "with_valid" -> <<Good(P)>>
                  [] sur = "peer_msg" -> <<Msg("Peer", FN(P, "Peer"), <<PeerField(bad0)>>)>>
                  [] OTHER -> <<>>
      svcFile(msgs, deps) == File(P \o "/svc.proto", Pkg(P), GoPkg(P), TRUE, deps,
                                  <<Svc(P, <<PostIn(P, FN(P, "In"))>>)>>, <<In(P), Out(P)>> \o msgs, <<EnumE>>)
      pf(b)  == IF sur = "peer_field" THEN WithPeerField(b) ELSE b
  IN CASE pl = "top"    -> Schema(<<svcFile(common \o extra \o <<pf(bad0)>>, <<>>)>>)
       [] pl = "nested" -> Schema(<<svcFile(common \o extra \o
                                     <<MsgN("Outer", FN(P, "Outer"),
                                            <<F("k", "k", 1, "string", "one")>> \o (IF sur = "peer_field" THEN <<PeerField(bad0)>> ELSE <<>>),
                                            <<Bad(P, FN(P, "Outer") \o ".Bad", r)>>)>>, <<>>)>>)
       \* the enclosing message carries valid annotations of its own (an unwrap list, a nullable field): a walk that
       \* stops at the first message it has something to do for never sees the declarations inside it
       [] pl = "nested_in_annotated" ->
            Schema(<<svcFile(common \o extra \o
                             <<MsgN("Outer", FN(P, "Outer"),
                                    <<Ann(F("vals", "vals", 1, "string", "rep"), "unwrap", TRUE), Ann(F("s0", "s0", 2, "string", "opt"), "nullable", TRUE)>>
                                    \o (IF sur = "peer_field" THEN <<PeerField(bad0)>> ELSE <<>>),
                                    <<Bad(P, FN(P, "Outer") \o ".Bad", r)>>)>>, <<>>)>>)
       [] pl = "otherfile" ->
            Schema(<<File(P \o "/types.proto", Pkg(P), GoPkg(P), TRUE, <<>>, <<>>, common \o (IF sur = "peer_msg" THEN extra ELSE <<>>) \o <<pf(bad0)>>, <<EnumE>>),
                     File(P \o "/svc.proto", Pkg(P), GoPkg(P), TRUE, <<P \o "/types.proto">>,
                          <<Svc(P, <<PostIn(P, FN(P, "In"))>>)>>, <<In(P), Out(P)>> \o (IF sur = "with_valid" THEN extra ELSE <<>>), <<>>)>>)
       [] pl = "imported" ->
            Schema(<<File(P \o "/types.proto", Pkg(P), GoPkg(P), FALSE, <<>>, <<>>, common \o <<Bad(P, FN(P, "Bad"), r)>>, <<EnumE>>),
                     File(P \o "/svc.proto", Pkg(P), GoPkg(P), TRUE, <<P \o "/types.proto">>,
                          <<Svc(P, <<PostIn(P, FN(P, "In"))>>)>>, <<In(P), Out(P)>> \o (IF sur = "with_valid" THEN extra ELSE <<>>), <<>>)>>)

\* HTTP-configuration rules: the offending method next to a valid one
C12MethodCase(P, r, sur) ==
  LET inMsg == CASE r = "R21" -> Msg("In2", FN(P, "In2"), <<F("a", "a", 1, "string", "one")>>)
                 [] r = "R22" -> Msg("In2", FN(P, "In2"), <<FRef("c", "c", 1, "message", "one", FN(P, "Child"))>>)
                 [] r = "R23" -> Msg("In2", FN(P, "In2"), <<Ann(F("a", "a", 1, "string", "one"), "query", TRUE)>>)
                 [] r \in {"R24", "R24d"} -> Msg("In2", FN(P, "In2"), <<F("a", "a", 1, "string", "one"), F("b", "b", 2, "string", "one")>>)
                 [] r \in {"R24v", "R24dv"} -> Msg("In2", FN(P, "In2"), <<Ann(F("a", "a", 1, "string", "one"), "query", TRUE), F("b", "b", 2, "string", "one")>>)
      bad   == CASE r = "R21" -> Method("Do2", FN(P, "In2"), FN(P, "Out"), TRUE, Parts(TRUE, <<Lit("x"), Var("nope")>>, FALSE), "POST")
                 [] r = "R22" -> Method("Do2", FN(P, "In2"), FN(P, "Out"), TRUE, Parts(TRUE, <<Lit("x"), Var("c")>>, FALSE), "POST")
                 [] r = "R23" -> Method("Do2", FN(P, "In2"), FN(P, "Out"), TRUE, Parts(TRUE, <<Lit("x"), Var("a")>>, FALSE), "GET")
                 [] r = "R24" -> Method("Do", FN(P, "In2"), FN(P, "Out"), TRUE, Parts(TRUE, <<Lit("x"), Var("a")>>, FALSE), "GET")
                 [] r = "R24d" -> Method("Do", FN(P, "In2"), FN(P, "Out"), TRUE, Parts(TRUE, <<Lit("x"), Var("a")>>, FALSE), "DELETE")
                 [] r = "R24v" -> Method("Do", FN(P, "In2"), FN(P, "Out"), TRUE, NoParts, "GET")
                 [] r = "R24dv" -> Method("Do", FN(P, "In2"), FN(P, "Out"), TRUE, NoParts, "DELETE")
      ms    == IF BaseRule(r) = "R24" THEN <<bad>> ELSE <<PostIn(P, FN(P, "In")), bad>>
      extra == IF sur = "with_valid" THEN <<Good(P)>> ELSE <<>>
  IN Schema(<<File(P \o "/svc.proto", Pkg(P), GoPkg(P), TRUE, <<>>, <<Svc(P, ms)>>,
                   <<In(P), Out(P), Child(P), inMsg>> \o extra, <<>>)>>)

(***************************************************************************)
(* The valid twins: every annotation used as documented (for "a definition *)
(* that breaks none of the rules is accepted by all five plugins").        *)
(***************************************************************************)
Twins == {"T_unwrap_list", "T_unwrap_map", "T_unwrap_mapvalue", "T_nullable", "T_empty", "T_ts", "T_bytes", "T_flatten",
          "T_flatten_prefix", "T_flatten_nested_twice", "T_oneof", "T_oneof_flat", "T_enum_custom", "T_enum_number", "T_int64", "T_get_query", "T_plain",
          \* one value of an annotation alone in its file (what a codec file imports / declares depends on which values occur)
          "T_bytes_hex", "T_bytes_b64url", "T_ts_date", "T_empty_omit", "T_empty_null",
          \* a flattened discriminated oneof whose discriminator values are not the member names
          "T_oneof_flat_custom"}
TwinMsgs(P, t) ==
  LET c == FN(P, "Child") c2 == FN(P, "Child2") IN
  CASE t = "T_unwrap_list" -> <<Msg("W", FN(P, "W"), <<Ann(F("items", "items", 1, "string", "rep"), "unwrap", TRUE)>>)>>
    [] t = "T_unwrap_map"  -> <<Msg("W", FN(P, "W"), <<Ann(FMap("m", "m", 1, "string", "message", c), "unwrap", TRUE)>>)>>
    [] t = "T_unwrap_mapvalue" -> <<Msg("L", FN(P, "L"), <<Ann(FRef("items", "items", 1, "message", "rep", c), "unwrap", TRUE)>>),
                                    Msg("W", FN(P, "W"), <<FMap("by_key", "byKey", 1, "string", "message", FN(P, "L"))>>)>>
    [] t = "T_nullable"    -> <<Msg("W", FN(P, "W"), <<Ann(F("s", "s", 1, "string", "opt"), "nullable", TRUE), Ann(F("n", "n", 2, "int32", "opt"), "nullable", TRUE)>>)>>
    [] t = "T_empty"       -> <<Msg("W", FN(P, "W"), <<Ann(FRef("a", "a", 1, "message", "one", c), "empty", "NULL"),
                                                      Ann(FRef("b", "b", 2, "message", "one", c), "empty", "OMIT"),
                                                      Ann(FRef("d", "d", 3, "message", "one", c), "empty", "PRESERVE")>>)>>
    [] t = "T_bytes_hex"   -> <<Msg("W", FN(P, "W"), <<Ann(F("a", "a", 1, "bytes", "one"), "bytes", "HEX"), Ann(F("bs", "bs", 2, "bytes", "rep"), "bytes", "HEX")>>)>>
    [] t = "T_bytes_b64url" -> <<Msg("W", FN(P, "W"), <<Ann(F("a", "a", 1, "bytes", "one"), "bytes", "BASE64URL")>>)>>
    [] t = "T_ts_date"     -> <<Msg("W", FN(P, "W"), <<Ann(FRef("a", "a", 1, "message", "one", "google.protobuf.Timestamp"), "ts", "DATE")>>)>>
    [] t = "T_empty_omit"  -> <<Msg("W", FN(P, "W"), <<Ann(FRef("a", "a", 1, "message", "one", c), "empty", "OMIT"), F("s", "s", 2, "string", "one")>>)>>
    [] t = "T_empty_null"  -> <<Msg("W", FN(P, "W"), <<Ann(FRef("a", "a", 1, "message", "one", c), "empty", "NULL"), F("s", "s", 2, "string", "one")>>)>>
    [] t = "T_ts"          -> <<Msg("W", FN(P, "W"), <<Ann(FRef("a", "a", 1, "message", "one", "google.protobuf.Timestamp"), "ts", "UNIX_SECONDS"),
                                                      Ann(FRef("b", "b", 2, "message", "one", "google.protobuf.Timestamp"), "ts", "DATE")>>)>>
    [] t = "T_bytes"       -> <<Msg("W", FN(P, "W"), <<Ann(F("a", "a", 1, "bytes", "one"), "bytes", "HEX"), Ann(F("b", "b", 2, "bytes", "one"), "bytes", "BASE64URL_RAW")>>)>>
    [] t = "T_flatten"     -> <<Msg("W", FN(P, "W"), <<F("k", "k", 1, "string", "one"), Ann(FRef("a", "a", 2, "message", "one", c), "flatten", TRUE)>>)>>
    [] t = "T_flatten_prefix" -> <<Msg("W", FN(P, "W"), <<F("x", "x", 1, "string", "one"),
                                     Ann(Ann(FRef("a", "a", 2, "message", "one", c), "flatten", TRUE), "prefix", "a_")>>)>>
    \* a flattened child that itself flattens the same message type twice (billing / shipping address)
    [] t = "T_flatten_nested_twice" ->
         <<Msg("Parties", FN(P, "Parties"), <<F("ref", "ref", 1, "string", "one"),
                                             Ann(Ann(FRef("billing", "billing", 2, "message", "one", c), "flatten", TRUE), "prefix", "billing_"),
                                             Ann(Ann(FRef("shipping", "shipping", 3, "message", "one", c), "flatten", TRUE), "prefix", "shipping_")>>),
           Msg("W", FN(P, "W"), <<F("k", "k", 1, "string", "one"), Ann(FRef("a", "a", 2, "message", "one", FN(P, "Parties")), "flatten", TRUE)>>)>>
    [] t = "T_oneof"       -> <<MsgO("W", FN(P, "W"), <<F("k", "k", 1, "string", "one"), InOneof(FRef("a", "a", 2, "message", "one", c), "o"),
                                     InOneof(Ann(FRef("b", "b", 3, "message", "one", c2), "oneofValue", "bee"), "o")>>, <<Oneof("o", TRUE, "type", FALSE)>>)>>
    [] t = "T_oneof_flat"  -> <<MsgO("W", FN(P, "W"), <<F("k", "k", 1, "string", "one"), InOneof(FRef("a", "a", 2, "message", "one", c), "o"),
                                     InOneof(FRef("b", "b", 3, "message", "one", c2), "o")>>, <<Oneof("o", TRUE, "type", TRUE)>>)>>
    [] t = "T_oneof_flat_custom" -> <<MsgO("W", FN(P, "W"), <<F("k", "k", 1, "string", "one"), InOneof(Ann(FRef("a", "a", 2, "message", "one", c), "oneofValue", "alpha"), "o"),
                                     InOneof(Ann(FRef("b", "b", 3, "message", "one", c2), "oneofValue", "bee"), "o")>>, <<Oneof("o", TRUE, "type", TRUE)>>)>>
    [] t = "T_enum_custom" -> <<Msg("W", FN(P, "W"), <<FRef("e", "e", 1, "enum", "one", FN(P, "E"))>>)>>
    [] t = "T_enum_number" -> <<Msg("W", FN(P, "W"), <<Ann(FRef("e", "e", 1, "enum", "one", FN(P, "P")), "enumEnc", "NUMBER")>>)>>
    [] t = "T_int64"       -> <<Msg("W", FN(P, "W"), <<Ann(F("n", "n", 1, "int64", "one"), "int64", "NUMBER"), Ann(F("u", "u", 2, "uint64", "one"), "int64", "STRING")>>)>>
    [] t = "T_get_query"   -> <<Msg("W", FN(P, "W"), <<F("k", "k", 1, "string", "one")>>)>>
    [] t = "T_plain"       -> <<Msg("W", FN(P, "W"), <<F("k", "k", 1, "string", "one")>>)>>

\* W is used as request and response of a POST; T_get_query adds a GET with path + query binding
TwinCase(P, t) ==
  LET q == Msg("Q", FN(P, "Q"), <<F("id", "id", 1, "string", "one"), Ann(F("page", "page", 2, "int32", "one"), "query", TRUE),
                                   [Ann(F("tag", "tag", 3, "string", "rep"), "query", TRUE) EXCEPT !.ann.queryName = "t"]>>)
      ms == <<Method("Do", FN(P, "W"), FN(P, "W"), TRUE, Parts(TRUE, <<Lit("do")>>, FALSE), "POST")>>
            \o (IF t = "T_get_query"
                THEN <<Method("Get", FN(P, "Q"), FN(P, "Out"), TRUE, Parts(TRUE, <<Lit("q"), Var("id")>>, FALSE), "GET")>> ELSE <<>>)
  IN Schema(<<File(P \o "/svc.proto", Pkg(P), GoPkg(P), TRUE, <<>>, <<Svc(P, ms)>>,
                   <<Out(P), Child(P), Child2(P), q>> \o TwinMsgs(P, t), <<EnumE, EnumPlain>>)>>)

(***************************************************************************)
(* C14: every codec feature in three file layouts.                         *)
(***************************************************************************)
Layouts == {"svc", "nosvc", "crossfile", "nested", "enumfile"}
CodecFeatures == Twins \ {"T_get_query", "T_plain"}
C14Case(P, t, lay) ==
  LET types == <<Child(P), Child2(P)>> \o TwinMsgs(P, t)
      doW   == Method("Do", FN(P, "W"), FN(P, "W"), TRUE, Parts(TRUE, <<Lit("do")>>, FALSE), "POST")
      doIn  == PostIn(P, FN(P, "In"))
  IN CASE lay = "svc" -> TwinCase(P, t)
       [] lay = "nosvc" ->
            Schema(<<File(P \o "/types.proto", Pkg(P), GoPkg(P), TRUE, <<>>, <<>>, types, <<EnumE, EnumPlain>>),
                     File(P \o "/svc.proto", Pkg(P), GoPkg(P), TRUE, <<>>, <<Svc(P, <<doIn>>)>>, <<In(P), Out(P)>>, <<>>)>>)
       [] lay = "crossfile" ->
            Schema(<<File(P \o "/types.proto", Pkg(P), GoPkg(P), TRUE, <<>>, <<>>, types, <<EnumE, EnumPlain>>),
                     File(P \o "/svc.proto", Pkg(P), GoPkg(P), TRUE, <<P \o "/types.proto">>, <<Svc(P, <<doW>>)>>, <<Out(P)>>, <<>>)>>)
       \* the usual enums.proto layout: a file that declares nothing but the enums, the messages that use
       \* them in a sibling file of the same package
       [] lay = "enumfile" ->
            Schema(<<File(P \o "/enums.proto", Pkg(P), GoPkg(P), TRUE, <<>>, <<>>, <<>>, <<EnumE, EnumPlain>>),
                     File(P \o "/types.proto", Pkg(P), GoPkg(P), TRUE, <<P \o "/enums.proto">>, <<>>, types, <<>>),
                     File(P \o "/svc.proto", Pkg(P), GoPkg(P), TRUE, <<P \o "/types.proto">>, <<Svc(P, <<doW>>)>>, <<Out(P)>>, <<>>)>>)
       \* the annotated message W nested inside an enclosing message that carries no annotation itself
       [] lay = "nested" ->
            LET tm == TwinMsgs(P, t)
                inner == SelectSeq(tm, LAMBDA m : m.name = "W")
                rest  == SelectSeq(tm, LAMBDA m : m.name # "W")
                outer == MsgN("Outer", FN(P, "Outer"), <<F("label", "label", 1, "string", "one")>>,
                              [i \in DOMAIN inner |-> [inner[i] EXCEPT !.full = FN(P, "Outer") \o ".W"]])
            IN Schema(<<File(P \o "/svc.proto", Pkg(P), GoPkg(P), TRUE, <<>>, <<Svc(P, <<doIn>>)>>,
                             <<In(P), Out(P), Child(P), Child2(P)>> \o rest \o <<outer>>, <<EnumE, EnumPlain>>)>>)

(***************************************************************************)
(* C15: multi-file base schemas whose output must not depend on request    *)
(* variants.  Two type files carry unwrap messages and enums, the service  *)
(* file has two services with three headers each.                          *)
(***************************************************************************)
H3 == <<Header("X-Zeta", "string", "", TRUE), Header("X-Alpha", "string", "uuid", TRUE), Header("X-Mid", "integer", "", FALSE)>>
WithHeaders(sv, hs) == [sv EXCEPT !.headers = hs]
MethodHeaders(me, hs) == [me EXCEPT !.headers = hs]
C15Case(P, t) ==
  LET la == Msg("ListA", FN(P, "ListA"), <<Ann(FRef("items", "items", 1, "message", "rep", FN(P, "Child")), "unwrap", TRUE)>>)
      lb == Msg("ListB", FN(P, "ListB"), <<Ann(F("vals", "vals", 1, "string", "rep"), "unwrap", TRUE)>>)
      ma == Msg("MapA", FN(P, "MapA"), <<FMap("by_a", "byA", 1, "string", "message", FN(P, "ListA")), FMap("by_b", "byB", 2, "string", "message", FN(P, "ListB"))>>)
      mb == Msg("MapB", FN(P, "MapB"), <<FMap("by_a", "byA", 1, "string", "message", FN(P, "ListA"))>>)
      \* root-unwrapped maps whose value messages (with their own unwrap field) live in other files
      ra == Msg("RootA", FN(P, "RootA"), <<Ann(FMap("m", "m", 1, "string", "message", FN(P, "ListA")), "unwrap", TRUE)>>)
      rb == Msg("RootB", FN(P, "RootB"), <<Ann(FMap("m", "m", 1, "string", "message", FN(P, "ListB")), "unwrap", TRUE)>>)
      hv  == <<Header("x-zeta", "string", "", TRUE), Header("X-ALPHA", "string", "", TRUE), Header("X-Mid", "string", "", TRUE),
               Header("X-New", "string", "", FALSE), Header("x-new", "integer", "", FALSE)>>
      doA == MethodHeaders(Method("DoA", FN(P, "MapA"), FN(P, "MapB"), TRUE, Parts(TRUE, <<Lit("a")>>, FALSE), "POST"), hv)
      doW == Method("DoW", FN(P, "W"), FN(P, "W"), TRUE, Parts(TRUE, <<Lit("w")>>, FALSE), "POST")
      s1 == WithHeaders(Service("SvcOne", TRUE, Parts(TRUE, <<Lit("one")>>, FALSE), <<doA, doW>>), H3)
      s2 == WithHeaders(Service("SvcTwo", FALSE, NoParts, <<Method("Other", FN(P, "MapB"), FN(P, "Out"), TRUE, Parts(TRUE, <<Lit("o")>>, FALSE), "POST"),
                                                           Method("Roots", FN(P, "RootA"), FN(P, "RootB"), TRUE, Parts(TRUE, <<Lit("r")>>, FALSE), "POST"),
                                                           Method("Bill", FN(P, "Order"), FN(P, "Invoice"), TRUE, Parts(TRUE, <<Lit("bill")>>, FALSE), "POST"),
                                                           Method("Pick", FN(P, "Out"), FN(P, "PickA"), TRUE, Parts(TRUE, <<Lit("pick")>>, FALSE), "POST")>>), H3)
      \* messages following the custom-error naming convention (...Error) that live in the type files and
      \* that no RPC reaches: what a service's module declares must not depend on which sibling files of
      \* the package happen to be generated in the same run
      ea == Msg("QuotaExceededError", FN(P, "QuotaExceededError"), <<F("limit", "limit", 1, "int64", "one"), FRef("kind", "kind", 2, "enum", "one", FN(P, "E"))>>)
      eb == Msg("RateLimitError", FN(P, "RateLimitError"), <<F("retry_after", "retryAfter", 1, "int32", "one")>>)
      es == Msg("SvcLocalError", FN(P, "SvcLocalError"), <<F("why", "why", 1, "string", "one")>>)
      \* responses with a real oneof that has a message member, in TWO files that declare services (what the
      \* optional mock server fills in for them must not depend on what else the run generates)
      pick(n) == MsgO(n, FN(P, n), <<InOneof(FRef("a", "a", 1, "message", "one", FN(P, "Child")), "o"), InOneof(F("s", "s", 2, "string", "one"), "o")>>,
                      <<Oneof("o", FALSE, "", FALSE)>>)
      s3 == Service("SvcThree", TRUE, Parts(TRUE, <<Lit("three")>>, FALSE),
                    <<Method("Pick", FN(P, "Out"), FN(P, "PickB"), TRUE, Parts(TRUE, <<Lit("p")>>, FALSE), "POST")>>)
      \* two enums that share their short name (nested declarations of two messages): full names order them
      ord == [Msg("Order", FN(P, "Order"), <<FRef("status", "status", 1, "enum", "one", FN(P, "Order") \o ".Status")>>)
              EXCEPT !.enums = <<Enum("Status", <<EnumV("STATUS_UNSPECIFIED", 0, ""), EnumV("STATUS_OPEN", 1, "")>>)>>]
      inv == [Msg("Invoice", FN(P, "Invoice"), <<FRef("status", "status", 1, "enum", "one", FN(P, "Invoice") \o ".Status")>>)
              EXCEPT !.enums = <<Enum("Status", <<EnumV("STATUS_UNSPECIFIED", 0, ""), EnumV("STATUS_PAID", 1, "")>>)>>]
  IN Schema(<<File(P \o "/types_a.proto", Pkg(P), GoPkg(P), TRUE, <<>>, <<>>, <<Child(P), Child2(P), la, ea>>, <<EnumE>>),
              File(P \o "/types_b.proto", Pkg(P), GoPkg(P), TRUE, <<P \o "/types_a.proto">>, <<>>, <<lb, ma, eb>> \o TwinMsgs(P, t), <<EnumPlain>>),
              File(P \o "/svc.proto", Pkg(P), GoPkg(P), TRUE, <<P \o "/types_a.proto", P \o "/types_b.proto">>,
                   <<s1, s2>>, <<Out(P), mb, ra, rb, es, ord, inv, pick("PickA")>>, <<>>),
              File(P \o "/svc_more.proto", Pkg(P), GoPkg(P), TRUE, <<P \o "/types_a.proto", P \o "/svc.proto">>, <<s3>>, <<pick("PickB")>>, <<>>),
              \* two files of the same package that nothing imports: visible to a plugin only when they are
              \* generated in the same run
              File(P \o "/errors.proto", Pkg(P), GoPkg(P), TRUE, <<>>, <<>>,
                   <<Msg("StandaloneError", FN(P, "StandaloneError"), <<F("code", "code", 1, "int32", "one")>>)>>, <<>>),
              File(P \o "/errors_more.proto", Pkg(P), GoPkg(P), TRUE, <<>>, <<>>,
                   <<Msg("AnotherError", FN(P, "AnotherError"), <<F("detail", "detail", 1, "string", "one")>>)>>, <<>>)>>)
Variants == {"base", "repeat", "permuted", "single", "extra_unrelated", "procs1"}

(***************************************************************************)
(* C16: descriptor graph shapes.                                           *)
(***************************************************************************)
Shapes == {"self_rec", "mutual_rec", "rec_via_map", "rec_via_oneof", "rec_via_repeated", "nested_types", "empty_msg",
           "svc_no_methods", "no_package", "no_go_package", "shared_req", "wkt", "optional", "deep", "long_names", "rec_response",
           \* cycles that run through annotated constructs (the traversals of the codec generators)
           "rec_flat_oneof", "rec_disc_oneof", "rec_under_flatten", "rec_unwrap", "rec_flatten_self",
           \* acyclic graphs with many PATHS to one message (a traversal that forgets what it has finished
           \* visits a message once per path: 2^26, 3^16, 11! visits)
           "diamond_layers", "map_chain", "clique",
           \* path templates with braces in unusual places (a stray closing brace in a literal segment, a
           \* router-style constrained variable, an unclosed variable, an empty variable): the answer may be
           \* files or an error message, never a crash
           "path_braces",
           \* services that share their simple name across the packages of one run (v1 / v2 / v3 of an API generated
           \* together; four of them): documents, modules and helper names derive from the simple name
           "same_named_services",
           \* path variables bound to fields whose (valid) names do not split into plain words: a trailing
           \* underscore, two underscores in a row, an underscore before a digit, a leading underscore
           "odd_var_names"}
RECURSIVE DeepMsgs(_, _, _)
DeepMsgs(P, i, n) ==
  IF i > n THEN <<>>
  ELSE <<Msg("D" \o ToString(i), FN(P, "D" \o ToString(i)),
             IF i = n THEN <<F("leaf", "leaf", 1, "string", "one")>>
             ELSE <<FRef("next", "next", 1, "message", "one", FN(P, "D" \o ToString(i + 1)))>>)>> \o DeepMsgs(P, i + 1, n)
\* L1 .. Ln: every layer refers to the next one through two fields (diamond) or through a map, a list and a field (map_chain)
LayerMsgs(P, n, kind) ==
  [i \in 1..n |->
     LET nm == "L" \o ToString(i) nx == FN(P, "L" \o ToString(i + 1)) IN
     Msg(nm, FN(P, nm),
         IF i = n THEN <<F("leaf", "leaf", 1, "string", "one")>>
         ELSE IF kind = "diamond" THEN <<FRef("a", "a", 1, "message", "one", nx), FRef("b", "b", 2, "message", "one", nx)>>
         ELSE <<FMap("m", "m", 1, "string", "message", nx), FRef("r", "r", 2, "message", "rep", nx), FRef("o", "o", 3, "message", "one", nx)>>)]
\* K1 .. Kn: every message refers to every other one
CliqueMsgs(P, n) ==
  [i \in 1..n |->
     LET nm == "K" \o ToString(i)
         others == SetToSeq((1..n) \ {i})
     IN Msg(nm, FN(P, nm), [j \in DOMAIN others |-> FRef("k" \o ToString(others[j]), "k" \o ToString(others[j]), j, "message", "one", FN(P, "K" \o ToString(others[j])))])]
C16Case(P, sh, depth) ==
  LET w(fields) == Msg("W", FN(P, "W"), fields)
      std(msgs) == Schema(<<File(P \o "/svc.proto", Pkg(P), GoPkg(P), TRUE, <<>>,
                                 <<Svc(P, <<Method("Do", FN(P, "W"), FN(P, "W"), TRUE, Parts(TRUE, <<Lit("do")>>, FALSE), "POST")>>)>>,
                                 msgs, <<EnumE>>)>>)
  IN CASE sh = "self_rec" -> std(<<w(<<F("k", "k", 1, "string", "one"), FRef("me", "me", 2, "message", "one", FN(P, "W"))>>)>>)
       [] sh = "mutual_rec" -> std(<<w(<<FRef("a", "a", 1, "message", "one", FN(P, "A"))>>),
                                    Msg("A", FN(P, "A"), <<FRef("w", "w", 1, "message", "one", FN(P, "W")), F("s", "s", 2, "string", "one")>>)>>)
       [] sh = "rec_via_map" -> std(<<w(<<FMap("kids", "kids", 1, "string", "message", FN(P, "W")), F("s", "s", 2, "int32", "one")>>)>>)
       [] sh = "rec_via_oneof" -> std(<<MsgO("W", FN(P, "W"), <<InOneof(FRef("a", "a", 1, "message", "one", FN(P, "W")), "o"),
                                                               InOneof(F("b", "b", 2, "string", "one"), "o")>>, <<Oneof("o", FALSE, "", FALSE)>>)>>)
       [] sh = "rec_flat_oneof" ->    \* a flattened field whose message has a flattened discriminated oneof leading back to itself
            std(<<w(<<F("id", "id", 1, "string", "one"), Ann(FRef("filter", "filter", 2, "message", "one", FN(P, "Filter")), "flatten", TRUE)>>),
                  MsgO("Filter", FN(P, "Filter"), <<InOneof(FRef("not", "not", 1, "message", "one", FN(P, "Filter")), "kind"),
                                                   InOneof(FRef("term", "term", 2, "message", "one", FN(P, "Term")), "kind")>>, <<Oneof("kind", TRUE, "op", TRUE)>>),
                  Msg("Term", FN(P, "Term"), <<F("field", "field", 1, "string", "one"), F("value", "value", 2, "string", "one")>>)>>)
       [] sh = "rec_disc_oneof" ->    \* a discriminated (nested) oneof with a variant of the message's own type
            std(<<MsgO("W", FN(P, "W"), <<F("k", "k", 1, "string", "one"), InOneof(FRef("a", "a", 2, "message", "one", FN(P, "W")), "o"),
                                         InOneof(FRef("b", "b", 3, "message", "one", FN(P, "Child")), "o")>>, <<Oneof("o", TRUE, "kind", FALSE)>>), Child(P)>>)
       [] sh = "rec_under_flatten" -> \* a flattened child that refers back to its parent through an ordinary field
            std(<<w(<<F("k", "k", 1, "string", "one"), Ann(FRef("c", "c", 2, "message", "one", FN(P, "C")), "flatten", TRUE)>>),
                  Msg("C", FN(P, "C"), <<F("x", "x", 1, "string", "one"), FRef("back", "back", 2, "message", "one", FN(P, "W"))>>)>>)
       [] sh = "rec_unwrap" ->        \* a map whose unwrapped value list holds the containing message again
            std(<<w(<<F("k", "k", 1, "string", "one"), FMap("by", "by", 2, "string", "message", FN(P, "L"))>>),
                  Msg("L", FN(P, "L"), <<Ann(FRef("items", "items", 1, "message", "rep", FN(P, "W")), "unwrap", TRUE)>>)>>)
       [] sh = "rec_flatten_self" ->  \* a message that flattens a field of its own type (no finite JSON form: answer, do not hang)
            std(<<w(<<F("k", "k", 1, "string", "one"), Ann(Ann(FRef("me", "me", 2, "message", "one", FN(P, "W")), "flatten", TRUE), "prefix", "me_")>>)>>)
       [] sh = "rec_via_repeated" -> std(<<w(<<FRef("kids", "kids", 1, "message", "rep", FN(P, "W")), F("n", "n", 2, "float", "one")>>)>>)
       [] sh = "rec_response" -> std(<<w(<<F("k", "k", 1, "int32", "one"), FRef("child", "child", 2, "message", "opt", FN(P, "W")),
                                        FRef("ts", "ts", 3, "message", "one", "google.protobuf.Timestamp")>>)>>)
       [] sh = "nested_types" -> std(<<[MsgN("W", FN(P, "W"), <<FRef("i", "i", 1, "message", "one", FN(P, "W") \o ".Inner"),
                                                               FRef("e", "e", 2, "enum", "one", FN(P, "W") \o ".Kind")>>,
                                            <<MsgN("Inner", FN(P, "W") \o ".Inner", <<FRef("d", "d", 1, "message", "one", FN(P, "W") \o ".Inner.Deeper")>>,
                                                   <<Msg("Deeper", FN(P, "W") \o ".Inner.Deeper", <<F("z", "z", 1, "bool", "one")>>)>>)>>)
                                       EXCEPT !.enums = <<Enum("Kind", <<EnumV("KIND_UNSPECIFIED", 0, ""), EnumV("KIND_A", 1, "")>>)>>]>>)
       [] sh = "empty_msg" -> std(<<w(<<>>)>>)
       [] sh = "svc_no_methods" ->
            Schema(<<File(P \o "/svc.proto", Pkg(P), GoPkg(P), TRUE, <<>>, <<Service("Svc", FALSE, NoParts, <<>>)>>, <<w(<<F("k", "k", 1, "string", "one")>>)>>, <<>>)>>)
       [] sh = "no_package" ->
            Schema(<<File(P \o "/svc.proto", "", GoPkg(P), TRUE, <<>>,
                          <<Svc(P, <<Method("Do", "W" \o P, "W" \o P, TRUE, Parts(TRUE, <<Lit("do")>>, FALSE), "POST")>>)>>,
                          <<Msg("W" \o P, "W" \o P, <<F("k", "k", 1, "string", "one")>>)>>, <<>>)>>)
       [] sh = "no_go_package" ->
            Schema(<<File(P \o "/svc.proto", Pkg(P), "", TRUE, <<>>,
                          <<Svc(P, <<Method("Do", FN(P, "W"), FN(P, "W"), TRUE, Parts(TRUE, <<Lit("do")>>, FALSE), "POST")>>)>>,
                          <<w(<<F("k", "k", 1, "string", "one")>>)>>, <<>>)>>)
       [] sh = "shared_req" ->
            Schema(<<File(P \o "/svc.proto", Pkg(P), GoPkg(P), TRUE, <<>>,
                          <<Svc(P, <<Method("DoA", FN(P, "W"), FN(P, "W"), TRUE, Parts(TRUE, <<Lit("a")>>, FALSE), "POST"),
                                     Method("DoB", FN(P, "W"), FN(P, "W"), TRUE, Parts(TRUE, <<Lit("b")>>, FALSE), "PUT")>>),
                            Service("Svc2", FALSE, NoParts, <<Method("DoC", FN(P, "W"), FN(P, "W"), FALSE, NoParts, "")>>)>>,
                          <<w(<<F("k", "k", 1, "string", "one")>>)>>, <<>>)>>)
       [] sh = "wkt" -> std(<<w(<<FRef("t", "t", 1, "message", "one", "google.protobuf.Timestamp"), FRef("d", "d", 2, "message", "one", "google.protobuf.Duration"),
                                   FRef("s", "s", 3, "message", "one", "google.protobuf.Struct"), FRef("v", "v", 4, "message", "one", "google.protobuf.StringValue"),
                                   FRef("a", "a", 5, "message", "one", "google.protobuf.Any"), FRef("e", "e", 6, "message", "one", "google.protobuf.Empty")>>)>>)
       [] sh = "optional" -> std(<<w(<<F("a", "a", 1, "string", "opt"), F("b", "b", 2, "int64", "opt"), FRef("c", "c", 3, "message", "opt", FN(P, "W")),
                                        FRef("e", "e", 4, "enum", "opt", FN(P, "E")), F("f", "f", 5, "bytes", "opt")>>)>>)
       [] sh = "deep" -> std(<<w(<<FRef("d", "d", 1, "message", "one", FN(P, "D1"))>>)>> \o DeepMsgs(P, 1, depth))
       [] sh = "path_braces" ->
            LET q == Msg("Q", FN(P, "Q"), <<F("post_id", "postId", 1, "string", "one"), F("part_id", "partId", 2, "string", "one"), F("sku", "sku", 3, "string", "one")>>)
                m(n, segs) == Method(n, FN(P, "Q"), FN(P, "W"), TRUE, Parts(TRUE, segs, FALSE), "POST")
            IN Schema(<<File(P \o "/svc.proto", Pkg(P), GoPkg(P), TRUE, <<>>,
                             <<Svc(P, <<m("A", <<Lit("users"), Lit("user_id}"), Lit("posts"), Var("post_id")>>),
                                        m("B", <<Lit("items"), Lit("{sku:[A-Z]{2}}"), Lit("parts"), Var("part_id")>>),
                                        m("C", <<Lit("open"), Lit("{post_id")>>),
                                        m("D", <<Lit("empty"), Lit("{}"), Var("part_id")>>),
                                        m("E", <<Lit("}{"), Var("sku"), Lit("}}")>>)>>)>>,
                             <<w(<<F("k", "k", 1, "string", "one")>>), q>>, <<EnumE>>)>>)
       [] sh = "odd_var_names" ->
            LET q == Msg("Q", FN(P, "Q"), <<F("item_id_", "itemId", 1, "string", "one"), F("part__id", "partId", 2, "string", "one"),
                                           F("line_2", "line2", 3, "string", "one"), F("_lead", "Lead", 4, "string", "one")>>)
                m(n, segs) == Method(n, FN(P, "Q"), FN(P, "W"), TRUE, Parts(TRUE, segs, FALSE), "POST")
            IN Schema(<<File(P \o "/svc.proto", Pkg(P), GoPkg(P), TRUE, <<>>,
                             <<Svc(P, <<m("A", <<Lit("items"), Var("item_id_")>>), m("B", <<Lit("parts"), Var("part__id")>>),
                                        m("C", <<Lit("lines"), Var("line_2")>>), m("D", <<Lit("leads"), Var("_lead")>>)>>)>>,
                             <<w(<<F("k", "k", 1, "string", "one")>>), q>>, <<EnumE>>)>>)
       [] sh = "same_named_services" ->
            LET one(Q) == File(Q \o "/svc.proto", Pkg(Q), GoPkg(Q), TRUE, <<>>, <<Svc(Q, <<PostIn(Q, FN(Q, "In"))>>)>>, <<In(Q), Out(Q)>>, <<>>)
            IN Schema(<<one(P \o "a"), one(P \o "b"), one(P \o "c"), one(P \o "d")>>)
       [] sh = "diamond_layers" -> std(<<w(<<FRef("d", "d", 1, "message", "one", FN(P, "L1"))>>)>> \o LayerMsgs(P, 26, "diamond"))
       [] sh = "map_chain" -> std(<<w(<<FRef("d", "d", 1, "message", "one", FN(P, "L1"))>>)>> \o LayerMsgs(P, 16, "map"))
       [] sh = "clique" -> std(<<w(<<FRef("d", "d", 1, "message", "one", FN(P, "K1"))>>)>> \o CliqueMsgs(P, 11))
       [] sh = "long_names" -> std(<<w(<<F("LONGNAME_f", "LONGNAMEF", 1, "string", "one"), FRef("m", "m", 2, "message", "one", FN(P, "LONGNAME_M"))>>),
                                     Msg("LONGNAME_M", FN(P, "LONGNAME_M"), <<F("k", "k", 1, "string", "one")>>)>>)
Params == {"plain", "mock", "json", "yaml", "source_relative"}

(***************************************************************************)
(* C13: each annotation on each cardinality it is accepted on, pairs of    *)
(* annotations on one message, identifier shapes, several services.        *)
(***************************************************************************)
Int64Kinds == {"int64", "uint64", "sint64", "fixed64", "sfixed64"}
\* one annotated field (feature, kind, cardinality); ref resolves message / enum kinds
AField(P, feat, k, c, n, num) ==
  LET ref == CASE k = "message" -> (IF feat \in {"ts", "ts_seconds", "ts_date"} THEN "google.protobuf.Timestamp" ELSE FN(P, "Child"))
               [] k = "enum" -> (IF feat = "enum_number" THEN FN(P, "P") ELSE FN(P, "E")) [] OTHER -> ""
      base == IF c = "map" THEN FMap(n, n, num, "string", k, ref) ELSE FRef(n, n, num, k, c, ref)
  IN CASE feat = "int64_number" -> Ann(base, "int64", "NUMBER")
       [] feat = "int64_string" -> Ann(base, "int64", "STRING")
       [] feat = "enum_custom"  -> base
       [] feat = "enum_string"  -> Ann(base, "enumEnc", "STRING")
       [] feat = "enum_number"  -> Ann(base, "enumEnc", "NUMBER")
       [] feat = "nullable"     -> Ann(base, "nullable", TRUE)
       [] feat = "empty_null"   -> Ann(base, "empty", "NULL")
       [] feat = "empty_omit"   -> Ann(base, "empty", "OMIT")
       [] feat = "ts"           -> Ann(base, "ts", "UNIX_MILLIS")
       [] feat = "ts_seconds"   -> Ann(base, "ts", "UNIX_SECONDS")
       [] feat = "ts_date"      -> Ann(base, "ts", "DATE")
       [] feat = "bytes"        -> Ann(base, "bytes", "HEX")
       [] feat = "bytes_b64url_raw" -> Ann(base, "bytes", "BASE64URL_RAW")
       [] feat = "flatten"      -> Ann(base, "flatten", TRUE)
       [] feat = "unwrap"       -> Ann(base, "unwrap", TRUE)
       [] feat = "query"        -> Ann(base, "query", TRUE)
       [] feat = "path"         -> base
       [] feat = "plain"        -> base

\* the (feature, kind, cardinality) combinations the documented rules accept
C13Singles ==
     {<<"int64_number", k, c>> : k \in Int64Kinds, c \in {"one", "opt", "rep", "map"}}
  \cup {<<"int64_string", "int64", c>> : c \in {"one", "rep"}}
  \cup {<<f, "enum", c>> : f \in {"enum_custom", "enum_string", "enum_number"}, c \in {"one", "opt", "rep", "map"}}
  \cup {<<"nullable", k, "opt">> : k \in {"string", "int32", "int64", "uint32", "bool", "double", "float", "bytes", "enum"}}
  \cup {<<f, "message", c>> : f \in {"empty_null", "empty_omit"}, c \in {"one", "opt"}}
  \* (annotations on map values and flatten on a proto3-optional message are refused by the
  \* generators as "wrong field type" / "oneof member": outside the accepted domain)
  \cup {<<f, "message", c>> : f \in {"ts", "ts_seconds", "ts_date"}, c \in {"one", "opt", "rep"}}
  \cup {<<f, "bytes", c>> : f \in {"bytes", "bytes_b64url_raw"}, c \in {"one", "opt", "rep"}}
  \cup {<<"flatten", "message", "one">>}
  \cup {<<"unwrap", k, c>> : k \in {"string", "int64", "message", "double"}, c \in {"rep", "map"}}
  \cup {<<"query", k, c>> : k \in ScalarKinds \ {"bytes"}, c \in {"one", "opt", "rep"}}
  \cup {<<"query", "enum", "one">>}
  \cup {<<"path", k, "one">> : k \in PathKinds}
  \cup {<<"plain", k, c>> : k \in {"string", "int32", "message", "enum", "bytes"}, c \in {"one", "opt", "rep", "map"}}

C13SingleCase(P, t) ==
  LET feat == t[1] k == t[2] c == t[3]
      f == AField(P, feat, k, c, "a", 1)
      w == IF feat = "unwrap" THEN Msg("W", FN(P, "W"), <<f>>)
           ELSE Msg("W", FN(P, "W"), <<f, F("other_field", "otherField", 2, "string", "one")>>)
      isUrl == feat \in {"query", "path"}
      q == Msg("Q", FN(P, "Q"), <<f>>)
      ms == IF isUrl
            THEN <<Method("Get", FN(P, "Q"), FN(P, "Out"), TRUE,
                          IF feat = "path" THEN Parts(TRUE, <<Lit("q"), Var("a")>>, FALSE) ELSE Parts(TRUE, <<Lit("q")>>, FALSE), "GET")>>
            ELSE <<Method("Do", FN(P, "W"), FN(P, "W"), TRUE, Parts(TRUE, <<Lit("do")>>, FALSE), "POST")>>
  IN Schema(<<File(P \o "/svc.proto", Pkg(P), GoPkg(P), TRUE, <<>>, <<Svc(P, ms)>>,
                   <<Out(P), Child(P), Child2(P)>> \o (IF isUrl THEN <<q>> ELSE <<w>>), <<EnumE, EnumPlain>>)>>)

\* two different codec features on one message (pairs containing flatten / oneof are refused by
\* the generators with "only one MarshalJSON-generating feature" and are outside the domain)
PairFeatures == {"int64_number", "nullable", "empty_null", "ts", "bytes", "enum_custom"}
PairField(P, feat, n, num) ==
  CASE feat = "int64_number" -> AField(P, feat, "int64", "one", n, num)
    [] feat = "nullable"     -> AField(P, feat, "string", "opt", n, num)
    [] feat = "empty_null"   -> AField(P, feat, "message", "one", n, num)
    [] feat = "ts"           -> AField(P, feat, "message", "one", n, num)
    [] feat = "bytes"        -> AField(P, feat, "bytes", "one", n, num)
    [] feat = "enum_custom"  -> AField(P, feat, "enum", "one", n, num)
C13Pairs == {<<a, b>> \in PairFeatures \X PairFeatures : a # b}
C13PairCase(P, pr) ==
  LET w == Msg("W", FN(P, "W"), <<PairField(P, pr[1], "a", 1), PairField(P, pr[2], "b", 2)>>)
  IN Schema(<<File(P \o "/svc.proto", Pkg(P), GoPkg(P), TRUE, <<>>,
                   <<Svc(P, <<Method("Do", FN(P, "W"), FN(P, "W"), TRUE, Parts(TRUE, <<Lit("do")>>, FALSE), "POST")>>)>>,
                   <<Out(P), Child(P), w>>, <<EnumE, EnumPlain>>)>>)

\* one service with ONE method: verb x path variable x query field x body field (what the
\* emitted file imports / declares depends on which of these occur at all in the file)
C13MethodShapes == {<<v, pv, q, b>> \in {"GET", "POST", "PUT", "DELETE", "PATCH", ""} \X BOOLEAN \X BOOLEAN \X BOOLEAN :
                      (v \in {"GET", "DELETE"} => ~b) /\ (v = "" => ~pv)}
C13MethodCase(P, t) ==
  LET v == t[1] pv == t[2] q == t[3] b == t[4]
      fs == (IF pv THEN <<F("id", "id", 1, "string", "one")>> ELSE <<>>)
            \o (IF q THEN <<Ann(F("page", "page", 2, "int32", "one"), "query", TRUE)>> ELSE <<>>)
            \o (IF b THEN <<F("note", "note", 3, "string", "one")>> ELSE <<>>)
      me == IF v = "" THEN Method("Do", FN(P, "Rq"), FN(P, "Out"), FALSE, NoParts, "")
            ELSE Method("Do", FN(P, "Rq"), FN(P, "Out"), TRUE,
                        IF pv THEN Parts(TRUE, <<Lit("r"), Var("id")>>, FALSE) ELSE Parts(TRUE, <<Lit("r")>>, FALSE), v)
  IN Schema(<<File(P \o "/svc.proto", Pkg(P), GoPkg(P), TRUE, <<>>, <<Service("Svc", FALSE, NoParts, <<me>>)>>,
                   <<Out(P), Msg("Rq", FN(P, "Rq"), fs)>>, <<>>)>>)

\* identifier shapes and service layouts
C13Shapes == {"names", "keywords", "two_services_same_method", "two_services_headers", "no_services", "cross_file",
              "nested_annotated", "oneof_members", "acronym_method", "two_service_files", "cross_package_types",
              "disc_oneof_scalars", "disc_oneof_mixed", "disc_oneof_flat", "disc_oneof_one_variant", "unwrap_container_siblings",
              "headers_same_identifier",
              \* strings the user chooses and the generators copy into emitted string literals and format strings
              "awkward_custom_strings", "awkward_quoted_strings"}
C13ShapeCase(P, sh) ==
  LET do(in, out) == Method("Do", in, out, TRUE, Parts(TRUE, <<Lit("do")>>, FALSE), "POST")
      one(msgs, ms) == Schema(<<File(P \o "/svc.proto", Pkg(P), GoPkg(P), TRUE, <<>>, <<Svc(P, ms)>>, <<Out(P), Child(P), Child2(P)>> \o msgs, <<EnumE, EnumPlain>>)>>)
  IN CASE sh = "names" ->
            one(<<Msg("W", FN(P, "W"), <<Ann(F("user_id", "userId", 1, "int64", "one"), "int64", "NUMBER"),
                                        Ann(F("userID2", "userID2", 2, "string", "opt"), "nullable", TRUE),
                                        F("x2y_z", "x2yZ", 3, "string", "one"), F("_lead", "Lead", 4, "string", "one"),
                                        F("HTTPStatus", "HTTPStatus", 5, "int32", "one")>>)>>, <<do(FN(P, "W"), FN(P, "W"))>>)
       [] sh = "awkward_custom_strings" ->
            Schema(<<File(P \o "/svc.proto", Pkg(P), GoPkg(P), TRUE, <<>>, <<Svc(P, <<do(FN(P, "W"), FN(P, "W"))>>)>>,
                          <<Out(P), Child(P), Child2(P),
                            MsgO("W", FN(P, "W"), <<FRef("q", "q", 1, "enum", "one", FN(P, "Q")), FRef("qs", "qs", 2, "enum", "rep", FN(P, "Q")),
                                                   [F("note", "note", 3, "string", "one") EXCEPT !.ann.examples = <<"100% sure", "%d %s">>],
                                                   InOneof(Ann(FRef("a", "a", 4, "message", "one", FN(P, "Child")), "oneofValue", "pct%d"), "o"),
                                                   InOneof(Ann(FRef("b", "b", 5, "message", "one", FN(P, "Child2")), "oneofValue", "100%"), "o")>>,
                                 <<Oneof("o", TRUE, "kind", FALSE)>>)>>,
                          <<Enum("Q", <<EnumV("Q_UNSPECIFIED", 0, ""), EnumV("Q_HALF", 1, "50%"), EnumV("Q_FULL", 2, "100%s"), EnumV("Q_MORE", 3, "%v%%")>>)>>)>>)
       [] sh = "awkward_quoted_strings" ->
            Schema(<<File(P \o "/svc.proto", Pkg(P), GoPkg(P), TRUE, <<>>, <<Svc(P, <<do(FN(P, "W"), FN(P, "W"))>>)>>,
                          <<Out(P), Child(P), Child2(P),
                            MsgO("W", FN(P, "W"), <<FRef("q", "q", 1, "enum", "one", FN(P, "Q")), FRef("qs", "qs", 2, "enum", "rep", FN(P, "Q")),
                                                   [F("note", "note", 3, "string", "one") EXCEPT !.ann.examples = <<"100% \"sure\"", "back\\slash %d">>],
                                                   InOneof(Ann(FRef("a", "a", 4, "message", "one", FN(P, "Child")), "oneofValue", "pct%d \"q\""), "o"),
                                                   InOneof(Ann(FRef("b", "b", 5, "message", "one", FN(P, "Child2")), "oneofValue", "back\\slash"), "o")>>,
                                 <<Oneof("o", TRUE, "kind", FALSE)>>)>>,
                          <<Enum("Q", <<EnumV("Q_UNSPECIFIED", 0, ""), EnumV("Q_HALF", 1, "it's"), EnumV("Q_FULL", 2, "a`b"), EnumV("Q_QUOTED", 3, "say \"hi\" \\ back")>>)>>)>>)
       [] sh = "keywords" ->
            one(<<Msg("W", FN(P, "W"), <<Ann(F("type", "type", 1, "string", "one"), "query", TRUE), Ann(F("func", "func", 2, "int32", "one"), "query", TRUE),
                                        Ann(F("range", "range", 3, "string", "rep"), "query", TRUE), F("string", "string", 4, "string", "one"),
                                        Ann(Ann(F("error", "error", 5, "int64", "one"), "int64", "NUMBER"), "query", TRUE)>>)>>,
                <<Method("Get", FN(P, "W"), FN(P, "W"), TRUE, Parts(TRUE, <<Lit("k"), Var("string")>>, FALSE), "GET"),
                  Method("Put", FN(P, "W"), FN(P, "W"), TRUE, Parts(TRUE, <<Lit("k"), Var("string")>>, FALSE), "PUT")>>)
       [] sh = "two_services_same_method" ->
            Schema(<<File(P \o "/svc.proto", Pkg(P), GoPkg(P), TRUE, <<>>,
                          <<Svc(P, <<do(FN(P, "In"), FN(P, "Out"))>>),
                            Service("Second", TRUE, Parts(TRUE, <<Lit("second")>>, FALSE), <<do(FN(P, "In"), FN(P, "Out"))>>)>>,
                          <<In(P), Out(P)>>, <<>>)>>)
       [] sh = "two_services_headers" ->
            Schema(<<File(P \o "/svc.proto", Pkg(P), GoPkg(P), TRUE, <<>>,
                          <<WithHeaders(Svc(P, <<MethodHeaders(do(FN(P, "In"), FN(P, "Out")), H3)>>), H3),
                            WithHeaders(Service("Second", TRUE, Parts(TRUE, <<Lit("second")>>, FALSE),
                                                <<MethodHeaders(Method("Other", FN(P, "In"), FN(P, "Out"), TRUE, Parts(TRUE, <<Lit("o")>>, FALSE), "GET"),
                                                                <<Header("X-API-Key", "string", "", TRUE), Header("X-Request-ID", "string", "uuid", FALSE)>>)>>), H3)>>,
                          <<Msg("In", FN(P, "In"), <<Ann(F("id", "id", 1, "string", "one"), "query", TRUE)>>), Out(P)>>, <<>>)>>)
       [] sh = "cross_package_types" ->   \* request / response / field types that live in another Go package
            Schema(<<File(P \o "x/types.proto", Pkg(P \o "x"), GoPkg(P \o "x"), TRUE, <<>>, <<>>,
                          <<Msg("Ref", FN(P \o "x", "Ref"), <<Ann(F("id", "id", 1, "string", "one"), "query", TRUE)>>),
                            Msg("Big", FN(P \o "x", "Big"), <<Ann(F("n", "n", 1, "int64", "one"), "int64", "NUMBER")>>)>>, <<>>),
                     File(P \o "/svc.proto", Pkg(P), GoPkg(P), TRUE, <<P \o "x/types.proto">>,
                          <<Svc(P, <<Method("Ping", FN(P \o "x", "Ref"), FN(P, "Out"), TRUE, Parts(TRUE, <<Lit("ping")>>, FALSE), "GET"),
                                     Method("Pong", FN(P, "In"), FN(P \o "x", "Big"), TRUE, Parts(TRUE, <<Lit("pong")>>, FALSE), "POST"),
                                     Method("Both", FN(P \o "x", "Big"), FN(P \o "x", "Ref"), FALSE, NoParts, "")>>)>>,
                          <<In(P), Out(P), Msg("Holder", FN(P, "Holder"), <<FRef("r", "r", 1, "message", "one", FN(P \o "x", "Ref")),
                                                                           FMap("m", "m", 2, "string", "message", FN(P \o "x", "Big"))>>)>>, <<>>)>>)
       [] sh = "two_service_files" ->   \* one Go package made of two files, each declaring a service
            Schema(<<File(P \o "/svc.proto", Pkg(P), GoPkg(P), TRUE, <<>>, <<Svc(P, <<do(FN(P, "In"), FN(P, "Out"))>>)>>, <<In(P), Out(P)>>, <<>>),
                     File(P \o "/more.proto", Pkg(P), GoPkg(P), TRUE, <<P \o "/svc.proto">>,
                          <<Service("Second", TRUE, Parts(TRUE, <<Lit("second")>>, FALSE),
                                    <<Method("Other", FN(P, "In"), FN(P, "Out"), TRUE, Parts(TRUE, <<Lit("o")>>, FALSE), "POST")>>)>>, <<>>, <<>>)>>)
       [] sh = "no_services" ->
            Schema(<<File(P \o "/svc.proto", Pkg(P), GoPkg(P), TRUE, <<>>, <<>>,
                          <<Child(P), Msg("W", FN(P, "W"), <<Ann(F("n", "n", 1, "int64", "one"), "int64", "NUMBER"), FRef("e", "e", 2, "enum", "one", FN(P, "E"))>>),
                            Msg("NotFoundError", FN(P, "NotFoundError"), <<F("resource", "resource", 1, "string", "one")>>)>>, <<EnumE>>)>>)
       [] sh = "cross_file" ->
            Schema(<<File(P \o "/types.proto", Pkg(P), GoPkg(P), TRUE, <<>>, <<>>,
                          <<Child(P), Msg("W", FN(P, "W"), <<Ann(F("n", "n", 1, "int64", "one"), "int64", "NUMBER"), F("s", "s", 2, "string", "one")>>),
                            Msg("Fl", FN(P, "Fl"), <<F("k", "k", 1, "string", "one"), Ann(FRef("c", "c", 2, "message", "one", FN(P, "Child")), "flatten", TRUE)>>)>>, <<EnumE>>),
                     File(P \o "/svc.proto", Pkg(P), GoPkg(P), TRUE, <<P \o "/types.proto">>,
                          <<Svc(P, <<do(FN(P, "W"), FN(P, "Holder"))>>)>>,
                          <<Msg("Holder", FN(P, "Holder"), <<FRef("w", "w", 1, "message", "one", FN(P, "W")), FRef("e", "e", 2, "enum", "rep", FN(P, "E")),
                                                           FRef("fl", "fl", 3, "message", "one", FN(P, "Fl"))>>)>>, <<>>)>>)
       [] sh = "nested_annotated" ->
            one(<<MsgN("W", FN(P, "W"), <<FRef("i", "i", 1, "message", "one", FN(P, "W") \o ".Inner")>>,
                       <<Msg("Inner", FN(P, "W") \o ".Inner", <<Ann(F("n", "n", 1, "int64", "one"), "int64", "NUMBER"),
                                                              F("s", "s", 2, "string", "one")>>)>>)>>, <<do(FN(P, "W"), FN(P, "W"))>>)
       \* discriminated oneofs by what their variants are: scalars only, scalars and messages, messages
       \* only (flattened), a single variant
       \* different header names that give the same Go / TS identifier (the X- prefix and the dashes are dropped)
       [] sh = "headers_same_identifier" ->
            Schema(<<File(P \o "/svc.proto", Pkg(P), GoPkg(P), TRUE, <<>>,
                          <<WithHeaders(Svc(P, <<MethodHeaders(do(FN(P, "In"), FN(P, "Out")),
                                                               <<Header("Trace-Id", "string", "", FALSE), Header("X-APIKey", "string", "", FALSE)>>)>>),
                                        <<Header("X-Request-ID", "string", "uuid", TRUE), Header("Request-ID", "string", "", FALSE),
                                          Header("X-Trace-Id", "string", "", FALSE), Header("X-API-Key", "string", "", TRUE)>>)>>,
                          <<In(P), Out(P)>>, <<>>)>>)
       \* a message with a map-value unwrap field next to fields of every kind and cardinality
       [] sh = "unwrap_container_siblings" ->
            one(<<Msg("L", FN(P, "L"), <<Ann(FRef("items", "items", 1, "message", "rep", FN(P, "Child")), "unwrap", TRUE)>>),
                  Msg("A", FN(P, "A"), <<FMap("by_key", "byKey", 1, "string", "message", FN(P, "L")), F("n", "n", 2, "int64", "one"), FRef("e", "e", 3, "enum", "one", FN(P, "P")),
                                        F("b", "b", 4, "bytes", "one"), F("d", "d", 5, "double", "one"), FRef("t", "t", 6, "message", "one", "google.protobuf.Timestamp"),
                                        F("ns", "ns", 7, "uint64", "rep"), FMap("m", "m", 8, "string", "int64", ""), F("o", "o", 9, "int32", "opt"),
                                        FRef("es", "es", 10, "enum", "rep", FN(P, "P")), FRef("c", "c", 11, "message", "opt", FN(P, "Child")),
                                        F("os", "os", 12, "string", "opt"), F("ob", "ob", 13, "bytes", "opt")>>)>>, <<do(FN(P, "A"), FN(P, "A"))>>)
       [] sh = "disc_oneof_scalars" ->
            one(<<MsgO("W", FN(P, "W"), <<F("k", "k", 1, "string", "one"), InOneof(F("text", "text", 2, "string", "one"), "value"),
                                         InOneof(F("number", "number", 3, "int64", "one"), "value"), InOneof(F("flag", "flag", 4, "bool", "one"), "value")>>,
                       <<Oneof("value", TRUE, "kind", FALSE)>>)>>, <<do(FN(P, "W"), FN(P, "W"))>>)
       [] sh = "disc_oneof_mixed" ->
            one(<<MsgO("W", FN(P, "W"), <<InOneof(F("text", "text", 1, "string", "one"), "value"),
                                         InOneof(Ann(FRef("c", "c", 2, "message", "one", FN(P, "Child")), "oneofValue", "kid"), "value"),
                                         InOneof(FRef("e", "e", 3, "enum", "one", FN(P, "P")), "value")>>,
                       <<Oneof("value", TRUE, "kind", FALSE)>>)>>, <<do(FN(P, "W"), FN(P, "W"))>>)
       [] sh = "disc_oneof_flat" ->
            one(<<MsgO("W", FN(P, "W"), <<F("k", "k", 1, "string", "one"), InOneof(FRef("a", "a", 2, "message", "one", FN(P, "Child")), "o"),
                                         InOneof(FRef("b", "b", 3, "message", "one", FN(P, "Child2")), "o")>>,
                       <<Oneof("o", TRUE, "type", TRUE)>>)>>, <<do(FN(P, "W"), FN(P, "W"))>>)
       [] sh = "disc_oneof_one_variant" ->
            one(<<MsgO("W", FN(P, "W"), <<InOneof(F("only", "only", 1, "string", "one"), "value")>>, <<Oneof("value", TRUE, "kind", FALSE)>>),
                  MsgO("V", FN(P, "V"), <<InOneof(FRef("only", "only", 1, "message", "one", FN(P, "Child")), "value")>>, <<Oneof("value", TRUE, "kind", TRUE)>>)>>,
                <<do(FN(P, "W"), FN(P, "V"))>>)
       [] sh = "oneof_members" ->
            one(<<MsgO("W", FN(P, "W"), <<InOneof(Ann(F("n", "n", 1, "int64", "one"), "int64", "NUMBER"), "o"),
                                         InOneof(Ann(F("b", "b", 2, "bytes", "one"), "bytes", "HEX"), "o"),
                                         InOneof(Ann(FRef("t", "t", 3, "message", "one", "google.protobuf.Timestamp"), "ts", "UNIX_SECONDS"), "o"),
                                         InOneof(FRef("e", "e", 4, "enum", "one", FN(P, "E")), "o")>>, <<Oneof("o", FALSE, "", FALSE)>>)>>,
                <<do(FN(P, "W"), FN(P, "W"))>>)
       [] sh = "acronym_method" ->
            one(<<Msg("W", FN(P, "W"), <<Ann(F("id", "id", 1, "string", "one"), "query", TRUE)>>)>>,
                <<Method("GetHTTPStatus", FN(P, "W"), FN(P, "Out"), TRUE, Parts(TRUE, <<Lit("s")>>, FALSE), "GET"),
                  Method("GetV2Item", FN(P, "W"), FN(P, "Out"), FALSE, NoParts, ""),
                  Method("get_lower", FN(P, "W"), FN(P, "Out"), TRUE, Parts(TRUE, <<Lit("l")>>, FALSE), "DELETE")>>)

(***************************************************************************)
(* C03: one service per (base_path, package naming) carrying every method  *)
(* configuration x path shape x verb x method-name shape.                  *)
(***************************************************************************)
Bases == {"none", "slash_api", "api", "slash_api_slash", "api_v1", "root"}
BaseParts(b) == CASE b = "none" -> NoParts [] b = "slash_api" -> Parts(TRUE, <<Lit("api")>>, FALSE)
                  [] b = "api" -> Parts(FALSE, <<Lit("api")>>, FALSE) [] b = "slash_api_slash" -> Parts(TRUE, <<Lit("api")>>, TRUE)
                  [] b = "api_v1" -> Parts(TRUE, <<Lit("api"), Lit("v1")>>, FALSE) [] b = "root" -> Parts(TRUE, <<>>, FALSE)
LitShapes == {"lit", "nolead", "lit_var", "var_lit", "deep", "trail", "var_trail"}
ShapeParts(sh, n) ==
  CASE sh = "lit" -> Parts(TRUE, <<Lit(n)>>, FALSE) [] sh = "nolead" -> Parts(FALSE, <<Lit(n)>>, FALSE)
    [] sh = "trail" -> Parts(TRUE, <<Lit(n)>>, TRUE) [] sh = "var_trail" -> Parts(TRUE, <<Lit(n), Var("a"), Lit("keys")>>, TRUE)
    [] sh = "lit_var" -> Parts(TRUE, <<Lit(n), Var("a")>>, FALSE)
    [] sh = "var_lit" -> Parts(TRUE, <<Var("a"), Lit(n), Lit("z")>>, FALSE)
    [] sh = "deep" -> Parts(TRUE, <<Lit(n), Var("a"), Lit("y"), Var("b"), Var("c")>>, FALSE)
    [] sh = "var" -> Parts(TRUE, <<Var("a")>>, FALSE) [] sh = "var_var" -> Parts(TRUE, <<Var("a"), Var("b")>>, FALSE)
ShapeVars(sh) == CASE sh \in {"lit_var", "var_lit", "var", "var_trail"} -> <<"a">> [] sh = "deep" -> <<"a", "b", "c">>
                   [] sh = "var_var" -> <<"a", "b">> [] OTHER -> <<>>
RealVerbs == {"GET", "POST", "PUT", "DELETE", "PATCH"}
NameShapes == {"Get", "GetUser", "GetHTTPStatus", "GetV2Item", "Verify2faCode", "Base64decode", "get_lower_snake"}
VerbCamel(v) == CASE v = "GET" -> "Get" [] v = "POST" -> "Post" [] v = "PUT" -> "Put" [] v = "DELETE" -> "Delete" [] v = "PATCH" -> "Patch"
\* method descriptors: [cfg, shape, verb, name]
C03Descs ==
     {[cfg |-> "both", shape |-> sh, verb |-> v, name |-> "B" \o sh \o VerbCamel(v)] : sh \in LitShapes, v \in RealVerbs}
  \cup {[cfg |-> "both", shape |-> "var", verb |-> "GET", name |-> "Bvar"], [cfg |-> "both", shape |-> "var_var", verb |-> "PUT", name |-> "Bvarvar"]}
  \cup {[cfg |-> "path", shape |-> sh, verb |-> "", name |-> "P" \o sh] : sh \in LitShapes}
  \* the usual REST layout: RPCs of one service that share a path template and differ by verb only
  \cup {[cfg |-> "shared", shape |-> sh, verb |-> v, name |-> "R" \o sh \o VerbCamel(v)] : sh \in {"lit", "lit_var"}, v \in RealVerbs}
  \cup {[cfg |-> "verb", shape |-> "", verb |-> v, name |-> n \o "Via" \o VerbCamel(v)] : n \in NameShapes, v \in RealVerbs}
  \cup {[cfg |-> "absent", shape |-> "", verb |-> "", name |-> n] : n \in NameShapes}
C03Req(P, d) ==
  LET v == IF d.verb = "" THEN "POST" ELSE d.verb
      vars == IF d.cfg \in {"both", "path", "shared"} THEN ShapeVars(d.shape) ELSE <<>>
      pf == [i \in 1..Len(vars) |-> F(vars[i], vars[i], i, "string", "one")]
      q  == <<Ann(F("q", "q", Len(vars) + 1, "string", "one"), "query", TRUE)>>
      b  == IF v \in {"POST", "PUT", "PATCH"} THEN <<F("d", "d", Len(vars) + 2, "string", "one")>> ELSE <<>>
  IN Msg("Rq" \o d.name, FN(P, "Rq" \o d.name), pf \o q \o b)
C03Method(P, d) ==
  Method(d.name, FN(P, "Rq" \o d.name), FN(P, "Out"), d.cfg # "absent",
         IF d.cfg \in {"both", "path"} THEN ShapeParts(d.shape, d.name)
         ELSE IF d.cfg = "shared" THEN ShapeParts(d.shape, "res") ELSE NoParts, d.verb)
C03Case(P, base, pkgDiff) ==
  LET ds == SetToSeq(C03Descs)
      pkg == IF pkgDiff THEN Pkg(P) ELSE P
      full(n) == pkg \o "." \o n
      rq(d) == [C03Req(P, d) EXCEPT !.full = full("Rq" \o d.name)]
      me(d) == [C03Method(P, d) EXCEPT !.in = full("Rq" \o d.name), !.out = full("Out")]
  IN Schema(<<File(P \o "/svc.proto", pkg, GoPkg(P), TRUE, <<>>,
                   <<Service("Svc", base # "none", BaseParts(base), [i \in 1..Len(ds) |-> me(ds[i])])>>,
                   <<[Out(P) EXCEPT !.full = full("Out")]>> \o [i \in 1..Len(ds) |-> rq(ds[i])], <<>>)>>)

(***************************************************************************)
(* C20: response fields of every kind and cardinality, with and without    *)
(* example lists, flat / nested / map value / recursive, several services. *)
(***************************************************************************)
MockKinds == {"string", "int32", "int64", "uint32", "uint64", "sint32", "sint64", "fixed32", "fixed64", "sfixed32", "sfixed64",
              "bool", "float", "double", "enum", "bytes", "ts", "msg"}
MockCards == {"one", "opt", "rep", "map", "oneof", "oneof2"}
ExSets == {"none", "parsable", "mixed", "unparsable", "awkward", "range", "padded"}
IntKinds == {"int32", "int64", "uint32", "uint64", "sint32", "sint64", "fixed32", "fixed64", "sfixed32", "sfixed64"}
ExamplesFor(k, ex) ==
  IF ex = "none" \/ k \in {"bytes", "ts", "msg"} THEN <<>> ELSE
  LET good == CASE k = "string" -> <<"alpha", "beta">> [] k \in IntKinds -> <<"41", "43">>
                [] k = "bool" -> <<"true", "true">> [] k \in {"float", "double"} -> <<"1.5", "2.25">> [] k = "enum" -> <<"P_A", "P_A">>
      bad  == <<"not-a-value", "12x">>
      \* awkward: strings a Go string literal has to escape; range: values only the wider type of the same family holds
      awkward == <<"say \"hi\"", "back\\slash">>
      range == CASE k \in {"int32", "sint32", "sfixed32"} -> <<"99999999999", "7">> [] k \in {"uint32", "fixed32"} -> <<"-5", "4294967296", "7">>
                 [] k \in {"uint64", "fixed64"} -> <<"-5", "18446744073709551615">> [] k = "float" -> <<"1e300", "0.5">> [] OTHER -> good
  IN CASE ex = "parsable" -> good [] ex = "mixed" -> good \o bad [] ex = "unparsable" -> (IF k = "string" THEN good ELSE bad)
       [] ex = "awkward" -> (IF k = "string" THEN awkward ELSE good) [] ex = "range" -> range
       \* padded: decimal numbers written with leading zeros, as months and codes are ("parsed to the field's type": 10 and 9)
       [] ex = "padded" -> (IF k \in IntKinds THEN <<"010", "09">> ELSE good)
MockField(P, k, c, ex) ==
  LET kind == CASE k = "ts" -> "message" [] k = "msg" -> "message" [] OTHER -> k
      ref == CASE k = "ts" -> TS [] k = "msg" -> FN(P, "Child") [] k = "enum" -> FN(P, "P") [] OTHER -> ""
      base == CASE c = "map" -> FMap("v", "v", 1, "string", kind, ref)
                [] c \in {"oneof", "oneof2"} -> InOneof(FRef("v", "v", 1, kind, "one", ref), "o")
                [] OTHER -> FRef("v", "v", 1, kind, c, ref)
  IN [base EXCEPT !.ann.examples = ExamplesFor(k, ex)]
MockNestings == {"flat", "nested", "mapvalue", "recursive", "two_services", "protonested", "imported", "xpkg", "oneof_in_oneof"}
C20Case(P, k, c, ex, nest) ==
  LET f == MockField(P, k, c, ex)
      do(out) == Method("Do", FN(P, "In"), out, TRUE, Parts(TRUE, <<Lit("do")>>, FALSE), "POST")
      one(msgs, out) == Schema(<<File(P \o "/svc.proto", Pkg(P), GoPkg(P), TRUE, <<>>, <<Svc(P, <<do(out)>>)>>, <<In(P), Child(P)>> \o msgs, <<EnumPlain>>)>>)
      other == InOneof(FRef("w", "w", 5, "message", "one", FN(P, "Child")), "o")
      ofields == IF c = "oneof" THEN <<f, other>> ELSE <<other, f>>   \* oneof2: the field under test is the second member
  IN CASE nest = "flat" /\ c \in {"oneof", "oneof2"} ->
            one(<<MsgO("R", FN(P, "R"), ofields \o <<F("label", "label", 2, "string", "one")>>, <<Oneof("o", FALSE, "", FALSE)>>)>>, FN(P, "R"))
       [] nest = "flat"     -> one(<<Msg("R", FN(P, "R"), <<f, F("label", "label", 2, "string", "one")>>)>>, FN(P, "R"))
       \* a oneof whose message member has itself a oneof with a message member (and a map of such messages)
       [] nest = "oneof_in_oneof" ->   \* (both oneofs and both members are named alike: generated temporaries must still differ)
            one(<<MsgO("Mid", FN(P, "Mid"), <<InOneof(FRef("message", "message", 1, "message", "one", FN(P, "Inner")), "body"), InOneof(F("txt", "txt", 2, "string", "one"), "body")>>,
                       <<Oneof("body", FALSE, "", FALSE)>>),
                  Msg("Inner", FN(P, "Inner"), <<f>>),
                  MsgO("R", FN(P, "R"), <<InOneof(FRef("message", "message", 1, "message", "one", FN(P, "Mid")), "body"), InOneof(F("num", "num", 2, "int32", "one"), "body"),
                                         FMap("mids", "mids", 3, "string", "message", FN(P, "Mid"))>>, <<Oneof("body", FALSE, "", FALSE)>>)>>, FN(P, "R"))
       [] nest = "protonested" ->
            one(<<MsgN("R", FN(P, "R"), <<FRef("inner", "inner", 1, "message", "one", FN(P, "R.Inner")), [F("v", "v", 2, "string", "one") EXCEPT !.ann.examples = <<"outer">>]>>,
                       <<Msg("Inner", FN(P, "R.Inner"), <<f>>)>>),
                  \* a second message with the same short name as the nested one and other examples
                  Msg("Inner", FN(P, "Inner"), <<[F("v", "v", 1, "string", "one") EXCEPT !.ann.examples = <<"decoy">>]>>)>>, FN(P, "R"))
       [] nest = "xpkg" ->   \* message types of another Go package as singular, map-value and oneof-member fields
            Schema(<<File(P \o "x/types.proto", Pkg(P \o "x"), GoPkg(P \o "x"), TRUE, <<>>, <<>>,
                          <<Msg("Inner", FN(P \o "x", "Inner"), <<f>>), Msg("Child", FN(P \o "x", "Child"), <<F("x", "x", 1, "string", "one")>>)>>, <<EnumPlain>>),
                     File(P \o "/svc.proto", Pkg(P), GoPkg(P), TRUE, <<P \o "x/types.proto">>, <<Svc(P, <<do(FN(P, "R"))>>)>>,
                          <<In(P), MsgO("R", FN(P, "R"), <<FRef("inner", "inner", 1, "message", "one", FN(P \o "x", "Inner")),
                                                          FMap("by", "by", 2, "string", "message", FN(P \o "x", "Inner")),
                                                          InOneof(FRef("w", "w", 3, "message", "one", FN(P \o "x", "Inner")), "o"),
                                                          FRef("many", "many", 4, "message", "rep", FN(P \o "x", "Inner"))>>, <<Oneof("o", FALSE, "", FALSE)>>)>>, <<>>)>>)
       [] nest = "imported" ->
            Schema(<<File(P \o "/types.proto", Pkg(P), GoPkg(P), TRUE, <<>>, <<>>, <<Msg("Inner", FN(P, "Inner"), <<f>>), Child(P)>>, <<EnumPlain>>),
                     File(P \o "/svc.proto", Pkg(P), GoPkg(P), TRUE, <<P \o "/types.proto">>, <<Svc(P, <<do(FN(P, "R"))>>)>>,
                          <<In(P), Msg("R", FN(P, "R"), <<FRef("inner", "inner", 1, "message", "one", FN(P, "Inner"))>>)>>, <<>>)>>)
       [] nest = "nested"   -> one(<<Msg("Inner", FN(P, "Inner"), <<f>>), Msg("R", FN(P, "R"), <<FRef("inner", "inner", 1, "message", "one", FN(P, "Inner"))>>)>>, FN(P, "R"))
       [] nest = "mapvalue" -> one(<<Msg("Inner", FN(P, "Inner"), <<f>>), Msg("R", FN(P, "R"), <<FMap("by", "by", 1, "string", "message", FN(P, "Inner"))>>)>>, FN(P, "R"))
       [] nest = "recursive" -> one(<<Msg("R", FN(P, "R"), <<f, FRef("next", "next", 2, "message", "one", FN(P, "R")), FMap("kids", "kids", 3, "string", "message", FN(P, "R"))>>)>>, FN(P, "R"))
       [] nest = "two_services" ->
            Schema(<<File(P \o "/svc.proto", Pkg(P), GoPkg(P), TRUE, <<>>,
                          <<Svc(P, <<do(FN(P, "R"))>>), Service("Second", TRUE, Parts(TRUE, <<Lit("second")>>, FALSE),
                                                             <<Method("Other", FN(P, "In"), FN(P, "R"), TRUE, Parts(TRUE, <<Lit("o")>>, FALSE), "GET")>>)>>,
                          <<Msg("In", FN(P, "In"), <<Ann(F("id", "id", 1, "string", "one"), "query", TRUE)>>), Child(P), Msg("R", FN(P, "R"), <<f>>)>>, <<EnumPlain>>)>>)

(***************************************************************************)
(* C18: document-level shapes.                                             *)
(***************************************************************************)
C18Shapes == {"same_named_nested", "multi_service", "imported_msgs", "path_and_query", "headers", "same_name_other_location", "date_examples",
              "multi_service_shared_annotated", "two_files_shared_annotated", "nested_decl_unused_with_refs"}
C18Case(P, sh) ==
  LET do(n, in, out, parts, verb) == Method(n, in, out, TRUE, parts, verb)
  IN CASE sh = "same_named_nested" ->
            Schema(<<File(P \o "/svc.proto", Pkg(P), GoPkg(P), TRUE, <<>>,
                          <<Svc(P, <<do("Do", FN(P, "OrderReq"), FN(P, "InvoiceResp"), Parts(TRUE, <<Lit("do")>>, FALSE), "POST")>>)>>,
                          <<MsgN("OrderReq", FN(P, "OrderReq"), <<FRef("item", "item", 1, "message", "one", FN(P, "OrderReq") \o ".Item")>>,
                                 <<Msg("Item", FN(P, "OrderReq") \o ".Item", <<F("sku", "sku", 1, "string", "one")>>)>>),
                            MsgN("InvoiceResp", FN(P, "InvoiceResp"), <<FRef("item", "item", 1, "message", "one", FN(P, "InvoiceResp") \o ".Item")>>,
                                 <<Msg("Item", FN(P, "InvoiceResp") \o ".Item", <<F("amount", "amount", 1, "double", "one"), F("currency", "currency", 2, "string", "one"),
                                                                                   FRef("dim", "dim", 3, "message", "one", FN(P, "Dimensions"))>>)>>),
                            Msg("Dimensions", FN(P, "Dimensions"), <<F("w", "w", 1, "double", "one"), FRef("unit", "unit", 2, "message", "one", FN(P, "Unit"))>>),
                            Msg("Unit", FN(P, "Unit"), <<F("name", "name", 1, "string", "one")>>)>>, <<>>)>>)
       [] sh = "multi_service" ->
            Schema(<<File(P \o "/svc.proto", Pkg(P), GoPkg(P), TRUE, <<>>,
                          <<Svc(P, <<do("Do", FN(P, "In"), FN(P, "Out"), Parts(TRUE, <<Lit("do")>>, FALSE), "POST")>>),
                            Service("Second", TRUE, Parts(TRUE, <<Lit("second")>>, FALSE),
                                    <<do("Other", FN(P, "In"), FN(P, "Child"), Parts(TRUE, <<Lit("o")>>, FALSE), "POST"),
                                      do("Third", FN(P, "Child"), FN(P, "Out"), Parts(TRUE, <<Lit("t")>>, FALSE), "PUT")>>)>>,
                          <<In(P), Out(P), Child(P)>>, <<>>)>>)
       \* messages whose schema needs helper components (variants of a flattened discriminated oneof, the
       \* value list of a map-value unwrap, a flattened child) reached from SEVERAL services of one run:
       \* each document must be complete on its own
       [] sh \in {"multi_service_shared_annotated", "two_files_shared_annotated"} ->
            LET ev == MsgO("Ev", FN(P, "Ev"), <<F("k", "k", 1, "string", "one"), InOneof(FRef("a", "a", 2, "message", "one", FN(P, "Child")), "o"),
                                               InOneof(FRef("b", "b", 3, "message", "one", FN(P, "Child2")), "o")>>, <<Oneof("o", TRUE, "type", TRUE)>>)
                en == MsgO("En", FN(P, "En"), <<InOneof(FRef("a", "a", 1, "message", "one", FN(P, "Child")), "o"),
                                               InOneof(Ann(FRef("b", "b", 2, "message", "one", FN(P, "Child2")), "oneofValue", "bee"), "o")>>, <<Oneof("o", TRUE, "kind", FALSE)>>)
                fl == Msg("Fl", FN(P, "Fl"), <<F("x", "x", 1, "string", "one"), Ann(Ann(FRef("c", "c", 2, "message", "one", FN(P, "Child")), "flatten", TRUE), "prefix", "c_")>>)
                li == Msg("Li", FN(P, "Li"), <<Ann(FRef("items", "items", 1, "message", "rep", FN(P, "Child")), "unwrap", TRUE)>>)
                hold == Msg("Hold", FN(P, "Hold"), <<FRef("ev", "ev", 1, "message", "one", FN(P, "Ev")), FRef("en", "en", 2, "message", "one", FN(P, "En")),
                                                    FRef("fl", "fl", 3, "message", "one", FN(P, "Fl")), FMap("by", "by", 4, "string", "message", FN(P, "Li"))>>)
                s1 == Svc(P, <<do("Do", FN(P, "Hold"), FN(P, "Ev"), Parts(TRUE, <<Lit("do")>>, FALSE), "POST")>>)
                s2 == Service("Second", TRUE, Parts(TRUE, <<Lit("second")>>, FALSE),
                              <<do("Other", FN(P, "Ev"), FN(P, "Hold"), Parts(TRUE, <<Lit("o")>>, FALSE), "POST"),
                                do("Third", FN(P, "Fl"), FN(P, "En"), Parts(TRUE, <<Lit("t")>>, FALSE), "PUT")>>)
                s3 == Service("Third", TRUE, Parts(TRUE, <<Lit("third")>>, FALSE), <<do("Again", FN(P, "Hold"), FN(P, "Hold"), Parts(TRUE, <<Lit("g")>>, FALSE), "POST")>>)
            IN IF sh = "multi_service_shared_annotated"
               THEN Schema(<<File(P \o "/svc.proto", Pkg(P), GoPkg(P), TRUE, <<>>, <<s1, s2, s3>>, <<Child(P), Child2(P), ev, en, fl, li, hold>>, <<>>)>>)
               ELSE Schema(<<File(P \o "/types.proto", Pkg(P), GoPkg(P), TRUE, <<>>, <<>>, <<Child(P), Child2(P), ev, en, fl, li, hold>>, <<>>),
                             File(P \o "/svc.proto", Pkg(P), GoPkg(P), TRUE, <<P \o "/types.proto">>, <<s1>>, <<>>, <<>>),
                             File(P \o "/more.proto", Pkg(P), GoPkg(P), TRUE, <<P \o "/types.proto">>, <<s2, s3>>, <<>>, <<>>)>>)
       \* a nested declaration that no field of the service's messages uses, whose own fields refer to messages
       \* (one of them imported) that are reachable in no other way: what the document publishes must be closed
       [] sh = "nested_decl_unused_with_refs" ->
            Schema(<<File(P \o "/types.proto", Pkg(P), GoPkg(P), FALSE, <<>>, <<>>, <<Msg("Window", FN(P, "Window"), <<F("from", "from", 1, "int64", "one"), FRef("c", "c", 2, "message", "one", FN(P, "Child2"))>>), Child2(P)>>, <<>>),
                     File(P \o "/svc.proto", Pkg(P), GoPkg(P), TRUE, <<P \o "/types.proto">>,
                          <<Svc(P, <<do("Do", FN(P, "In"), FN(P, "Page"), Parts(TRUE, <<Lit("do")>>, FALSE), "POST")>>),
                            Service("Second", TRUE, Parts(TRUE, <<Lit("second")>>, FALSE),
                                    <<do("Other", FN(P, "In"), FN(P, "UsesCursor"), Parts(TRUE, <<Lit("o")>>, FALSE), "POST")>>)>>,
                          <<In(P), Child(P),
                            MsgN("Page", FN(P, "Page"), <<F("title", "title", 1, "string", "one")>>,
                                 <<Msg("Cursor", FN(P, "Page") \o ".Cursor", <<FRef("w", "w", 1, "message", "one", FN(P, "Window")),
                                                                               FMap("by", "by", 2, "string", "message", FN(P, "Child")),
                                                                               FRef("ws", "ws", 3, "message", "rep", FN(P, "Window"))>>)>>),
                            Msg("UsesCursor", FN(P, "UsesCursor"), <<FRef("cur", "cur", 1, "message", "one", FN(P, "Page") \o ".Cursor")>>)>>, <<>>)>>)
       [] sh = "imported_msgs" ->
            Schema(<<File(P \o "/types.proto", Pkg(P), GoPkg(P), FALSE, <<>>, <<>>, <<Child(P), Child2(P)>>, <<EnumE>>),
                     File(P \o "/svc.proto", Pkg(P), GoPkg(P), TRUE, <<P \o "/types.proto">>,
                          <<Svc(P, <<do("Do", FN(P, "W"), FN(P, "Child2"), Parts(TRUE, <<Lit("do")>>, FALSE), "POST")>>)>>,
                          <<Msg("W", FN(P, "W"), <<FRef("c", "c", 1, "message", "one", FN(P, "Child")), FRef("e", "e", 2, "enum", "rep", FN(P, "E"))>>)>>, <<>>)>>)
       [] sh = "path_and_query" ->
            Schema(<<File(P \o "/svc.proto", Pkg(P), GoPkg(P), TRUE, <<>>,
                          <<Svc(P, <<do("Get", FN(P, "Q"), FN(P, "Out"), Parts(TRUE, <<Lit("orgs"), Var("org_id"), Lit("items"), Var("item_id")>>, FALSE), "GET"),
                                     do("Put", FN(P, "Q"), FN(P, "Out"), Parts(TRUE, <<Lit("orgs"), Var("org_id"), Lit("items"), Var("item_id")>>, FALSE), "PUT"),
                                     do("Del", FN(P, "Q"), FN(P, "Out"), Parts(TRUE, <<Lit("orgs"), Var("org_id"), Lit("items"), Var("item_id")>>, FALSE), "DELETE")>>)>>,
                          <<Out(P), Msg("Q", FN(P, "Q"), <<F("org_id", "orgId", 1, "string", "one"), F("item_id", "itemId", 2, "int64", "one"),
                                                          [Ann(F("page", "page", 3, "int32", "one"), "query", TRUE) EXCEPT !.ann.queryName = "p"],
                                                          Ann(F("org", "org", 4, "string", "one"), "query", TRUE)>>)>>, <<>>)>>)
       \* one name in two locations: a path variable, a query parameter (custom name) and a header called alike
       [] sh = "same_name_other_location" ->
            Schema(<<File(P \o "/svc.proto", Pkg(P), GoPkg(P), TRUE, <<>>,
                          <<Svc(P, <<MethodHeaders(do("List", FN(P, "Q"), FN(P, "Out"), Parts(TRUE, <<Lit("orgs"), Var("org"), Lit("members")>>, FALSE), "GET"),
                                                   <<Header("org", "string", "", FALSE)>>),
                                     do("Move", FN(P, "Q"), FN(P, "Out"), Parts(TRUE, <<Lit("orgs"), Var("org"), Lit("move")>>, FALSE), "POST")>>)>>,
                          <<Out(P), Msg("Q", FN(P, "Q"), <<F("org", "org", 1, "string", "one"),
                                                          [Ann(F("home_org", "homeOrg", 2, "string", "one"), "query", TRUE) EXCEPT !.ann.queryName = "org"]>>)>>, <<>>)>>)
       \* example values that look like dates / times (a renderer must not re-type them)
       [] sh = "date_examples" ->
            Schema(<<File(P \o "/svc.proto", Pkg(P), GoPkg(P), TRUE, <<>>,
                          <<WithHeaders(Svc(P, <<do("Do", FN(P, "In"), FN(P, "Out"), Parts(TRUE, <<Lit("do")>>, FALSE), "POST")>>),
                                        <<[Header("X-Since", "string", "date", FALSE) EXCEPT !.example = "2024-01-15"],
                                          [Header("X-At", "string", "date-time", FALSE) EXCEPT !.example = "2024-01-15T10:30:00Z"],
                                          [Header("X-Clock", "string", "time", FALSE) EXCEPT !.example = "10:30:00"]>>)>>,
                          <<Msg("In", FN(P, "In"), <<[F("day", "day", 1, "string", "one") EXCEPT !.ann.examples = <<"2024-01-15", "2001-12-14t21:59:43.10-05:00">>],
                                                     [F("ver", "ver", 2, "string", "one") EXCEPT !.ann.examples = <<"1.0", "0x1F", "1_000", ".inf">>]>>), Out(P)>>, <<>>)>>)
       [] sh = "headers" ->
            Schema(<<File(P \o "/svc.proto", Pkg(P), GoPkg(P), TRUE, <<>>,
                          <<WithHeaders(Svc(P, <<MethodHeaders(do("Do", FN(P, "In"), FN(P, "Out"), Parts(TRUE, <<Lit("do")>>, FALSE), "POST"),
                                                               <<[Header("X-Zeta", "integer", "", FALSE) EXCEPT !.example = "123"],
                                                                 [Header("X-Extra", "string", "date-time", TRUE) EXCEPT !.example = "true"],
                                                                 [Header("X-Nul", "string", "", FALSE) EXCEPT !.example = "null"]>>)>>), H3)>>,
                          <<Msg("In", FN(P, "In"), <<[F("id", "id", 1, "string", "one") EXCEPT !.ann.examples = <<"007", "true", "1e3", "~">>],
                                                     [F("on", "on", 2, "string", "one") EXCEPT !.ann.examples = <<"yes", "no">>]>>), Out(P)>>, <<>>)>>)

(***************************************************************************)
(* C04 / C05: each annotated construct A in each context inside the RPC's  *)
(* top-level message.                                                      *)
(***************************************************************************)
Constructs == {"kinds", "wkt", "wkt2", "int64num", "enumcustom", "enumnum", "nullable", "empty", "ts", "bytes", "oneof", "oneofflat", "flatten",
               "flattenprefix", "unwraplist", "unwrapmap", "multiword", "int64rep", "plain", "required", "oneofplus", "explicit", "flattentwice", "bytesrules", "oneofscalars", "unwrapmapplus", "unwrapsiblings", "unwrapnames", "unwraprootname", "flattennullable", "oneofmultiword", "emptywkt", "nullablevalue"}
\* the annotated message A (and the helper messages it needs)
ConstructMsgs(P, c) ==
  LET a(fs) == Msg("A", FN(P, "A"), fs)
      ch == FN(P, "Child") c2 == FN(P, "Child2")
  IN CASE c = "int64num"   -> <<a(<<Ann(F("n", "n", 1, "int64", "one"), "int64", "NUMBER"), Ann(F("u", "u", 2, "uint64", "one"), "int64", "NUMBER"), F("s", "s", 3, "string", "one"),
                                     Ann(F("o", "o", 4, "sfixed64", "opt"), "int64", "NUMBER")>>)>>
       [] c = "int64rep"   -> <<a(<<Ann(F("ns", "ns", 1, "int64", "rep"), "int64", "NUMBER"), Ann(FMap("by", "by", 2, "string", "sint64", ""), "int64", "NUMBER")>>)>>
       [] c = "enumcustom" -> <<a(<<FRef("e", "e", 1, "enum", "one", FN(P, "E")), FRef("es", "es", 2, "enum", "rep", FN(P, "E")), F("s", "s", 3, "string", "one")>>)>>
       [] c = "enumnum"    -> <<a(<<Ann(FRef("e", "e", 1, "enum", "one", FN(P, "P")), "enumEnc", "NUMBER"), F("s", "s", 2, "string", "one")>>)>>
       [] c = "nullable"   -> <<a(<<Ann(F("s", "s", 1, "string", "opt"), "nullable", TRUE), Ann(F("n", "n", 2, "int32", "opt"), "nullable", TRUE), F("k", "k", 3, "int32", "one")>>)>>
       [] c = "empty"      -> <<a(<<Ann(FRef("c", "c", 1, "message", "one", ch), "empty", "NULL"), Ann(FRef("d", "d", 2, "message", "one", ch), "empty", "OMIT"),
                                   Ann(FRef("p", "p", 3, "message", "one", ch), "empty", "PRESERVE"), F("s", "s", 4, "string", "one")>>)>>
       [] c = "ts"         -> <<a(<<Ann(FRef("t", "t", 1, "message", "one", TS), "ts", "UNIX_SECONDS"), Ann(FRef("u", "u", 2, "message", "one", TS), "ts", "DATE"),
                                   Ann(FRef("m", "m", 3, "message", "one", TS), "ts", "UNIX_MILLIS"), FRef("r", "r", 4, "message", "one", TS),
                                   Ann(FRef("ts", "ts", 5, "message", "rep", TS), "ts", "UNIX_SECONDS"), Ann(FRef("ds", "ds", 6, "message", "rep", TS), "ts", "DATE")>>)>>
       [] c = "bytes"      -> <<a(<<Ann(F("b", "b", 1, "bytes", "one"), "bytes", "HEX"), Ann(F("c", "c", 2, "bytes", "one"), "bytes", "BASE64URL_RAW"), F("d", "d", 3, "bytes", "one"),
                                   Ann(F("hs", "hs", 4, "bytes", "rep"), "bytes", "HEX"), Ann(F("us", "us", 5, "bytes", "rep"), "bytes", "BASE64URL")>>)>>
       [] c = "oneof"      -> <<MsgO("A", FN(P, "A"), <<F("k", "k", 1, "string", "one"), InOneof(FRef("a", "a", 2, "message", "one", ch), "o"),
                                     InOneof(Ann(FRef("b", "b", 3, "message", "one", c2), "oneofValue", "bee"), "o")>>, <<Oneof("o", TRUE, "type", FALSE)>>)>>
       \* a discriminated oneof, not flattened, whose members' JSON names differ from their proto names
       [] c = "oneofmultiword" -> <<MsgO("A", FN(P, "A"), <<F("k", "k", 1, "string", "one"), InOneof(FRef("credit_card", "creditCard", 2, "message", "one", ch), "o"),
                                     InOneof(F("voucher_code", "voucherCode", 3, "string", "one"), "o"),
                                     InOneof(FRef("bank_transfer", "bankTransfer", 4, "message", "one", c2), "o")>>, <<Oneof("o", TRUE, "kind", FALSE)>>)>>
       \* empty_behavior on children that are well-known types: "empty" is proto.Size() = 0, i.e. the type's default
       \* ("1970-01-01T00:00:00Z", "0s", "", 0 on the wire when PRESERVEd), not "renders as {}"
       [] c = "emptywkt"   -> <<a(<<Ann(FRef("t", "t", 1, "message", "one", TS), "empty", "NULL"),
                                   Ann(FRef("d", "d", 2, "message", "one", "google.protobuf.Duration"), "empty", "OMIT"),
                                   Ann(FRef("sv", "sv", 3, "message", "one", "google.protobuf.StringValue"), "empty", "NULL"),
                                   Ann(FRef("iv", "iv", 4, "message", "opt", "google.protobuf.Int32Value"), "empty", "OMIT"),
                                   FRef("pt", "pt", 5, "message", "one", TS), F("k", "k", 6, "string", "one")>>)>>
       \* a nullable field next to fields for which JSON null is a VALUE (google.protobuf.Value) or may contain one
       [] c = "nullablevalue" -> <<a(<<Ann(F("s", "s", 1, "string", "opt"), "nullable", TRUE),
                                      FRef("extra", "extra", 2, "message", "one", "google.protobuf.Value"),
                                      FRef("lv", "lv", 3, "message", "one", "google.protobuf.ListValue"), F("k", "k", 4, "string", "one")>>)>>
       [] c = "oneofflat"  -> <<MsgO("A", FN(P, "A"), <<F("k", "k", 1, "string", "one"), InOneof(FRef("a", "a", 2, "message", "one", ch), "o"),
                                     InOneof(FRef("b", "b", 3, "message", "one", c2), "o")>>, <<Oneof("o", TRUE, "type", TRUE)>>)>>
       [] c = "flatten"    -> <<a(<<F("k", "k", 1, "string", "one"), Ann(FRef("c", "c", 2, "message", "one", ch), "flatten", TRUE)>>)>>
       [] c = "flattenprefix" -> <<a(<<F("x", "x", 1, "string", "one"), Ann(Ann(FRef("c", "c", 2, "message", "one", ch), "flatten", TRUE), "prefix", "c_")>>)>>
       \* (buf.validate.field).required on fields of several shapes, among them a flattened one: what the
       \* document lists as required must be required of the wire form, not of the proto field
       [] c = "required"   -> <<a(<<Req(F("k", "k", 1, "string", "one")), Req(Ann(FRef("c", "c", 2, "message", "one", ch), "flatten", TRUE)),
                                   Req(FRef("d", "d", 3, "message", "one", ch)), Req(F("tags", "tags", 4, "string", "rep")),
                                   Req(F("n", "n", 5, "int64", "one")), F("free", "free", 6, "string", "one")>>)>>
       \* a discriminated oneof next to the other things protobuf models as oneofs: a proto3 optional field
       \* (synthetic oneof) and an ordinary, un-annotated oneof
       [] c = "oneofplus"  -> <<MsgO("A", FN(P, "A"), <<F("k", "k", 1, "string", "one"), F("note", "note", 2, "string", "opt"),
                                     InOneof(FRef("a", "a", 3, "message", "one", ch), "o"), InOneof(FRef("b", "b", 4, "message", "one", c2), "o"),
                                     InOneof(F("user_id", "userId", 5, "string", "one"), "actor"), InOneof(F("system", "system", 6, "bool", "one"), "actor")>>,
                                 <<Oneof("o", TRUE, "type", TRUE), Oneof("actor", FALSE, "", FALSE)>>)>>
       [] c = "unwraplist" -> <<a(<<Ann(F("items", "items", 1, "string", "rep"), "unwrap", TRUE)>>)>>
       [] c = "unwrapmap"  -> <<Msg("L", FN(P, "L"), <<Ann(FRef("items", "items", 1, "message", "rep", ch), "unwrap", TRUE)>>),
                                a(<<FMap("by_key", "byKey", 1, "string", "message", FN(P, "L")), F("sib_ling", "sibLing", 2, "string", "one")>>)>>
       [] c = "kinds"      -> <<a(<<F("f_double", "fDouble", 1, "double", "rep"), F("f_float", "fFloat", 2, "float", "opt"), F("f_int32", "fInt32", 3, "int32", "rep"),
                                   F("f_uint32", "fUint32", 4, "uint32", "one"), F("f_sint64", "fSint64", 5, "sint64", "rep"), F("f_fixed64", "fFixed64", 6, "fixed64", "opt"),
                                   F("f_bool", "fBool", 7, "bool", "opt"), F("f_bytes", "fBytes", 8, "bytes", "rep"), FRef("f_enum", "fEnum", 9, "enum", "rep", FN(P, "P")),
                                   FMap("m_int", "mInt", 10, "int64", "double", ""), FMap("m_bool", "mBool", 11, "bool", "bytes", ""),
                                   FMap("m_enum", "mEnum", 12, "string", "enum", FN(P, "P")), FMap("m_msg", "mMsg", 13, "uint32", "message", ch),
                                   FRef("o_msg", "oMsg", 14, "message", "opt", ch), FRef("r_msg", "rMsg", 15, "message", "rep", ch)>>)>>
       [] c = "wkt"        -> <<a(<<FRef("t", "t", 1, "message", "one", TS), FRef("ts", "ts", 2, "message", "rep", TS), FMap("mt", "mt", 3, "string", "message", TS),
                                   FRef("ot", "ot", 4, "message", "opt", TS), FMap("it", "it", 5, "int32", "message", TS),
                                   FRef("e", "e", 8, "message", "one", "google.protobuf.Empty")>>)>>
       [] c = "wkt2"       -> <<a(<<FRef("d", "d", 4, "message", "one", "google.protobuf.Duration"), FRef("sv", "sv", 5, "message", "one", "google.protobuf.StringValue"),
                                   FRef("iv", "iv", 6, "message", "one", "google.protobuf.Int64Value"), FRef("st", "st", 7, "message", "one", "google.protobuf.Struct")>>)>>
       [] c = "multiword"  -> <<a(<<Ann(F("big_number", "bigNumber", 1, "int64", "one"), "int64", "NUMBER"), F("plain_text", "plainText", 2, "string", "one"),
                                   F("with2digits", "with2digits", 3, "int32", "one")>>)>>
       \* the value type of a map has an unwrap field AND another field
       [] c = "unwrapmapplus" -> <<Msg("Lp", FN(P, "Lp"), <<Ann(FRef("items", "items", 1, "message", "rep", ch), "unwrap", TRUE), F("cursor", "cursor", 2, "string", "one")>>),
                                   a(<<FMap("by_key", "byKey", 1, "string", "message", FN(P, "Lp")), F("sib_ling", "sibLing", 2, "string", "one")>>)>>
       \* a flattened child that has an annotated field of its own (one codec feature per message: see D_dup_marshaljson)
       [] c = "flattennullable" -> <<Msg("Contact", FN(P, "Contact"), <<Ann(F("nickname", "nickname", 1, "string", "opt"), "nullable", TRUE), F("email", "email", 2, "string", "one"),
                                                                      Ann(F("age", "age", 3, "int32", "opt"), "nullable", TRUE)>>),
                                     a(<<F("k", "k", 1, "string", "one"), Ann(Ann(FRef("contact", "contact", 2, "message", "one", FN(P, "Contact")), "flatten", TRUE), "prefix", "contact_")>>)>>
       \* unwrap fields whose Go name is not the UpperCamel of their JSON name (a digit after an underscore)
       [] c = "unwrapnames" -> <<Msg("Ld", FN(P, "Ld"), <<Ann(F("bars_1d", "bars1d", 1, "string", "rep"), "unwrap", TRUE)>>),
                                 a(<<FMap("px_1m", "px1m", 1, "string", "message", FN(P, "Ld")), F("top_10", "top10", 2, "int32", "one")>>)>>
       [] c = "unwraprootname" -> <<a(<<Ann(F("closes_24h", "closes24h", 1, "int64", "rep"), "unwrap", TRUE)>>)>>
       \* a message with a map-value unwrap field whose OTHER fields are of every kind
       [] c = "unwrapsiblings" -> <<Msg("L", FN(P, "L"), <<Ann(FRef("items", "items", 1, "message", "rep", ch), "unwrap", TRUE)>>),
                                    a(<<FMap("by_key", "byKey", 1, "string", "message", FN(P, "L")), F("n", "n", 2, "int64", "one"), FRef("e", "e", 3, "enum", "one", FN(P, "P")),
                                        F("b", "b", 4, "bytes", "one"), F("d", "d", 5, "double", "one"), FRef("t", "t", 6, "message", "one", TS),
                                        F("ns", "ns", 7, "uint64", "rep"), FMap("m", "m", 8, "string", "int64", ""), F("o", "o", 9, "int32", "opt"),
                                        FRef("es", "es", 10, "enum", "rep", FN(P, "P")), FRef("c", "c", 11, "message", "one", ch)>>)>>
       \* a discriminated oneof whose variants are scalars (and one message)
       [] c = "oneofscalars" -> <<MsgO("A", FN(P, "A"), <<F("k", "k", 1, "string", "one"), InOneof(F("text", "text", 2, "string", "one"), "value"),
                                     InOneof(F("number", "number", 3, "int64", "one"), "value"), InOneof(F("flag", "flag", 4, "bool", "one"), "value"),
                                     InOneof(FRef("c", "c", 5, "message", "one", ch), "value")>>, <<Oneof("value", TRUE, "kind", FALSE)>>)>>
       \* length rules on bytes fields count bytes, in every rendering (base64 is 4 characters per 3 bytes)
       [] c = "bytesrules" -> LET MaxL(f, n) == [f EXCEPT !.rules = [f.rules EXCEPT !.maxLen = n]]
                                  MinL(f, n) == [f EXCEPT !.rules = [f.rules EXCEPT !.minLen = n]] IN
                              <<a(<<MaxL(F("b", "b", 1, "bytes", "one"), 4), MinL(MaxL(Ann(F("h", "h", 2, "bytes", "one"), "bytes", "HEX"), 4), 2),
                                   MaxL(Ann(F("u", "u", 3, "bytes", "opt"), "bytes", "BASE64URL_RAW"), 8), MaxL(F("m", "m", 4, "bytes", "opt"), 4),
                                   F("s", "s", 5, "string", "one")>>)>>
       \* a flattened child that itself flattens one message type twice under two prefixes
       [] c = "flattentwice" -> <<Msg("Parties", FN(P, "Parties"), <<F("ref", "ref", 1, "string", "one"),
                                             Ann(Ann(FRef("billing", "billing", 2, "message", "one", ch), "flatten", TRUE), "prefix", "billing_"),
                                             Ann(Ann(FRef("shipping", "shipping", 3, "message", "one", ch), "flatten", TRUE), "prefix", "shipping_")>>),
                                  a(<<F("k", "k", 1, "string", "one"), Ann(FRef("c", "c", 2, "message", "one", FN(P, "Parties")), "flatten", TRUE)>>)>>
       \* every applicable annotation written out with its default value
       [] c = "explicit"   -> LET Ex(f) == Ann(f, "explicit", TRUE) IN
                              <<a(<<Ex(F("s", "s", 1, "string", "opt")), Ex(F("n", "n", 2, "int64", "one")), Ex(FRef("c", "c", 3, "message", "one", ch)),
                                   Ex(FRef("e", "e", 4, "enum", "one", FN(P, "P"))), Ex(F("b", "b", 5, "bytes", "one")), Ex(FRef("t", "t", 6, "message", "one", TS)),
                                   Ex(FMap("m", "m", 7, "int32", "string", "")), Ex(F("r", "r", 8, "string", "rep")), Ex(F("k", "k", 9, "int32", "opt")),
                                   Ex(FRef("oc", "oc", 10, "message", "opt", ch))>>)>>
       [] c = "plain"      -> <<a(<<F("s", "s", 1, "string", "one"), F("n", "n", 2, "int64", "one"), FRef("c", "c", 3, "message", "one", ch),
                                   FRef("e", "e", 4, "enum", "one", FN(P, "P")), F("b", "b", 5, "bytes", "one"), F("f", "f", 6, "double", "one"),
                                   FMap("m", "m", 7, "int32", "string", ""), F("r", "r", 8, "bool", "rep")>>)>>
Contexts == {"top", "child", "rep", "mapv", "oneofvar", "flatchild", "discvar", "unwrapsib", "nesteddecl", "nesteddecl_flat", "nesteddecl_top", "splitfiles"}
\* the top-level message W holding A in a context (for "top", the RPC message is A itself)
ContextMsgs(P, cx) ==
  LET an == FN(P, "A")
      w(fs) == Msg("W", FN(P, "W"), fs)
  IN CASE cx = "top"       -> <<>>
       [] cx = "child"     -> <<w(<<FRef("a", "a", 1, "message", "one", an), F("z", "z", 2, "string", "one")>>)>>
       [] cx = "rep"       -> <<w(<<FRef("items", "items", 1, "message", "rep", an)>>)>>
       [] cx = "mapv"      -> <<w(<<FMap("m", "m", 1, "string", "message", an)>>)>>
       [] cx = "oneofvar"  -> <<MsgO("W", FN(P, "W"), <<InOneof(FRef("a", "a", 1, "message", "one", an), "o"), InOneof(F("s", "s", 2, "string", "one"), "o")>>,
                                      <<Oneof("o", FALSE, "", FALSE)>>)>>
       [] cx = "flatchild" -> <<w(<<F("zz", "zz", 1, "string", "one"), Ann(FRef("a", "a", 2, "message", "one", an), "flatten", TRUE)>>)>>
       [] cx = "discvar"   -> <<MsgO("W", FN(P, "W"), <<InOneof(FRef("a", "a", 1, "message", "one", an), "o"), InOneof(FRef("b", "b", 2, "message", "one", FN(P, "Child2")), "o")>>,
                                      <<Oneof("o", TRUE, "kind", FALSE)>>)>>
       [] cx \in {"nesteddecl", "nesteddecl_flat", "nesteddecl_top", "splitfiles"} -> <<>>   \* (built in C05Case: A is DECLARED inside W)
       [] cx = "unwrapsib" -> <<Msg("UL", FN(P, "UL"), <<Ann(FRef("vals", "vals", 1, "message", "rep", FN(P, "Child")), "unwrap", TRUE)>>),
                                w(<<FMap("by_key", "byKey", 1, "string", "message", FN(P, "UL")), FRef("a", "a", 2, "message", "one", an)>>)>>
\* the construct's messages in their context; in the "nesteddecl" contexts the subject message A is a nested
\* declaration of W, a message that carries none of A's annotations itself (W.a holds it, flattened or not)
C05Msgs(P, c, cx) ==
  IF cx \notin {"nesteddecl", "nesteddecl_flat", "nesteddecl_top"} THEN ConstructMsgs(P, c) \o ContextMsgs(P, cx)
  ELSE LET cm == ConstructMsgs(P, c)
           nfull == FN(P, "W") \o ".A"
           aMsg == CHOOSE m \in Range(cm) : m.name = "A"
           others == SelectSeq(cm, LAMBDA m : m.name # "A")
           ref == FRef("a", "a", 2, "message", "one", nfull)
       IN others \o <<MsgN("W", FN(P, "W"),
                           <<F("zz", "zz", 1, "string", "one")>> \o
                           (IF cx = "nesteddecl_top" THEN <<>> ELSE <<IF cx = "nesteddecl_flat" THEN Ann(ref, "flatten", TRUE) ELSE ref>>),
                           <<[aMsg EXCEPT !.full = nfull]>>)>>
\* "splitfiles": the subject message A and the service in one file, every other message of the construct
\* (wrappers, children, enums) in a sibling file of the package - and every plugin invoked once per file
C05Split(P, c) ==
  LET cm == ConstructMsgs(P, c)
      others == SelectSeq(cm, LAMBDA m : m.name # "A")
      aMsg == SelectSeq(cm, LAMBDA m : m.name = "A")
      top == FN(P, "A")
  IN Schema(<<File(P \o "/parts.proto", Pkg(P), GoPkg(P), TRUE, <<>>, <<>>, <<Child(P), Child2(P)>> \o others, <<EnumE, EnumPlain>>),
              File(P \o "/svc.proto", Pkg(P), GoPkg(P), TRUE, <<P \o "/parts.proto">>,
                   <<Service("Early", TRUE, Parts(TRUE, <<Lit("early")>>, FALSE), <<Method("Peek", top, top, TRUE, Parts(TRUE, <<Lit("peek")>>, FALSE), "POST")>>),
                     Svc(P, <<Method("Do", top, top, TRUE, Parts(TRUE, <<Lit("do")>>, FALSE), "POST")>>)>>,
                   aMsg, <<>>)>>)
C05Case(P, c, cx) ==
  IF cx = "splitfiles" THEN C05Split(P, c) ELSE
  LET top == IF cx = "top" THEN FN(P, "A") ELSE IF cx = "nesteddecl_top" THEN FN(P, "W") \o ".A" ELSE FN(P, "W")
  \* (a second service, declared first, reaches the same message: the document of the service under test
  \* is then not the first one the OpenAPI plugin writes in the run, and must be complete all the same)
  IN Schema(<<File(P \o "/svc.proto", Pkg(P), GoPkg(P), TRUE, <<>>,
                   <<Service("Early", TRUE, Parts(TRUE, <<Lit("early")>>, FALSE), <<Method("Peek", top, top, TRUE, Parts(TRUE, <<Lit("peek")>>, FALSE), "POST")>>),
                     Svc(P, <<Method("Do", top, top, TRUE, Parts(TRUE, <<Lit("do")>>, FALSE), "POST")>>)>>,
                   <<Child(P), Child2(P)>> \o C05Msgs(P, c, cx), <<EnumE, EnumPlain>>)>>)
(***************************************************************************)
(* C06, parameters: ONE service whose request message has a URL-carried    *)
(* field for every (kind, cardinality, annotation) combination the rules   *)
(* accept - query parameters of every scalar kind as singular / optional / *)
(* repeated, enums (plain, with custom values, NUMBER-encoded), 64-bit     *)
(* integers with int64_encoding NUMBER, and a path variable per kind -      *)
(* reached by a GET and by a PUT.                                          *)
(***************************************************************************)
ParamCombos ==
     {<<k, c, "">> : k \in ScalarKinds \ {"bytes"}, c \in {"one", "opt", "rep"}}
  \cup {<<k, "one", "num">> : k \in Int64Kinds}
  \cup {<<"enum", "one", a>> : a \in {"", "custom", "num"}}
ParamName(t) == "q_" \o t[1] \o "_" \o t[2] \o (IF t[3] = "" THEN "" ELSE "_" \o t[3])
ParamField(P, t, num) ==
  LET n == ParamName(t)
      base == IF t[1] = "enum" THEN FRef(n, n, num, "enum", t[2], IF t[3] = "custom" THEN FN(P, "E") ELSE FN(P, "P"))
              ELSE F(n, n, num, t[1], t[2])
      q == Ann(base, "query", TRUE)
  IN CASE t[3] = "num" /\ t[1] = "enum" -> Ann(q, "enumEnc", "NUMBER")
       [] t[3] = "num" -> Ann(q, "int64", "NUMBER")
       [] OTHER -> q
C06ParamCase(P) ==
  LET cs == SetToSeq(ParamCombos)
      pk == SetToSeq(PathKinds)
      pv(i) == "p_" \o pk[i]
      qfs == [i \in DOMAIN cs |-> ParamField(P, cs[i], i)]
      pfs == [i \in DOMAIN pk |-> F(pv(i), pv(i), 100 + i, pk[i], "one")]
      segs == <<Lit("p")>> \o [i \in DOMAIN pk |-> Var(pv(i))]
      body == <<F("note", "note", 200, "string", "one")>>
      q == Msg("Q", FN(P, "Q"), qfs \o pfs)
      qb == Msg("Qb", FN(P, "Qb"), qfs \o pfs \o body)
  IN Schema(<<File(P \o "/svc.proto", Pkg(P), GoPkg(P), TRUE, <<>>,
                   <<Svc(P, <<Method("Get", FN(P, "Q"), FN(P, "Out"), TRUE, Parts(TRUE, segs, FALSE), "GET"),
                              Method("Put", FN(P, "Qb"), FN(P, "Out"), TRUE, Parts(TRUE, segs, FALSE), "PUT")>>)>>,
                   <<Out(P), q, qb>>, <<EnumE, EnumPlain>>)>>)

\* one annotated field (feature, kind, cardinality) as the RPC's message A
C05Single(P, t) ==
  LET f == AField(P, t[1], t[2], t[3], "a", 1)
      a == IF t[1] = "unwrap" THEN Msg("A", FN(P, "A"), <<f>>)
           ELSE Msg("A", FN(P, "A"), <<f, F("other_field", "otherField", 2, "string", "one")>>)
  IN Schema(<<File(P \o "/svc.proto", Pkg(P), GoPkg(P), TRUE, <<>>,
                   <<Svc(P, <<Method("Do", FN(P, "A"), FN(P, "A"), TRUE, Parts(TRUE, <<Lit("do")>>, FALSE), "POST")>>)>>,
                   <<Child(P), Child2(P), a>>, <<EnumE, EnumPlain>>)>>)
=============================================================================
