------------------------------ MODULE SebufCall ------------------------------
(***************************************************************************)
(* C01 / C08: one call through a generated client against a generated      *)
(* server, end to end.  The client's steps mirror generateRPCMethod:       *)
(*   Call ; BuildRequest (Sent) ; [server pipeline: HandlerSaw ; Resp] ;   *)
(*   MapResponse (Ret)                                                     *)
(* Values are canonical tokens per field (harness/val); the URL and body   *)
(* the client emits are abstracted by the harness back into per-field      *)
(* tokens (decoded and converted with independent strconv functions).      *)
(***************************************************************************)
EXTENDS Naturals, Sequences, FiniteSets, TLC

CONSTANT Dev
VARIABLES cpc, call, sentOK
cvars == <<cpc, call, sentOK>>

Range(s) == {s[i] : i \in DOMAIN s}
Tok(kvs, k) == IF \E p \in Range(kvs) : p.k = k THEN (CHOOSE p \in Range(kvs) : p.k = k).v ELSE "?absent"
BodyVerb(v) == v \in {"POST", "PUT", "PATCH"}
Binary(ct) == ct \in {"proto", "octet"}

\* call = [rpc : [name, verb, fields, pathVars, query : Seq([field, name, required])],
\*         value : Seq([k, v]), zero : Seq([k, v]), ctype, resp (token), handler ("ok" | "plain"),
\*         hdrs : Seq([k, v])]   -- header values the caller handed to the client through its options
\*                                 (k = the header name the servers validate, lower-cased)
Start(c) == /\ cpc \in {"idle", "returned"} /\ cpc' = "called" /\ call' = c /\ sentOK' = FALSE

\* what the client must put on the wire (contract)
SentMatches(c, s) ==
  /\ s.verb = c.rpc.verb
  /\ s.litsOK                                          \* literal segments of the template, in order
  /\ \A h \in Range(c.hdrs) : Tok(s.hdrVals, h.k) = h.v  \* C08: option value under exactly that header name
  /\ \A f \in Range(c.rpc.pathVars) : Tok(s.pathVals, f) = Tok(c.value, f)
  /\ (BodyVerb(c.rpc.verb) => /\ s.hasBody
                              /\ s.bodyDecodes
                              /\ \A f \in Range(c.rpc.fields) : Tok(s.bodyVals, f) = Tok(c.value, f)
                              /\ s.ctype = c.ctype)
  /\ (~BodyVerb(c.rpc.verb) =>
        \A q \in Range(c.rpc.query) :
           \/ Tok(s.queryVals, q.field) = Tok(c.value, q.field)
           \/ (~q.required /\ Tok(c.value, q.field) = Tok(c.zero, q.field) /\ Tok(s.queryVals, q.field) = "?absent"))

\* D_client_octet_json (known finding): a client configured with application/octet-stream sends JSON
\* bytes under that content type
DevSent(c, s) ==
  /\ "D_client_octet_json" \in Dev /\ c.ctype = "octet" /\ BodyVerb(c.rpc.verb)
  /\ s.verb = c.rpc.verb /\ s.litsOK /\ s.hasBody /\ s.ctype = "octet" /\ ~s.bodyDecodes

Sent(s) == /\ cpc = "called" /\ cpc' = "sent"
           /\ (SentMatches(call, s) /\ sentOK' = TRUE) \/ (DevSent(call, s) /\ sentOK' = FALSE)
           /\ UNCHANGED call

Saw(h) == /\ cpc = "sent" /\ sentOK /\ cpc' = "dispatched"
          /\ h.rpc = call.rpc.name                                        \* C01_SameRpc
          /\ \A f \in Range(call.rpc.fields) : Tok(h.vals, f) = Tok(call.value, f)   \* C01_ReqEq
          /\ UNCHANGED <<call, sentOK>>

Ret(r) == /\ cpc' = "returned" /\ UNCHANGED <<call, sentOK>>
          /\ \/ /\ cpc = "dispatched" /\ call.handler = "ok"
                /\ r.kind = "ok" /\ r.val = call.resp                      \* C01_RespEq
             \/ /\ cpc = "dispatched" /\ call.handler = "plain"
                /\ r.kind = "apiError" /\ r.message = "boom"              \* C10: client-side type of a handler error
             \/ /\ cpc = "sent" /\ ~sentOK /\ r.kind \in {"validationError", "apiError", "rawError"}   \* only under DevSent
=============================================================================
