------------------------------ MODULE Trace_Call ------------------------------
EXTENDS SebufCall, Json, TLCExt
CONSTANT TraceFile, Inventory
Tr == ndJsonDeserialize(TraceFile)
VARIABLE l
tvars == <<cvars, l>>
IsEvent(e) == l <= Len(Tr) /\ Tr[l].event = e /\ l' = l + 1
TInit == cpc = "idle" /\ call = [none |-> TRUE] /\ sentOK = FALSE /\ l = 1 /\ TLCSet(1, 1)
TCall == IsEvent("Call") /\ Start(Tr[l].call)
TSent == IsEvent("Sent") /\ Sent(Tr[l])
TSaw  == IsEvent("Saw") /\ Saw(Tr[l])
TRet  == IsEvent("Ret") /\ Ret(Tr[l])
\* server-side events of the same call that this spec does not constrain (SebufWire does)
TSkip == (IsEvent("BodyRead") \/ IsEvent("Resp")) /\ UNCHANGED cvars
\* C08: the emitted TypeScript modules of the call's services load on the runtime
TLoad == IsEvent("Load") /\ Tr[l].ok /\ UNCHANGED cvars
TNext == TCall \/ TSent \/ TSaw \/ TRet \/ TSkip \/ TLoad
TSpec == TInit /\ [][TNext]_tvars
HighWater == TLCSet(1, IF l > TLCGet(1) THEN l ELSE TLCGet(1))
Accepted == IF TLCGet(1) = Len(Tr) + 1 THEN TRUE ELSE PrintT(<<"TRACE_REJECTED_AT_LINE", TLCGet(1)>>) /\ FALSE
=============================================================================
