------------------------------ MODULE SebufRules ------------------------------
(***************************************************************************)
(* C19: the semantics of the supported buf.validate rules over ORDERED     *)
(* PROBE POSITIONS.  A probe is a concrete value built by the harness at   *)
(* a known position relative to every bound of the field's rules (below /  *)
(* at / above each numeric or length bound, member or not of "in", equal   *)
(* or not to "const", matching the pattern or not, item / pair count       *)
(* relative to the limits, with or without duplicates).  RuleAccepts says  *)
(* whether the rules accept a probe; the emitted OpenAPI constraints must  *)
(* accept exactly the same probes (the instrument, jsonschema, evaluates   *)
(* the real emitted field schema on the probe's JSON form).                *)
(***************************************************************************)
EXTENDS Integers, Sequences, FiniteSets

\* r = the rules record of the abstract schema (abs.Rules); p = positions record
RuleAccepts(r, p) ==
  /\ (r.gt # ""  => p.gt = "above")
  /\ (r.gte # "" => p.gte \in {"at", "above"})
  /\ (r.lt # ""  => p.lt = "below")
  /\ (r.lte # "" => p.lte \in {"below", "at"})
  /\ (Len(r.in) > 0 => p.inSet)
  /\ (r.hasConst => p.eqConst)
  /\ (r.minLen >= 0 => p.minLen \in {"at", "above"})
  /\ (r.maxLen >= 0 => p.maxLen \in {"below", "at"})
  /\ (r.pattern # "" => p.matches)
  /\ (r.minItems >= 0 => p.minItems \in {"at", "above"})
  /\ (r.maxItems >= 0 => p.maxItems \in {"below", "at"})
  /\ (r.unique => ~p.dups)
  /\ (r.minPairs >= 0 => p.minPairs \in {"at", "above"})
  /\ (r.maxPairs >= 0 => p.maxPairs \in {"below", "at"})

\* well-known string formats are published under the matching format name
FormatName(f) == CASE f = "email" -> "email" [] f = "uuid" -> "uuid" [] f = "uri" -> "uri" [] f = "hostname" -> "hostname"
                   [] f = "ipv4" -> "ipv4" [] f = "ipv6" -> "ipv6" [] OTHER -> ""

Int64Kinds == {"int64", "uint64", "sint64", "fixed64", "sfixed64"}
UnsignedKinds == {"uint32", "uint64", "fixed32", "fixed64"}
NumericRule(r) == r.gt # "" \/ r.gte # "" \/ r.lt # "" \/ r.lte # "" \/ (r.hasConst /\ ~r.isString) \/ (Len(r.in) > 0 /\ ~r.isString)

\* e = a Probe event: [what, kind, card, rules, pos, schemaAccepts, required, listed, format, published]
ProbeHow(e, dev) ==
  CASE e.what = "value" ->
         IF RuleAccepts(e.rules, e.pos) = e.schemaAccepts THEN "ok"
         \* (bounds only: const / in of a string-encoded 64-bit integer are published as strings)
         ELSE IF "D_rules_numeric_on_string_int64" \in dev /\ e.kind \in Int64Kinds /\ e.int64AsString
                 /\ (e.rules.gt # "" \/ e.rules.gte # "" \/ e.rules.lt # "" \/ e.rules.lte # "") THEN "D_rules_numeric_on_string_int64"
         ELSE IF "D_rules_other_int_kinds" \in dev /\ e.kind \in {"uint32", "uint64", "sint32", "sint64", "fixed32", "fixed64", "sfixed32", "sfixed64"}
              THEN "D_rules_other_int_kinds"
         ELSE IF "D_rules_exclusive_bounds" \in dev /\ (e.rules.gt # "" \/ e.rules.lt # "") THEN "D_rules_exclusive_bounds"
         ELSE IF "D_rules_float_precision" \in dev /\ e.bigBound THEN "D_rules_float_precision"
         ELSE IF "D_rules_yaml_scalars" \in dev /\ e.numericLooking THEN "D_rules_yaml_scalars"
         ELSE "constraint_mismatch"
    [] e.what = "required" -> IF e.required = e.listed THEN "ok" ELSE "required_mismatch"
    [] e.what = "format" -> IF FormatName(e.format) # "" /\ e.published = FormatName(e.format) THEN "ok"
                            ELSE IF FormatName(e.format) = "" THEN "ok" ELSE "format_mismatch"
    [] OTHER -> "unknown_probe"
=============================================================================
