------------------------------ MODULE Trace_Json ------------------------------
(***************************************************************************)
(* Trace validation for C04 / C05.  "Schema" selects the abstract schema;  *)
(*   Form   : a value and the JSON the real server (or codec) produced     *)
(*            for it -> must be Enc(schema, value)                   (C05) *)
(*   Accept : a value, sent in its contract form, and what the handler     *)
(*            saw / the codec decoded -> Norm(value)                 (C05) *)
(*   Round  : a value and what decoding the emitted encoding of it gave    *)
(*            back -> Norm(value)                                    (C04) *)
(***************************************************************************)
EXTENDS SebufJson, Json, TLCExt

CONSTANT TraceFile
CONSTANT Enforce          \* subset of {"C04", "C05"}
CONSTANT Inventory        \* TRUE: judge every line, print the verdict, never block
CONSTANT Expect           \* TRUE: also print the contract form Enc(schema, value) of every "Form" line with want = TRUE
Tr == ndJsonDeserialize(TraceFile)

VARIABLES l, sl
tvars == <<l, sl>>
schema == IF sl = 0 THEN [files |-> <<>>] ELSE Tr[sl].schema

IsEvent(e) == l <= Len(Tr) /\ Tr[l].event = e /\ l' = l + 1

TInit == l = 1 /\ sl = 0 /\ TLCSet(1, 1)
TSchema == IsEvent("Schema") /\ sl' = l

\* Every line is judged and the verdict printed (<<"VERDICT", line, ok, how>>); in Inventory mode
\* nothing blocks, otherwise a line that is not ok stops the trace there.
Say(ok, how) == PrintT(<<"VERDICT", l, ok, how>>) /\ (Inventory \/ ok)

Top(e) == e.val.type
\* the server applies the (buf.validate) rules of the message: a value that breaks a required rule is
\* not one it accepts or sends, so its JSON form is not at stake there (codecs do not look at rules)
RuleRefuses(e) == e.server /\ ~SatisfiesRules(schema, e.val)
FormHow(e) ==
  IF RuleRefuses(e) THEN "not_an_accepted_value"
  ELSE IF e.ok /\ Canon(e.json) = Enc(schema, e.val) THEN "contract"
  ELSE IF "D_flatten_of_root_unwrap" \in Dev /\ FlattenOfRootUnwrap(schema, Top(e)) THEN "D_flatten_of_root_unwrap"
  ELSE IF "D_nested_codec_ignored" \in Dev /\ NestedAnnotated(schema, Top(e)) /\ e.ok /\ Canon(e.json) = EncPlainNested(schema, e.val)
       THEN "D_nested_codec_ignored"
  ELSE IF "D_unwrap_empty_as_null" \in Dev /\ e.ok /\ Canon(e.json) = EncVariant(schema, e.val, FALSE, TRUE) THEN "D_unwrap_empty_as_null"
  ELSE IF "D_unwrap_empty_as_null" \in Dev /\ "D_nested_codec_ignored" \in Dev /\ NestedAnnotated(schema, Top(e)) /\ e.ok
          /\ Canon(e.json) = EncVariant(schema, e.val, TRUE, TRUE) THEN "D_nested_codec_ignored"
  ELSE IF "D_enum_annotations_ignored" \in Dev /\ EnumAnnotated(schema, Top(e)) THEN "D_enum_annotations_ignored"
  ELSE IF "D_stdjson_children" \in Dev /\ StdJsonOnPath(schema, Top(e)) THEN "D_stdjson_children"
  ELSE IF "D_int64_number_on_map_ignored" \in Dev
          /\ \E n \in Reach(schema, {Top(e)}, {}) : \E f \in Range(MsgByName(schema, n).fields) : f.card = "map" /\ f.ann.int64 = "NUMBER"
       THEN "D_int64_number_on_map_ignored"
  ELSE IF "D_client_no_unwrap" \in Dev /\ e.client
          /\ \E n \in Reach(schema, {Top(e)}, {}) : HasUnwrap(MsgByName(schema, n)) \/ UnwrapContainer(schema, MsgByName(schema, n))
       THEN "D_client_no_unwrap"
  ELSE "none"
RoundHow(e) ==
  IF RuleRefuses(e) THEN "not_an_accepted_value"
  ELSE IF e.ok /\ RoundTripOK(schema, e.val, e.back) THEN "contract"
  ELSE IF "D_flatten_of_root_unwrap" \in Dev /\ FlattenOfRootUnwrap(schema, Top(e)) THEN "D_flatten_of_root_unwrap"
  ELSE IF "D_flatten_empty_child_presence" \in Dev /\ e.ok /\ RoundTripFlatLossOK(schema, e.val, e.back) THEN "D_flatten_empty_child_presence"
  \* encoding/json children: the contract form of such children is not what the codecs read (foreign);
  \* a codec reading its own output must still bring back the skeleton (presence, oneof member, the
  \* message's other fields)
  ELSE IF "D_stdjson_children" \in Dev /\ StdJsonOnPath(schema, Top(e)) /\ (e.foreign \/ (e.ok /\ RoundTripSkelOK(schema, e.val, e.back)))
       THEN "D_stdjson_children"
  ELSE IF "D_nested_codec_ignored" \in Dev /\ NestedAnnotated(schema, Top(e)) /\ e.foreign THEN "D_nested_codec_ignored"
  ELSE IF "D_enum_annotations_ignored" \in Dev /\ EnumAnnotated(schema, Top(e)) /\ e.foreign THEN "D_enum_annotations_ignored"
  ELSE IF "D_client_no_unwrap" \in Dev /\ e.client /\ \E n \in Reach(schema, {Top(e)}, {}) : HasUnwrap(MsgByName(schema, n)) THEN "D_client_no_unwrap"
  ELSE "none"

TForm == /\ IsEvent("Form")
         /\ (Expect /\ Tr[l].want) => PrintT(<<"EXPECT", l, ToJson(Enc(schema, Tr[l].val))>>)
         /\ "C05" \in Enforce => LET h == FormHow(Tr[l]) IN Say(h # "none", h)
         /\ UNCHANGED sl
TAccept == /\ IsEvent("Accept")
           /\ "C05" \in Enforce => LET h == RoundHow(Tr[l]) IN Say(h # "none", h)
           /\ UNCHANGED sl
TRound == /\ IsEvent("Round")
          /\ "C04" \in Enforce => LET h == RoundHow(Tr[l]) IN Say(h # "none", h)
          /\ UNCHANGED sl

TNext == TSchema \/ TForm \/ TAccept \/ TRound
TSpec == TInit /\ [][TNext]_tvars

HighWater == TLCSet(1, IF l > TLCGet(1) THEN l ELSE TLCGet(1))
Accepted == IF TLCGet(1) = Len(Tr) + 1 THEN TRUE
            ELSE /\ PrintT(<<"TRACE_REJECTED_AT_LINE", TLCGet(1)>>)
                 /\ FALSE
=============================================================================
