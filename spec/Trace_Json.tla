------------------------------ MODULE Trace_Json ------------------------------
(***************************************************************************)
(* Trace validation for C04 / C05.  "Schema" selects the abstract schema;  *)
(*   Form   : a value and the JSON the real server (or codec) produced     *)
(*            for it -> must be Enc(schema, value)                   (C05) *)
(*   Accept : a value, sent in its contract form, and what the handler     *)
(*            saw / the codec decoded -> Norm(value)                 (C05) *)
(*   Round  : a value and what decoding the emitted encoding of it gave    *)
(*            back -> Norm(value)                                    (C04) *)
(***************************************************************************)
EXTENDS SebufJson, Json, TLCExt

CONSTANT TraceFile
CONSTANT Enforce          \* subset of {"C04", "C05"}
Tr == ndJsonDeserialize(TraceFile)

VARIABLES l, sl
tvars == <<l, sl>>
schema == IF sl = 0 THEN [files |-> <<>>] ELSE Tr[sl].schema

IsEvent(e) == l <= Len(Tr) /\ Tr[l].event = e /\ l' = l + 1

TInit == l = 1 /\ sl = 0 /\ TLCSet(1, 1)
TSchema == IsEvent("Schema") /\ sl' = l

TForm == /\ IsEvent("Form")
         /\ "C05" \in Enforce => (Tr[l].ok /\ FormOK(schema, Tr[l].val, Tr[l].json))
         /\ UNCHANGED sl
TAccept == /\ IsEvent("Accept")
           /\ "C05" \in Enforce => (Tr[l].ok /\ RoundTripOK(schema, Tr[l].val, Tr[l].back))
           /\ UNCHANGED sl
TRound == /\ IsEvent("Round")
          /\ "C04" \in Enforce => (Tr[l].ok /\ RoundTripOK(schema, Tr[l].val, Tr[l].back))
          /\ UNCHANGED sl

TNext == TSchema \/ TForm \/ TAccept \/ TRound
TSpec == TInit /\ [][TNext]_tvars

HighWater == TLCSet(1, IF l > TLCGet(1) THEN l ELSE TLCGet(1))
Accepted == IF TLCGet(1) = Len(Tr) + 1 THEN TRUE
            ELSE /\ PrintT(<<"TRACE_REJECTED_AT_LINE", TLCGet(1)>>)
                 /\ FALSE
=============================================================================
