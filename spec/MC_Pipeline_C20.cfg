SPECIFICATION Spec
CONSTANTS
  Dev = {}
  Enforce = {"C12", "C14", "C15", "C16"}
  Family = "C20"
  Export = FALSE
INVARIANTS
  FamilyIntent
  C12_Reject
  C12_Accept
  C15_Pure
  C14_SameNamesSameBytes
CHECK_DEADLOCK FALSE
