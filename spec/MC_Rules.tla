------------------------------- MODULE MC_Rules -------------------------------
(***************************************************************************)
(* C19 family: rule kind x field kind x bound class.  TLC enumerates the   *)
(* abstract cases (the harness concretises the bounds with big integers    *)
(* and builds probes below / at / above every bound) and checks the truth  *)
(* table of RuleAccepts over ALL position vectors: each single rule        *)
(* accepts exactly the documented side of its bound and the conjunction    *)
(* of rules is monotone (adding a rule never accepts more).                *)
(***************************************************************************)
EXTENDS SebufRules, TLC, Json

CONSTANT Export
VARIABLES fv, pc
vars == <<fv, pc>>

NumKinds == {"int32", "int64", "uint32", "uint64", "sint32", "sint64", "fixed32", "fixed64", "sfixed32", "sfixed64", "float", "double"}
NumRules == {"gt", "gte", "lt", "lte", "gt_lt", "gte_lte", "gte_lte_eq", "in", "const"}
\* inexact: a bound like 0.1 that no binary float holds exactly (what is published must be the shortest
\* text that reads back as the field's own value, or float fields lose their own bound)
BoundClasses == {"neg", "zero", "small", "big53", "extreme", "inexact"}
StrRules == {"minLen", "maxLen", "len_range", "pattern", "in", "const", "in_numeric_looking", "email", "uuid", "uri", "hostname", "ipv4", "ipv6", "required"}
RepRules == {"minItems", "maxItems", "items_range", "unique"}
MapRules == {"minPairs", "maxPairs"}

Cases == {[group |-> "num", rule |-> r, kind |-> k, bclass |-> b, enc |-> e] :
             r \in NumRules, k \in NumKinds, b \in BoundClasses, e \in {"default", "int64_number"}}
         \cup {[group |-> "str", rule |-> r, kind |-> "string", bclass |-> "small", enc |-> "default"] : r \in StrRules}
         \cup {[group |-> "rep", rule |-> r, kind |-> k, bclass |-> "small", enc |-> "default"] : r \in RepRules, k \in {"string", "int32"}}
         \cup {[group |-> "map", rule |-> r, kind |-> "string", bclass |-> "small", enc |-> "default"] : r \in MapRules}
         \* "required" on every shape of field: singular, proto3 optional, repeated, map, message, enum, member of a oneof
         \cup {[group |-> "req", rule |-> sh, kind |-> k, bclass |-> "small", enc |-> "default"] :
                  sh \in {"one", "opt", "rep", "map", "oneof_member"}, k \in {"string", "int32", "int64", "bytes", "message", "enum"}}
         \* ... and fields of those shapes WITHOUT the rule (they must not be listed)
         \cup {[group |-> "notreq", rule |-> sh, kind |-> k, bclass |-> "small", enc |-> "default"] :
                  sh \in {"opt", "oneof_member"}, k \in {"string", "message"}}
\* combinations that cannot exist (negative bounds on unsigned kinds, >2^53 on 32-bit kinds, number
\* encoding of non-64-bit kinds) are pruned here, not in the harness
Exists(c) ==
  /\ (c.bclass = "neg" => c.kind \notin UnsignedKinds)
  /\ (c.bclass = "big53" => c.kind \in Int64Kinds \cup {"double"})
  /\ (c.enc = "int64_number" => c.kind \in Int64Kinds)
  /\ (c.bclass = "inexact" => c.kind \in {"float", "double"})

Init == fv \in {c \in Cases : Exists(c)} /\ pc = "new"
Next == /\ pc = "new" /\ pc' = "done" /\ UNCHANGED fv
        /\ (Export => PrintT(<<"CASE", ToJson(fv)>>))
Spec == Init /\ [][Next]_vars

Pos3 == {"below", "at", "above"}
NoRules == [required |-> FALSE, minLen |-> -1, maxLen |-> -1, pattern |-> "", format |-> "", hasConst |-> FALSE, const |-> "",
            in |-> <<>>, gt |-> "", gte |-> "", lt |-> "", lte |-> "", minItems |-> -1, maxItems |-> -1, unique |-> FALSE,
            minPairs |-> -1, maxPairs |-> -1]
P0 == [gt |-> "at", gte |-> "at", lt |-> "at", lte |-> "at", inSet |-> FALSE, eqConst |-> FALSE, minLen |-> "at", maxLen |-> "at",
       matches |-> FALSE, minItems |-> "at", maxItems |-> "at", dups |-> TRUE, minPairs |-> "at", maxPairs |-> "at"]
\* truth table of the single numeric rules
TruthTable ==
  /\ \A p \in Pos3 : RuleAccepts([NoRules EXCEPT !.gt = "b"], [P0 EXCEPT !.gt = p]) = (p = "above")
  /\ \A p \in Pos3 : RuleAccepts([NoRules EXCEPT !.gte = "b"], [P0 EXCEPT !.gte = p]) = (p # "below")
  /\ \A p \in Pos3 : RuleAccepts([NoRules EXCEPT !.lt = "b"], [P0 EXCEPT !.lt = p]) = (p = "below")
  /\ \A p \in Pos3 : RuleAccepts([NoRules EXCEPT !.lte = "b"], [P0 EXCEPT !.lte = p]) = (p # "above")
  /\ \A p \in Pos3 : RuleAccepts([NoRules EXCEPT !.minLen = 3], [P0 EXCEPT !.minLen = p]) = (p # "below")
  /\ \A p \in Pos3 : RuleAccepts([NoRules EXCEPT !.maxItems = 3], [P0 EXCEPT !.maxItems = p]) = (p # "above")
  /\ \A d \in BOOLEAN : RuleAccepts([NoRules EXCEPT !.unique = TRUE], [P0 EXCEPT !.dups = d]) = ~d
  /\ RuleAccepts(NoRules, P0)
\* a range is the conjunction of its two bounds
Conjunction ==
  \A a, b \in Pos3 : RuleAccepts([NoRules EXCEPT !.gt = "lo", !.lt = "hi"], [P0 EXCEPT !.gt = a, !.lt = b]) = (a = "above" /\ b = "below")
=============================================================================
