SPECIFICATION Spec
CONSTANTS
  Export = FALSE
INVARIANTS
  TruthTable
  Conjunction
CHECK_DEADLOCK FALSE
