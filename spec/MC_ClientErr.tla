---------------------------- MODULE MC_ClientErr ----------------------------
(***************************************************************************)
(* Family of responses a client may meet: status x body kind x encoding x  *)
(* client language; checks that the contract mapping is total and          *)
(* deterministic on it (every response class has exactly one admissible    *)
(* outcome shape) and exports the classes for replay against the real      *)
(* emitted Go and TS clients.                                              *)
(***************************************************************************)
EXTENDS SebufClientErr, Json
CONSTANT Export
VARIABLES fv, done
mvars == <<fv, done>>

Statuses == {200, 204, 301, 400, 401, 404, 418, 500, 503}
\* ve: ValidationError with violations (header names / dotted paths); ve0: ValidationError without
\* violations; err: sebuf Error; custom: another proto message; text / html / empty: not protobuf;
\* trunc / wrongtype / deep / badutf8 / null / array / bignum: malformed documents (C11);
\* space / newline / crlf: whitespace-only bodies (what http.Error(w, "", code) and many gateways send)
Bodies == {"ve", "ve0", "err", "custom", "text", "html", "empty", "trunc", "wrongtype", "deep", "badutf8", "null", "array", "bignum", "randombytes",
           "space", "newline", "crlf"}
Ctypes == {"json", "proto", "texthtml", "none", "jsoncharset"}
Langs == {"go", "ts"}
Family == {c \in {[status |-> s, body |-> b, ctype |-> ct, lang |-> lg] : s \in Statuses, b \in Bodies, ct \in Ctypes, lg \in Langs} :
             /\ (c.lang = "ts" => c.ctype # "proto")               \* the TS client speaks JSON only
             /\ (c.status \in {204, 301} => c.body \in {"empty", "text", "ve"})}

\* the abstract response of a class and the contract outcome for it
RespOf(c) == [status |-> c.status,
              ve |-> [ok |-> c.body \in {"ve", "ve0"} /\ c.ctype \in {"json", "proto", "jsoncharset", "none"},
                      viol |-> IF c.body = "ve" THEN <<<<"X-API-Key", "required header is missing">>, <<"user.email", "must be a valid email">>>> ELSE <<>>],
              err |-> [ok |-> c.body = "err", msg |-> IF c.body = "err" THEN "boom" ELSE ""],
              raw |-> IF c.ctype # "proto" /\ c.body \notin {"empty", "badutf8", "randombytes"} THEN "TEXT" ELSE ""]   \* (whitespace is text too)
ContractRet(c) ==
  LET r == RespOf(c) IN
  IF Success(r.status) THEN [kind |-> "ok", viol |-> <<>>, status |-> 0, message |-> "", body |-> ""]
  ELSE IF IsVE(r) THEN [kind |-> "validationError", viol |-> r.ve.viol, status |-> 400, message |-> "", body |-> ""]
  ELSE [kind |-> "apiError", viol |-> <<>>, status |-> r.status, message |-> r.err.msg, body |-> r.raw]

Init == fv \in Family /\ done = FALSE
Next == ~done /\ done' = TRUE /\ (Export => PrintT(<<"CASE", ToJson(fv)>>)) /\ UNCHANGED fv
Spec == Init /\ [][Next]_mvars
\* the contract client satisfies both clauses on every class
ContractOK == C10_ClientMaps(RespOf(fv), ContractRet(fv)) /\ C11_ClientTotal(RespOf(fv), ContractRet(fv))
\* and a client that drops the status, reorders violations or panics does not
Discriminates ==
  LET r == RespOf(fv) x == ContractRet(fv) IN
  /\ ~C11_ClientTotal(r, [x EXCEPT !.kind = "panic"])
  /\ (~Success(r.status) /\ ~IsVE(r)) => ~C10_ClientMaps(r, [x EXCEPT !.status = 0])
  /\ IsVE(r) => ~C10_ClientMaps(r, [x EXCEPT !.viol = <<x.viol[2], x.viol[1]>>])
=============================================================================
