SPECIFICATION TSpec
CONSTANTS
  TraceFile = "trace.ndjson"
CONSTRAINT HighWater
POSTCONDITION Accepted
CHECK_DEADLOCK FALSE
