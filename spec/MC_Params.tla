------------------------------ MODULE MC_Params ------------------------------
(***************************************************************************)
(* C06, parameter half: the family schema (SebufFamilies!C06ParamCase) is  *)
(* checked against the rule inventory (it breaks none) and exported for    *)
(* the replay: the real clients send values of every URL-carried field,    *)
(* and every value sent must validate against the schema the real OpenAPI  *)
(* document declares for that parameter (Trace_OpenApi!TParam).            *)
(***************************************************************************)
EXTENDS SebufFamilies, Json

CONSTANT Export
VARIABLES pc
Build == C06ParamCase("PFX")

Init == pc = "new"
Load == /\ pc = "new" /\ pc' = "loaded"
        /\ (Export => PrintT(<<"CASE", ToJson([fv |-> [kind |-> "c06p"], schema |-> Build, domain |-> TRUE])>>))
Spec == Init /\ [][Load]_pc

FamilyValid == Violations(Build) = {}
\* every URL-carried field of the family is a query parameter or a path variable of both RPCs
AllBound == LET s == Build
                sv == s.files[1].services[1]
            IN \A i \in DOMAIN sv.methods :
                 LET me == sv.methods[i] in == MsgByName(s, me.in)
                 IN \A f \in Range(in.fields) : f.name # "note" => (f.ann.query \/ f.name \in PathVars(me))
=============================================================================
