SPECIFICATION Spec
CONSTANTS
  Dev = {}
  Export = FALSE
INVARIANTS
  FamilyValid
  EncTotal
CHECK_DEADLOCK FALSE
