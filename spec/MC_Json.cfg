SPECIFICATION Spec
CONSTANTS
  Dev = {}
  Export = FALSE
INVARIANTS
  FamilyValid
  EncTotal
  PlainTotal
CHECK_DEADLOCK FALSE
