------------------------------ MODULE MC_Routes ------------------------------
(***************************************************************************)
(* Exhaustive configuration for C03: every (base_path, package naming)     *)
(* service of the family; each generator publishes the documented route    *)
(* (or, under a deviation, what the code derives); C03_Agree and           *)
(* C03_OneOp are invariants.  Cases are exported for the replay.           *)
(***************************************************************************)
EXTENDS SebufRoutes, SebufFamilies, Json

CONSTANT Export

VARIABLES fv, pc, schema, published
vars == <<fv, pc, schema, published>>

Cases == {[base |-> b, pkgDiff |-> pd] : b \in Bases, pd \in BOOLEAN}
Build(c) == C03Case("PFX", c.base, c.pkgDiff)

TheSvc == schema.files[1].services[1]

\* the route generator g derives for method me: the documented one, with a generator-specific
\* default segment when the documentation leaves the spelling open
Derived(g, sv, me) ==
  LET dflt == IF "D_default_route_split" \in Dev THEN "default:" \o g \o ":" \o me.name ELSE "default:" \o me.name
      segs == IF HasPath(me) THEN DocSegs(sv, me)
              ELSE IF sv.hasBase THEN sv.baseParts.segs \o <<Lit(dflt)>> ELSE <<Lit("pkg"), Lit(dflt)>>
  IN [verb |-> VerbOf(me), segs |-> segs, trail |-> DocTrail(sv, me), placement |-> Placement(schema, me)]

Init == fv \in Cases /\ pc = "new" /\ schema = [files |-> <<>>] /\ published = <<>>

Load == /\ pc = "new" /\ pc' = "loaded" /\ schema' = Build(fv) /\ published' = <<>>
        /\ (Export => PrintT(<<"CASE", ToJson([fv |-> fv, schema |-> Build(fv), domain |-> TRUE])>>))
        /\ UNCHANGED fv

Publish(g) == /\ pc = "loaded" /\ g \notin DOMAIN published
              /\ published' = [x \in DOMAIN published \cup {g} |->
                                 IF x = g THEN [i \in 1..Len(TheSvc.methods) |-> Derived(g, TheSvc, TheSvc.methods[i])] ELSE published[x]]
              /\ UNCHANGED <<fv, pc, schema>>

Next == Load \/ \E g \in Gens : Publish(g)
Spec == Init /\ [][Next]_vars

C03_Agree == \A g1, g2 \in DOMAIN published : \A i \in DOMAIN published[g1] : Agree(published[g1][i], published[g2][i])
C03_Documented == \A g \in DOMAIN published : \A i \in DOMAIN published[g] :
                     MatchesDocumented(schema, TheSvc, TheSvc.methods[i], published[g][i])
\* two RPCs of a service never resolve to the same <<path, verb>> (else one operation would overwrite the other)
C03_OneOp == \A g \in DOMAIN published : \A i, j \in DOMAIN published[g] :
                i # j => <<published[g][i].verb, published[g][i].segs, published[g][i].trail>>
                         # <<published[g][j].verb, published[g][j].segs, published[g][j].trail>>
FamilyValid == pc = "loaded" => Violations(schema) = {}
=============================================================================
