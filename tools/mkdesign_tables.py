#!/usr/bin/env python3
"""Rewrites the generated tables of DESIGN.md (between <!-- BEGIN:x --> / <!-- END:x --> markers)
from known_findings.json and seeded/*/meta.json, so the document cannot drift from the data."""
import json, os, glob, re, subprocess
ROOT = os.path.dirname(os.path.dirname(os.path.abspath(__file__)))
k = json.load(open(os.path.join(ROOT, 'known_findings.json')))['findings']
def cell(s): return str(s).replace('|', '\\|').replace('\n', ' ')
def short(s, n=230): s = cell(s); return s if len(s) <= n else s[:n-1] + '…'
fixed = [e for e in k if e['status'].startswith('fixed')]
openf = [e for e in k if e['status'] == 'open']
t1 = ['| commit | property | finding | what failed (guard → instead) |', '|---|---|---|---|']
for e in fixed:
    c = e['status'].split(':')[1].strip()
    t1.append('| `%s` | %s | %s | %s → %s |' % (c, ', '.join([e['property']] + e.get('also', [])), e['id'], short(e['guard'], 200), short(e['instead'], 260)))
t2 = ['| property | finding | guard (spec terms) | what the code does instead |', '|---|---|---|---|']
for e in sorted(openf, key=lambda e: e['property']):
    t2.append('| %s | %s | %s | %s |' % (', '.join([e['property']] + e.get('also', [])), e['id'], short(e['guard'], 220), short(e['instead'], 300)))
t3 = ['| seeded change | property | needs, to manifest | caught at first run? |', '|---|---|---|---|']
for d in sorted(glob.glob(os.path.join(ROOT, 'seeded', '*', 'meta.json'))):
    m = json.load(open(d))
    t3.append('| %s | %s | %s | %s |' % (m['id'], m['breaks_property'], short(m['needs_to_manifest'], 260), short(m['detected_by_check_at_first_run'], 300)))
tables = {'fixed': '\n'.join(t1), 'open': '\n'.join(t2), 'seeds': '\n'.join(t3)}
p = os.path.join(ROOT, 'DESIGN.md')
s = open(p).read()
for name, body in tables.items():
    s, n = re.subn(r'(<!-- BEGIN:%s -->\n).*?(<!-- END:%s -->)' % (name, name), lambda m: m.group(1) + body + '\n' + m.group(2), s, flags=re.S)
    if n != 1: print('marker', name, 'not found')
open(p, 'w').write(s)
print(len(fixed), 'fixed,', len(openf), 'open,', len(t3) - 2, 'seeds')
