#!/bin/bash
# store_seed.sh <worktree> <dest-name>: copy the agent's patch, demo and README into seeded/<dest-name>
WT=$1; D=/verif/seeded/$2
mkdir -p "$D"
cp "$WT/SEED/patch.diff" "$D/patch.diff"
cp -r "$WT/SEED/demo" "$D/demo"
cp "$WT/SEED/README.md" "$D/AGENT_README.md" 2>/dev/null
find "$D/demo" -name 'work_*' -prune -exec rm -rf {} +
ls "$D"
