#!/usr/bin/env python3
# Instrument for C19: JSON Schema Draft 2020-12 validation (jsonschema) of probe instances against
# the real emitted field schema. stdin: one JSON object per line {"id", "schema", "instance"};
# stdout: {"id", "valid", "error"} per line.
import sys, json
import jsonschema
for line in sys.stdin:
    line = line.strip()
    if not line:
        continue
    r = json.loads(line)
    try:
        v = jsonschema.Draft202012Validator(r["schema"])
        errs = list(v.iter_errors(r["instance"]))
        print(json.dumps({"id": r["id"], "valid": not errs, "error": errs[0].message[:120] if errs else ""}))
    except Exception as e:  # an unusable schema is an observation, not a crash
        print(json.dumps({"id": r["id"], "valid": False, "error": "schema error: " + str(e)[:120]}))
