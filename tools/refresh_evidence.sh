#!/bin/bash
# refresh_evidence.sh: run every quick check against the unchanged /repo so that the committed evidence
# files describe such a run (never one made with a seeded change applied).
cd /verif
git -C /repo status --porcelain | grep -q . && { echo "/repo not clean"; exit 2; }
export VERIF_SEED=${VERIF_SEED:-1} VERIF_TIER=quick
fail=0
for p in C01 C02 C03 C04 C05 C06 C07 C08 C09 C10 C11 C12 C13 C14 C15 C16 C17 C18 C19 C20; do
  rm -f evidence/$p.json
  ./check $p > /tmp/refresh_$p.log 2>&1; rc=$?
  v=$(grep -c '^VIOLATION' /tmp/refresh_$p.log)
  echo "$p rc=$rc violations=$v $(grep -E 'PASS|BROKEN' /tmp/refresh_$p.log | tail -1 | cut -c1-80)"
  [ $rc -ne 0 -o $v -ne 0 ] && fail=1
done
find /verif/replays -type f -delete
exit $fail
