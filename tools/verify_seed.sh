#!/bin/bash
# verify_seed.sh <worktree> <demo go test args...>
# Confirms a seeded change: builds, keeps the baseline pass set, demo fails with it and passes without.
export GOFLAGS=-mod=mod GOPROXY=off GOTOOLCHAIN=auto GOWORK=off
WT=$1; shift
cd "$WT" || exit 2
git diff --quiet && { echo "no change applied in $WT"; exit 2; }
go build ./... || { echo "BUILD FAILS with change"; exit 1; }
echo "build ok"
/verif/tools/baseline.sh "$WT" | head -3
echo "--- demo WITH change (expected to fail)"
go test -vet=off -count=1 "$@" > /tmp/seed_demo_with.log 2>&1; rc_with=$?
tail -3 /tmp/seed_demo_with.log
# (no git stash: the stash is shared by all worktrees of the repository)
git diff > /tmp/verify_seed_$$.diff
git apply -R /tmp/verify_seed_$$.diff
echo "--- demo WITHOUT change (expected to pass)"
go test -vet=off -count=1 "$@" > /tmp/seed_demo_without.log 2>&1; rc_without=$?
tail -3 /tmp/seed_demo_without.log
git apply /tmp/verify_seed_$$.diff; rm -f /tmp/verify_seed_$$.diff
echo "rc_with=$rc_with rc_without=$rc_without"
[ $rc_with -ne 0 ] && [ $rc_without -eq 0 ] && echo "SEED CONFIRMED" || echo "SEED NOT CONFIRMED"
