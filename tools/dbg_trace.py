#!/usr/bin/env python3
# usage: dbg_trace.py trace.ndjson construct context [src-substring]
import json,sys
def rj(n):
    t=n['t']
    if t=='obj': return '{'+','.join(json.dumps(m['k'])+':'+rj(m['v']) for m in n['m'])+'}'
    if t=='arr': return '['+','.join(rj(x) for x in n['e'])+']'
    if t=='str': return json.dumps(n['v'],ensure_ascii=False)
    if t=='null': return 'null'
    return n['v']
fv=None
for line in open(sys.argv[1]):
    e=json.loads(line)
    if e['event']=='Schema': fv=e['fv']; continue
    if fv.get('construct')!=sys.argv[2] or fv.get('context')!=sys.argv[3]: continue
    if len(sys.argv)>4 and sys.argv[4] not in e.get('src',''): continue
    if 'json' in e: print(e['event'], e['src'], e['ok'], rj(e['json'])[:500])
    else: print(e['event'], e['src'], e['ok'], e.get('detail','')[:200])
