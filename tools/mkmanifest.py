#!/usr/bin/env python3
"""Regenerates /verif/MANIFEST.json from the table below (single source of truth for the manifest)."""
import json, os
ROOT = os.path.dirname(os.path.dirname(os.path.abspath(__file__)))
props = [json.loads(l)['id'] for l in open(os.path.join(ROOT, 'properties.jsonl'))]

WIRE_NOTE = ("Trusted: TLC 1.8.0; the harness abstraction/concretisation (token table, descriptor builder, event recorder in harness/drv); "
             "protovalidate is a harness stub with the real import path (rule violations only need to exist; their field paths are what is observed); "
             "value leaves are canonical text tokens, so numeric fidelity is decided by string equality of harness renderings, not by TLC arithmetic.")

CHECKS = {
 "C01": dict(
   text="SebufCall.tla models one client call as Start / Sent / Saw / Ret with the C01 obligations as action guards (the request line and body the client must put on the wire, the handler of exactly that RPC sees the caller's value, the caller gets the handler's response). MC_Call model-checks the contract client (identity on tokens) and enumerates verb x URL-field kind x value classes (zero, min, max, > 2^53, non-ASCII, URL-reserved) x body shape x content type x route (explicit template / default route) around a base point (3344 cases); each is executed through the REAL emitted Go client against the REAL emitted Go server of several packages generated in one invocation, with the HTTP request intercepted, and TLC validates every recorded Sent / Saw / Ret event against the logged call.",
   design="§7 C01", technique="TLA+ model checking (TLC) + replay of TLC-enumerated calls through the real emitted client and server + TLC trace validation"),
 "C20": dict(
   text="SebufMock.tla states what the contract fixes about a mock reply (MockReplyConforms = Validates and Described against the RPC's published 200 schema, ExamplesUsed over the reply's leaves). MC_Pipeline family C20 (18 field kinds x 6 cardinalities incl. oneof members x example sets none / parsable / mixed / unparsable / awkward strings / out-of-range x nestings flat, nested, map value, recursive, two services, proto-nested with a same-named decoy, imported file: 304 schemas) is enumerated by TLC; every schema is generated with generate_mock=true, built, linked with the real emitted server, every mock RPC invoked 6 (quick) / 20 (thorough) times over HTTP, and TLC judges every MockBuild and Mock event on the real OpenAPI document of the same schema.",
   design="§7 C20", technique="TLA+ model checking (TLC) of the schema family + TLC trace validation (inventory mode) of real mock builds and real mock replies against the real emitted response schema",
   note="Trusted: TLC; go build as instrument; string -> typed example parsing is done by the harness with strconv (the specification compares canonical tokens); randomness of example selection is sampled by repetition."),
 "C08": dict(
   text="The call protocol of SebufCall.tla (Start / Sent / Saw / Ret, extended by the header obligation: a value handed to a client through a header option is on the wire under exactly the header name the servers validate) is run over the three language pairs. MC_Interop model-checks the contract system (Completes, WrongNameBlocked) and enumerates pair x verb x route (path variable + optional/required query parameters, path only, two path variables, default route) x URL-field kind x value class x way of supplying a required service- or method-level header (constructor default, typed constructor option, per-call headers, typed per-call option, per-call override of a default) x header-name shape: 1056 cases. Each is executed through the REAL emitted modules: TS client -> Go server, Go client -> TS server (request and response relayed between node 22 and the Go driver), TS client -> TS server (in one node process over the emitted route table of all services of the module), and TLC validates the Load / Sent / Saw / Ret events of every call.",
   design="§7 C08", technique="TLA+ model checking (TLC) + replay of TLC-enumerated calls through the real emitted TS/Go clients and servers + TLC trace validation",
   note="Trusted: TLC; node 22 (type stripping) as the standards-compliant runtime; the relay between the two drivers copies verb, URL, headers and body bytes verbatim; the emitted TS server leaves routing to its user, so the harness matches templates segment-wise on the raw path; representation of a value inside the TS handler argument (string vs number/boolean for path variables) is C07's question, here it is compared as a value of the field's type."),
 "C07": dict(
   text="SebufTs.tla defines when a JSON value is a value of a declared TypeScript type with every present member declared at that position (Inhabits, over the abstract syntax of interfaces, literal unions, intersections, Record<>, arrays, optional and null unions); MC_Ts checks a truth table of the operator and enumerates the URL-field family. The REAL declarations of both TS plugins are read by harness/tsdecl and logged; TLC judges (A) for the 128 construct x context schemas of MC_Json and 3 (quick) / 9 (thorough) value classes each: the contract form Enc(schema, value) of requests against the declared request interface and the wire JSON of the real Go server against the TS client's result type, and client declarations = server declarations; (B) for verb x 12 field kinds x 64-bit encoding x placement (path, optional query, required query) x value class: the object the REAL emitted TS server hands to its handler (driven by the real TS client in node 22) against the declared request interface.",
   design="§7 C07", technique="TLA+ operator (Inhabits) evaluated by TLC on the real emitted TypeScript declarations, real Go server wire JSON and real TS handler arguments (trace validation, inventory mode) + TLC-checked truth table",
   note="Trusted: TLC; harness/tsdecl (a recursive-descent reader for the declaration subset the generators emit; unit-tested; a declaration it cannot read is a verdict declarations_unreadable, not a pass); node 22; where C05's findings make the wire differ from the contract form only the real wire is judged; precision of 64-bit values carried as JS numbers (int64_encoding=NUMBER, documented risk) is not judged."),
 "C17": dict(
   text="SebufConc.tla models the generated server and client at the grain of their shared state (validator singleton behind sync.Once, read-only route configuration, per-request message, client default headers vs per-call header map) as interleaved request processes; TLC checks handler isolation, client isolation, validator-once and completion over all interleavings of a bounded instance, and - as a self-test run by the check - finds the violation in two deliberately flawed designs of the same module (pooled request message without reset; per-call options written into the shared default map). The REAL emitted server (one registered instance) and client (one shared instance per service) are then driven, under the race detector, with seeded random multisets of raw HTTP requests and client calls (routes whose binding leaves fields untouched, body verbs with and without body, service/method headers, per-call header and content-type options) in groups at parallelism 1, 4, 16, 64; every distinct call is also issued alone on a freshly registered server through a fresh client; Trace_Conc.tla consumes the globally ordered Begin / Sent / Saw / End events of each group and enables a step only if it carries exactly what the call yields alone; a race report or a runtime concurrent-map crash is an event without action.",
   design="§7 C17", technique="TLA+ model checking (TLC) of the concurrency design incl. two flawed designs as self-test + TLC trace validation of interleaved real executions under the Go race detector against isolated reference executions",
   note="Trusted: TLC; the Go race detector (a dynamic detector: it reports races that happen in the explored schedules, not all possible ones); schedules are sampled by repetition at several parallelism levels (720 calls quick, 32000 thorough), not enumerated; the global event order is a sequence number taken under each operation's lock at emission."),
 "C02": dict(
   text="SebufWire.tla is model-checked exhaustively (MC_Wire_C02: verb x body shape x content type x URL value classes, 4320 abstract requests) for C02_UrlWins / C02_BadUrl400; every TLC-enumerated request is concretised per field kind and replayed through the real emitted BindingMiddleware, and the recorded events (BodyRead, HandlerSaw, Resp) are validated by TLC against Trace_Wire.tla, which re-derives the admissible handler view from the logged abstract request.",
   design="§7 C02", technique="TLA+ model checking (TLC) + replay of TLC-enumerated requests + TLC trace validation of real server events"),
 "C09": dict(
   text="SebufWire.tla header steps (Effective/Required merge, definite vs ambiguous offenders, C09_BeforeBody action property) checked exhaustively over declaration patterns x overriding x value classes x body validity (MC_Wire_C09, 3072 abstract requests); each is replayed against the real emitted validateHeaders/BindingMiddleware with an instrumented body reader and the events are trace-validated by TLC.",
   design="§7 C09", technique="TLA+ model checking (TLC) + replay + TLC trace validation (Go server; value classes generated from the published type/format)"),
 "C10": dict(
   text="SebufWire.tla error pipeline (error source x content type x hook behaviour, 714 abstract requests) model-checked for the documented status/body/format table and hook override semantics; every case replayed through the real emitted genericHandler/writeErrorWithHandler with harness-supplied hooks, HookCalled/Resp events trace-validated by TLC.",
   design="§7 C10", technique="TLA+ model checking (TLC) + replay + TLC trace validation (server side of the error table)"),
 "C11": dict(
   text="SebufWire.tla has no action for panic, hang or 5xx: body class x content type x verb enumerated by TLC (MC_Wire_C11), each class concretised and run through the real server; a trace containing ServerPanic/Timeout or a non-validation-error response to an undecodable body is rejected by TLC.",
   design="§7 C11", technique="TLA+ model checking (TLC) + replay + TLC trace validation (body classes concretised by the harness)"),
 "C03": dict(
   text="SebufRoutes.tla states the documented path resolution (verb default, base + custom path with slash normalisation, shape of the default path, primary placement of every request field) and MC_Routes checks C03_Agree / C03_Documented / C03_OneOp on a family of 12 services x 56 RPCs (base_path shapes x method config x path shapes x verbs x method-name shapes x package naming). Each service is generated by the five real plugins; the route every generator publishes is observed on the real artefact (request lines recorded from the Go and TS clients with sentinel values, the TS route table and the Go ServeMux probed with every published template, the OpenAPI JSON document) and TLC validates the Route / Ops events against the logged schema: documented route, pairwise agreement, exactly one operation per RPC.",
   design="§7 C03", technique="TLA+ model checking (TLC) + TLC trace validation of routes observed on the five real artefacts",
   note="Trusted: TLC; node 22 for the TS modules; the harness path parser / sentinel substitution; the Go server's route is observed behaviourally (a template counts as its route only if a probe built from it reaches the RPC's handler with the variables bound to the right fields). Where the documentation leaves the spelling of a default segment open, only its shape and the agreement between generators are judged."),
 "C04": dict(
   text="SebufJson.tla defines the documented JSON mapping Enc (recursive over contexts, with per-annotation leaf transforms) and the round-trip normal form NormMsg (timestamp truncation, empty-message presence). MC_Json enumerates 16 annotated constructs x 8 contexts (128 schemas), checks them rule-free and Enc total without colliding member names, and exports them. For every schema a go-http-only and a go-client-only package are generated, built and linked; for 5 (quick) / 10 (thorough) value classes per schema the real MarshalJSON/UnmarshalJSON (or protojson, exactly as the emitted server and client choose) encode and decode, and TLC judges every Round event (decode(encode(v)) and decode of the contract form Enc(schema, v) that TLC itself printed) with RoundTripOK, for both packages.",
   design="§7 C04", technique="TLA+ model checking (TLC) of the mapping on the schema family + TLC trace validation (inventory mode) of real codec round trips in go-http-only and go-client-only packages",
   note="Trusted: TLC; leaf renderings / identity tokens computed by small independent harness functions (strconv, base64, hex, time) with protojson as reference for unannotated leaves; values are sampled per class (default, populated, boundary, seeded random), not enumerated; packages that do not build are C13's domain and are left out."),
 "C05": dict(
   text="Same specification and family as C04; here TLC judges FormOK: the JSON the real server returns for a handler-returned value (and the bytes of both codecs) must equal Enc(schema, value) as a set of <<key, value>> pairs at every depth, and the handler must see Norm(value) when the request body is the server's own encoding and when it is the contract form computed by TLC. A nested message encoded as plain proto3 JSON is accepted only under the listed finding D_nested_codec_ignored and only if it equals EncPlainNested exactly.",
   design="§7 C05", technique="TLA+ executable model of the mapping (TLC) + TLC trace validation (inventory mode) of real server JSON in both directions",
   note="Trusted: as C04. Subtrees under flatten / discriminated oneof / map-value unwrap parents are left unconstrained under the finding D_stdjson_children (encoding/json on protoc-gen-go structs is too irregular to model)."),
 "C06": dict(
   text="SebufOpenApi.tla defines JSON Schema 2020-12 validity (Validates) for the structural subset the generator emits and Described (no member the schema does not describe). For the 128 construct x context schemas of MC_Json, the REAL document emitted by protoc-gen-openapiv3 (JSON rendering, tokenised) is logged and TLC evaluates, for every value class and both directions, Validates/Described on the contract form Enc(schema, value) and on the wire JSON of the real go-http server (200 bodies, request bodies, the 400 ValidationError and the default Error) against the schema node the document gives for that operation.",
   design="§7 C06", technique="TLA+ operators (Validates, Described, Enc) evaluated by TLC on real emitted documents and real wire JSON (trace validation, inventory mode)",
   note="Trusted: TLC; the harness tokeniser ($ref pre-split into pointer segments, numbers canonicalised); keywords Validates does not interpret (pattern, bounds, lengths) are C19's. A wire body that is not in contract form is C05's finding, not the document's, and is reported there (verdict wire_not_contract_form)."),
 "C12": dict(
   text="SebufSchema.tla states the 24 documented annotation / HTTP-configuration rules as Violations(schema); MC_Pipeline (family C12: rule x placement x surrounding content + 16 valid twins, 184 schemas) checks that the family builders hit exactly the intended rule and exports every abstract schema; each is concretised into descriptors and given to the five real plugins; Trace_Pipeline.tla re-evaluates Violations on the logged schema and accepts a Gen event only if go-http / go-client refuse (no files, error naming the offender) exactly when a rule they implement is broken and all five accept rule-free schemas.",
   design="§7 C12", technique="TLA+ model checking (TLC) of the rule operator over schema families + real plugin runs validated by TLC trace validation",
   note="Trusted: TLC; the descriptor builder (protodesc.NewFiles is the well-formedness gate; no protoc); 'names the offender' is observed as the offender identifier occurring as a whole word in the error text; placements in imported (not generated) files are recorded but not judged."),
 "C13": dict(
   text="MC_Pipeline family C13 (each annotation x each cardinality it is accepted on, ordered pairs of codec features on one message, identifier shapes, several services / no services / cross-file references, 16 valid twins: 194 schemas) is enumerated by TLC and checked against the rule operator (all rule-free); every schema is generated by the real plugins into three packages (go-http only, go-client only, both) plus the TS modules; SebufPipeline.tla NoDupDecls is evaluated by TLC on the declaration sets parsed from the real emitted files, and Build events (go build, the go-test vet analyzers, node-22 module load) are accepted only when ok, or under a listed deviation whose schema guard holds and whose diagnostic class matches.",
   design="§7 C13", technique="TLA+ model checking (TLC) of the schema family + TLC trace validation of declaration sets and build/vet/load verdicts of the real emitted code",
   note="Trusted: TLC; go build / go vet / node 22 as instruments (their verdict is the event; which verdicts are allowed in which state is decided by the specification); protoc-gen-go v1.36.11 from the module cache as the standard protobuf Go output; the protovalidate stub (import path only)."),
 "C18": dict(
   text="SebufOpenApi.tla states the C18 predicates (RefsResolve, PathVarsDeclaredOnce, ParamNamesUniquePerLocation, OperationIdsUnique, operations = RPCs, distinct reachable messages map to distinct component schemas, one document per service). A family of 34 schemas (descriptor shapes of C16, the 16 annotation twins, same-named nested types, several services, imported messages, path+query routes, headers with YAML-hostile examples) is enumerated by TLC; every real document is emitted in all four format settings, the YAML renderings are read by two independent parsers and compared with the JSON rendering as trees, and TLC evaluates the predicates on the tokenised real documents.",
   design="§7 C18", technique="TLA+ predicates evaluated by TLC on the real emitted documents (trace validation, inventory mode) + YAML/JSON tree comparison by two parsers",
   note="Trusted: TLC; go.yaml.in/yaml/v4 (YAML 1.2, the version OpenAPI 3.1 prescribes) decides YAML = JSON; PyYAML (YAML 1.1) cross-checks structure and equal-typed scalars only."),
 "C19": dict(
   text="SebufRules.tla gives the semantics of the supported buf.validate rules over ordered probe positions (RuleAccepts) and MC_Rules checks its truth table and enumerates rule kind x field kind x bound class x encoding (608 fields). The harness concretises bounds with big integers / nextafter floats, builds probes below / at / above every bound (members / non-members, shorter / longer, fewer / more items, duplicates), and the instrument (jsonschema, Draft 2020-12) evaluates each probe's JSON form on the REAL emitted field schema; TLC requires RuleAccepts(position) = instrument verdict for every probe, required <=> listed, and the documented format names.",
   design="§7 C19", technique="TLA+ rule semantics (TLC) + trace validation of instrument verdicts on the real emitted field schemas",
   note="Trusted: TLC; jsonschema 4.26 (python3-vt) as the Draft 2020-12 validator; big-integer / nextafter arithmetic of the harness for probe positions; patterns restricted to one RE2/ECMA-262-compatible expression."),
 "C14": dict(
   text="SebufPipeline.tla: a file name written by both Go plugins carries the same bytes modulo the generator line (Interchangeable), and a package generated by go-client alone has a codec file for exactly the messages the server side has one for (ClientAloneEquivalent). Family C14 (14 codec features x 3 file layouts) is enumerated by TLC, run through the real go-http and go-client in both orders, and the Gen events (file names, content hashes, header-stripped hashes, codec kinds) are validated by TLC.",
   design="§7 C14", technique="TLA+ model checking (TLC) + real plugin runs + TLC trace validation (byte identity and codec-file sets)",
   note="Trusted: TLC; SHA-256 as content identity; codec kind is read from the documented file-name suffix. Behavioural equality of the codecs themselves is C04's replay; here 'behaves identically' is decided structurally (same codec files, identical bytes)."),
 "C15": dict(
   text="SebufPipeline.tla Pure / SameFileSet: the bytes and the set of files a plugin emits for an input file are the same in every invocation that generates it. TLC enumerates multi-file base schemas (family C15); the harness runs all five real plugins under the request variants base / repeat / GOMAXPROCS=1 / permuted file_to_generate / single-file / extra unrelated file, and TLC validates the Gen events against the history kept in the spec state.",
   design="§7 C15", technique="TLA+ model checking (TLC) + real plugin runs under request variants + TLC trace validation over a history variable",
   note="Trusted: TLC; SHA-256 as content identity; Go's per-process map-iteration randomisation is sampled by repetition (2 repeats quick, 20 thorough)."),
 "C16": dict(
   text="SebufTraverse.tla proves (TLC, weak fairness, all 512 reference graphs over 3 messages) that a traversal with a visited set terminates and its work list stays bounded; SebufPipeline has no action for crash / timeout / oom, so a Gen event with such an exit is rejected. Family C16 (16 descriptor shapes x 5 parameter settings, nesting depth to 64, 3600-character names) is run through all five real plugins under a 10 s wall-clock limit and a 1 GiB RSS watchdog.",
   design="§7 C16", technique="TLA+ liveness checking (TLC, WF) of the traversals + real plugin runs validated by TLC trace validation",
   note="Trusted: TLC; 'bounded time' is observed with a generous bound (10 s; normal runs take ~10 ms), not proved; a one-line stderr diagnostic with exit status 1 (protobuf-go's own convention) counts as an error answer, a Go panic or death by signal as a crash."),
}

NOT_YET = "check not built yet (work in progress)"

m = {
 "version": 1,
 "setup_cmd": "./setup.sh",
 "hooks": {
   "guard": "verif",
   "enable": "plugins are built with `go build -tags verif ./cmd/...`; no hook commits exist: every property is decided at the public boundary (plugin stdin/stdout, emitted files, HTTP traffic, handler arguments)",
   "baseline_off_cmd": "/verif/tools/baseline.sh /repo",
   "source_commits": [],
   "add_only": True,
 },
 "engines": [{"name": "tlc+harness", "path": "/verif/check", "serves_properties": sorted(CHECKS),
              "kind_free_text": "TLA+ specification suite (/verif/spec) checked by TLC; bound to the real plugins and the code they emit by replaying TLC-enumerated cases and by TLC trace validation of recorded events"}],
 "checks": [],
 "not_applicable": [],
 "notes": "Exit codes: 0 property held on everything explored (KNOWN-FINDING lines allowed), 1 VIOLATION, 2 machinery problem (never a violation). Known findings: /verif/known_findings.json.",
}
for p in props:
    if p in CHECKS:
        c = CHECKS[p]
        m["checks"].append({
          "property_id": p,
          "quick_cmd": f"./check {p} --tier quick",
          "thorough_cmd": f"./check {p} --tier thorough",
          "evidence_file": f"/verif/evidence/{p}.json",
          "replay_cmd_template": f"./check {p} --replay {{path}}",
          "engine": "tlc+harness",
          "level_claimed": {"category": "model_checking", "text": c["text"], "design_ref": c["design"]},
          "level_note": c.get("note", WIRE_NOTE),
          "technique": c["technique"],
        })
    else:
        m["not_applicable"].append({"property_id": p, "reason": NOT_YET})
json.dump(m, open(os.path.join(ROOT, 'MANIFEST.json'), 'w'), indent=1)
print("checks:", [c["property_id"] for c in m["checks"]])
