#!/usr/bin/env python3
"""Regenerates /verif/MANIFEST.json from the table below (single source of truth for the manifest)."""
import json, os
ROOT = os.path.dirname(os.path.dirname(os.path.abspath(__file__)))
props = [json.loads(l)['id'] for l in open(os.path.join(ROOT, 'properties.jsonl'))]

WIRE_NOTE = ("Trusted: TLC 1.8.0; the harness abstraction/concretisation (token table, descriptor builder, event recorder in harness/drv); "
             "protovalidate is a harness stub with the real import path (rule violations only need to exist; their field paths are what is observed); "
             "value leaves are canonical text tokens, so numeric fidelity is decided by string equality of harness renderings, not by TLC arithmetic.")

CHECKS = {
 "C02": dict(
   text="SebufWire.tla is model-checked exhaustively (MC_Wire_C02: verb x body shape x content type x URL value classes, 4320 abstract requests) for C02_UrlWins / C02_BadUrl400; every TLC-enumerated request is concretised per field kind and replayed through the real emitted BindingMiddleware, and the recorded events (BodyRead, HandlerSaw, Resp) are validated by TLC against Trace_Wire.tla, which re-derives the admissible handler view from the logged abstract request.",
   design="§7 C02", technique="TLA+ model checking (TLC) + replay of TLC-enumerated requests + TLC trace validation of real server events"),
 "C09": dict(
   text="SebufWire.tla header steps (Effective/Required merge, definite vs ambiguous offenders, C09_BeforeBody action property) checked exhaustively over declaration patterns x overriding x value classes x body validity (MC_Wire_C09, 3072 abstract requests); each is replayed against the real emitted validateHeaders/BindingMiddleware with an instrumented body reader and the events are trace-validated by TLC.",
   design="§7 C09", technique="TLA+ model checking (TLC) + replay + TLC trace validation (Go server; value classes generated from the published type/format)"),
 "C10": dict(
   text="SebufWire.tla error pipeline (error source x content type x hook behaviour, 714 abstract requests) model-checked for the documented status/body/format table and hook override semantics; every case replayed through the real emitted genericHandler/writeErrorWithHandler with harness-supplied hooks, HookCalled/Resp events trace-validated by TLC.",
   design="§7 C10", technique="TLA+ model checking (TLC) + replay + TLC trace validation (server side of the error table)"),
 "C11": dict(
   text="SebufWire.tla has no action for panic, hang or 5xx: body class x content type x verb enumerated by TLC (MC_Wire_C11), each class concretised and run through the real server; a trace containing ServerPanic/Timeout or a non-validation-error response to an undecodable body is rejected by TLC.",
   design="§7 C11", technique="TLA+ model checking (TLC) + replay + TLC trace validation (body classes concretised by the harness)"),
}

NOT_YET = "check not built yet (work in progress; see DESIGN.md §10)"

m = {
 "version": 1,
 "setup_cmd": "./setup.sh",
 "hooks": {
   "guard": "verif",
   "enable": "plugins are built with `go build -tags verif ./cmd/...`; no hook commits exist: every property is decided at the public boundary (plugin stdin/stdout, emitted files, HTTP traffic, handler arguments)",
   "baseline_off_cmd": "/verif/tools/baseline.sh /repo",
   "source_commits": [],
   "add_only": True,
 },
 "engines": [{"name": "tlc+harness", "path": "/verif/check", "serves_properties": sorted(CHECKS),
              "kind_free_text": "TLA+ specification suite (/verif/spec) checked by TLC; bound to the real plugins and the code they emit by replaying TLC-enumerated cases and by TLC trace validation of recorded events"}],
 "checks": [],
 "not_applicable": [],
 "notes": "Exit codes: 0 property held on everything explored (KNOWN-FINDING lines allowed), 1 VIOLATION, 2 machinery problem (never a violation). Known findings: /verif/known_findings.json.",
}
for p in props:
    if p in CHECKS:
        c = CHECKS[p]
        m["checks"].append({
          "property_id": p,
          "quick_cmd": f"./check {p} --tier quick",
          "thorough_cmd": f"./check {p} --tier thorough",
          "evidence_file": f"/verif/evidence/{p}.json",
          "replay_cmd_template": f"./check {p} --replay {{path}}",
          "engine": "tlc+harness",
          "level_claimed": {"category": "model_checking", "text": c["text"], "design_ref": c["design"]},
          "level_note": c.get("note", WIRE_NOTE),
          "technique": c["technique"],
        })
    else:
        m["not_applicable"].append({"property_id": p, "reason": NOT_YET})
json.dump(m, open(os.path.join(ROOT, 'MANIFEST.json'), 'w'), indent=1)
print("checks:", [c["property_id"] for c in m["checks"]])
