#!/usr/bin/env python3
# Second, independent YAML parser (PyYAML): reads YAML on stdin, writes JSON on stdout.
import sys, json, yaml
json.dump(yaml.safe_load(sys.stdin.read()), sys.stdout)
