#!/bin/bash
# try_seed.sh <property> <patch> [tier]: apply a seeded change to /repo, run the property's check, undo it.
P=$1; PATCH=$2; TIER=${3:-quick}
git -C /repo status --porcelain | grep -q . && { echo "/repo not clean"; exit 2; }
git -C /repo apply "$PATCH" || { echo "PATCH DOES NOT APPLY"; exit 2; }
if [ "$TIER" = thorough ]; then /verif/check "$P" --tier thorough > /tmp/try_seed.log 2>&1; else /verif/check "$P" > /tmp/try_seed.log 2>&1; fi
rc=$?
git -C /repo checkout -- . ; git -C /repo clean -fdq
grep -E "VIOLATION|KNOWN-FINDING|PASS|BROKEN" /tmp/try_seed.log | grep -v KNOWN-FINDING | cut -c1-400 | head -8
echo "rc=$rc"
find /verif/replays -type f -newer "$PATCH" -name '*' | head -0
# the evidence files describe runs on the unchanged tree only: put the committed ones back
git -C /verif checkout -- evidence 2>/dev/null
