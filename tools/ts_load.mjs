// Loads every emitted TypeScript module under the given directory on node >= 22 (type stripping)
// and prints one JSON line per module: {file, ok, diag}.
import { readdirSync, statSync } from 'node:fs';
import { join } from 'node:path';
import { pathToFileURL } from 'node:url';
function walk(d, out) {
  for (const e of readdirSync(d)) {
    const p = join(d, e);
    if (statSync(p).isDirectory()) walk(p, out); else if (p.endsWith('.ts')) out.push(p);
  }
  return out;
}
const root = process.argv[2];
for (const f of walk(root, []).sort()) {
  try {
    await import(pathToFileURL(f).href);
    console.log(JSON.stringify({ file: f.slice(root.length + 1), ok: true, diag: '' }));
  } catch (e) {
    console.log(JSON.stringify({ file: f.slice(root.length + 1), ok: false, diag: String(e && e.name) + ': ' + String(e && e.message).slice(0, 300) }));
  }
}
