// TypeScript-side driver (node >= 22, type stripping): executes a plan (one JSON op per line, file
// given as argv[2]) against the emitted *_client.ts / *_server.ts modules, unmodified, and prints
// one JSON event per line. Only the public boundary is observed: route descriptors, the Request a
// client hands to fetch, the argument a handler receives, Responses, values / errors returned.
import { readFileSync } from 'node:fs';
import { pathToFileURL } from 'node:url';

const ops = readFileSync(process.argv[2], 'utf8').split('\n').filter((l) => l.trim()).map((l) => JSON.parse(l));
const mods = new Map();
async function load(file) {
  if (!mods.has(file)) {
    try { mods.set(file, { mod: await import(pathToFileURL(file).href) }); }
    catch (e) { mods.set(file, { err: String(e && e.name) + ': ' + String(e && e.message) }); }
  }
  return mods.get(file);
}
const out = (e) => console.log(JSON.stringify(e));
// races p against a 10 s timer that does not keep the process alive
function withTimeout(p) {
  let t;
  const timer = new Promise((_r, rej) => { t = setTimeout(() => rej(new Error('TIMEOUT')), 10000); });
  return Promise.race([p, timer]).finally(() => clearTimeout(t));
}
const b64 = (u8) => Buffer.from(u8).toString('base64');
const unb64 = (s) => Buffer.from(s || '', 'base64');
const lowerFirst = (s) => s.charAt(0).toLowerCase() + s.slice(1);

// segment-wise template matching (the emitted TS server leaves routing to the user)
function matchRoute(routes, verb, pathname) {
  const segs = pathname.split('/');
  let best = null;
  for (const r of routes) {
    if (r.method !== verb) continue;
    const t = r.path.split('/');
    if (t.length !== segs.length) continue;
    let ok = true, lits = 0;
    for (let i = 0; i < t.length; i++) {
      if (t[i].startsWith('{') && t[i].endsWith('}')) { if (segs[i] === '') ok = false; continue; }
      if (t[i] !== segs[i]) { ok = false; break; }
      lits++;
    }
    if (ok && (!best || lits > best.lits)) best = { r, lits };
  }
  return best && best.r;
}

function handlerProxy(op, seq) {
  return new Proxy({}, {
    get: (_t, name) => async (ctx, req) => {
      out({ event: 'TsHandlerSaw', case: op.case, call: op.call, seq: seq.n++, rpc: String(name), arg: req === undefined ? null : req,
            pathParams: (ctx && ctx.pathParams) || {}, headers: (ctx && ctx.headers) || {} });
      const h = op.handler || { kind: 'ok', value: {} };
      if (h.kind === 'ok') return h.value;
      if (h.kind === 'plain') {
        // an error of the built-in class its message names (what JSON.parse, new RegExp, BigInt ... throw inside a handler)
        const cls = { SyntaxError, TypeError, RangeError }[String(h.msg || '').split(':')[0]] || Error;
        throw new cls(h.msg || 'boom');
      }
      if (h.kind === 'validationError') {
        const m = mods.get(op.module).mod;
        throw new m.ValidationError((h.viol || []).map((v) => ({ field: v[0], description: v[1] })));
      }
      throw new Error('unknown handler kind ' + h.kind);
    },
  });
}

for (const op of ops) {
  const seq = { n: 1 };
  const base = { case: op.case, call: op.call };
  try {
    const ld = await load(op.module);
    if (ld.err) { out({ ...base, event: 'TsLoadError', seq: seq.n++, module: op.module, detail: ld.err }); continue; }
    const m = ld.mod;
    if (op.op === 'tsroutes' || op.op === 'tsserve') {
      const mk = m['create' + op.service + 'Routes'];
      if (typeof mk !== 'function') { out({ ...base, event: 'DriverError', seq: seq.n++, detail: 'no create' + op.service + 'Routes' }); continue; }
      // server options built from the plan: onError (returns a whole Response) and validateRequest
      let serverOptions = op.serverOptions || undefined;
      if (op.hook || op.validate) {
        serverOptions = { ...(serverOptions || {}) };
        if (op.hook) {
          serverOptions.onError = (err, _req) => {
            out({ ...base, event: 'HookCalled', seq: seq.n++, errKind: (err instanceof m.ValidationError) ? 'validationError' : 'jsError' });
            return new Response('HOOKBODY', { status: op.hook.status ? 418 : 200, headers: op.hook.headers ? { 'X-Hook': 'set' } : {} });
          };
        }
        if (op.validate) {
          serverOptions.validateRequest = (_method, _body) => op.validate.map((n) => ({ field: n, description: 'rule' }));
        }
      }
      let routes = mk(handlerProxy(op, seq), serverOptions);
      // the other services of the module share the route table (a wrong route must not find another handler unnoticed)
      for (const other of op.services || []) {
        if (other !== op.service && typeof m['create' + other + 'Routes'] === 'function') {
          routes = routes.concat(m['create' + other + 'Routes'](handlerProxy(op, seq), serverOptions));
        }
      }
      if (op.op === 'tsroutes') {
        out({ ...base, event: 'TsRoutes', seq: seq.n++, service: op.service, routes: routes.map((r) => ({ method: r.method, path: r.path })) });
        continue;
      }
      const u = new URL(op.url, 'http://test.local');
      const route = matchRoute(routes, op.verb, u.pathname);
      if (!route) { out({ ...base, event: 'TsNoRoute', seq: seq.n++, verb: op.verb, path: u.pathname }); continue; }
      const init = { method: op.verb, headers: new Headers() };
      for (const [k, v] of op.headers || []) init.headers.append(k, v);
      // header values that are not valid UTF-8 arrive base64-encoded; Headers takes byte strings (latin1)
      for (const [k, v] of op.headersB64 || []) {
        try { init.headers.append(k, Buffer.from(v, 'base64').toString('latin1')); }
        catch (e) { out({ ...base, event: 'TsHeaderRefused', seq: seq.n++, header: k, detail: String(e) }); }
      }
      if (!op.noBody && op.verb !== 'GET' && op.verb !== 'HEAD') init.body = unb64(op.bodyB64);
      const req = new Request(u.href, init);
      let resp;
      try { resp = await withTimeout(route.handler(req)); }
      catch (e) {
        out({ ...base, event: String(e && e.message) === 'TIMEOUT' ? 'Timeout' : 'TsServerThrow', seq: seq.n++, detail: String(e) });
        continue;
      }
      const body = new Uint8Array(await resp.arrayBuffer());
      const headers = [];
      resp.headers.forEach((v, k) => headers.push([k, v]));
      out({ ...base, event: 'Resp', seq: seq.n++, status: resp.status, ctype: resp.headers.get('content-type') || '', bodyB64: b64(body),
            headers, route: { method: route.method, path: route.path } });
      continue;
    }
    if (op.op === 'tscall' || op.op === 'tspair') {
      const Cls = m[op.service + 'Client'];
      if (typeof Cls !== 'function') { out({ ...base, event: 'DriverError', seq: seq.n++, detail: 'no class ' + op.service + 'Client' }); continue; }
      const fetchFn = async (url, init) => {
        const hs = [];
        const h = new Headers((init && init.headers) || {});
        h.forEach((v, k) => hs.push([k, v]));
        let body = null;
        if (init && init.body != null) body = typeof init.body === 'string' ? Buffer.from(init.body) : Buffer.from(init.body);
        const u = new URL(url);
        out({ ...base, event: 'Sent', seq: seq.n++, verb: (init && init.method) || 'GET', path: u.pathname, rawQuery: u.search.replace(/^\?/, ''),
              rawUrl: String(url), headers: hs, bodyB64: body ? b64(body) : '', hasBody: body != null });
        if (op.op === 'tspair') {
          // TS client -> TS server in-process: the Request the client built goes through the emitted routes
          const sl = await load(op.serverModule);
          if (sl.err) { out({ ...base, event: 'TsLoadError', seq: seq.n++, module: op.serverModule, detail: sl.err }); throw new Error('server module does not load'); }
          let routes = [];
          for (const svc of op.services || [op.service]) {
            const mk = sl.mod['create' + svc + 'Routes'];
            if (typeof mk === 'function') routes = routes.concat(mk(handlerProxy(op, seq), op.serverOptions || undefined));
          }
          const verb = (init && init.method) || 'GET';
          const route = matchRoute(routes, verb, u.pathname);
          if (!route) { out({ ...base, event: 'TsNoRoute', seq: seq.n++, verb, path: u.pathname }); return new Response('no route', { status: 404 }); }
          const rinit = { method: verb, headers: h };
          if (body != null && verb !== 'GET' && verb !== 'HEAD') rinit.body = body;
          const resp = await route.handler(new Request(String(url), rinit));
          const copy = resp.clone();
          const rb = new Uint8Array(await copy.arrayBuffer());
          out({ ...base, event: 'Resp', seq: seq.n++, status: resp.status, ctype: resp.headers.get('content-type') || '', bodyB64: b64(rb),
                route: { method: route.method, path: route.path } });
          return resp;
        }
        const c = op.canned || { status: 200, headers: [['Content-Type', 'application/json']], bodyB64: b64(Buffer.from('{}')) };
        const rh = new Headers();
        for (const [k, v] of c.headers || []) rh.append(k, v);
        const nobody = c.status === 204 || c.status === 304 || (c.status >= 100 && c.status < 200);
        return new Response(nobody ? null : unb64(c.bodyB64), { status: c.status, headers: rh });
      };
      const copts = { ...(op.clientOpts || {}), fetch: fetchFn };
      // A caller may keep one defaultHeaders object and hand it to several clients. A second client is
      // built AFTER the one under test from the very same object, with other values for every other
      // string option: what the first client sends must not depend on it, and the caller's object
      // must still say what the caller wrote.
      let callerHeaders = null, callerBefore = null;
      if (op.sibling) {
        callerHeaders = copts.defaultHeaders || {};
        copts.defaultHeaders = callerHeaders;
        callerBefore = JSON.stringify(callerHeaders);
      }
      const client = new Cls('http://test.local', copts);
      if (op.sibling) {
        const sopts = { fetch: async () => new Response('{}', { status: 200 }), defaultHeaders: callerHeaders };
        for (const [k, v] of Object.entries(op.clientOpts || {})) {
          if (k !== 'defaultHeaders' && typeof v === 'string') sopts[k] = 'sibling-' + v;
        }
        try { new Cls('http://sibling.local', sopts); } catch (e) { out({ ...base, event: 'DriverError', seq: seq.n++, detail: 'sibling client: ' + String(e) }); }
      }
      let fn = client[lowerFirst(op.rpc)];
      if (typeof fn !== 'function') {
        // identifier spelling of the method is the generator's business: match modulo case and underscores
        const norm = (x) => String(x).replace(/_/g, '').toLowerCase();
        for (const k of Object.getOwnPropertyNames(Object.getPrototypeOf(client))) {
          if (norm(k) === norm(op.rpc) && typeof client[k] === 'function') fn = client[k];
        }
      }
      if (typeof fn !== 'function') { out({ ...base, event: 'DriverError', seq: seq.n++, detail: 'no method ' + lowerFirst(op.rpc) }); continue; }
      try {
        const v = await withTimeout(fn.call(client, op.req, op.callOpts || undefined));
        if (op.sibling && JSON.stringify(callerHeaders) !== callerBefore) {
          out({ ...base, event: 'CallerOptionsMutated', seq: seq.n++, before: callerBefore, after: JSON.stringify(callerHeaders) });
        }
        out({ ...base, event: 'ClientRet', seq: seq.n++, kind: 'ok', value: v === undefined ? null : v });
      } catch (e) {
        if (String(e && e.message) === 'TIMEOUT') { out({ ...base, event: 'ClientRet', seq: seq.n++, kind: 'timeout' }); continue; }
        if (m.ValidationError && e instanceof m.ValidationError) {
          out({ ...base, event: 'ClientRet', seq: seq.n++, kind: 'validationError', viol: (Array.isArray(e.violations) ? e.violations : []).map((x) => [String(x && x.field), String(x && x.description)]), violIsArray: Array.isArray(e.violations) });
        } else if (m.ApiError && e instanceof m.ApiError) {
          out({ ...base, event: 'ClientRet', seq: seq.n++, kind: 'apiError', status: e.statusCode, message: String(e.message), body: String(e.body) });
        } else {
          out({ ...base, event: 'ClientRet', seq: seq.n++, kind: 'rawError', text: String(e) });
        }
      }
      continue;
    }
    out({ ...base, event: 'DriverError', seq: seq.n++, detail: 'unknown op ' + op.op });
  } catch (e) {
    out({ ...base, event: 'DriverError', seq: seq.n++, detail: 'runner: ' + String(e && e.stack || e) });
  }
}
