#!/bin/bash
# Runs the repository's pinned suite with the verif guard OFF and compares against BASELINE.json:
# every test in stable_pass must still pass. Exit 0 iff so.
export GOFLAGS=-mod=mod GOPROXY=off GOTOOLCHAIN=auto GOWORK=off
REPO=${1:-/repo}
OUT=$(mktemp)
(cd "$REPO" && go test -json -vet=off -count=1 -timeout 25m ./... > "$OUT" 2>/dev/null)
python3 - "$OUT" <<'PY'
import json,sys
passed=set()
for line in open(sys.argv[1]):
    try: e=json.loads(line)
    except Exception: continue
    if e.get('Action')=='pass' and e.get('Test'):
        passed.add(e['Package']+'::'+e['Test'])
base=json.load(open('/root/.vp/BASELINE.json'))['stable_pass']
missing=[t for t in base if t not in passed]
print(f"baseline: {len(base)} expected, {len(base)-len(missing)} passing, {len(passed)} passing in total")
for t in missing[:20]: print("  MISSING", t)
sys.exit(1 if missing else 0)
PY
rc=$?
rm -f "$OUT"
exit $rc
