#!/usr/bin/env python3
"""Pretty-prints a C07 replay: declared types (TS-like) and the contract form / wire JSON."""
import json, sys
def ty(t):
    k = t['t']
    if k in ('prim', 'ref'): return t['n']
    if k == 'lit': return json.dumps(t['v'])
    if k == 'arr': return ty(t['e']) + '[]'
    if k == 'rec': return 'Record<%s, %s>' % (ty(t['k']), ty(t['v']))
    if k == 'union': return ' | '.join(ty(a) for a in t['alts'])
    if k == 'inter': return ' & '.join('(' + ty(a) + ')' for a in t['parts'])
    if k == 'obj': return '{ ' + '; '.join('%s%s: %s' % (p['name'], '?' if p['opt'] else '', ty(p['ty'])) for p in t['props']) + ' }'
    return '?' + k
def js(n):
    k = n['t']
    if k == 'obj':
        m = n['m']
        return '{' + ', '.join('%s: %s' % (json.dumps(x['k'] if isinstance(x, dict) else x[0]), js(x['v'] if isinstance(x, dict) else x[1])) for x in m) + '}'
    if k == 'arr': return '[' + ', '.join(js(x) for x in n['e']) + ']'
    if k == 'str': return json.dumps(n['v'])
    if k == 'null': return 'null'
    return str(n.get('v'))
r = json.load(open(sys.argv[1]))
print(r['label'], '->', r['verdict'])
for d in r.get('client_decls') or []:
    if d['name'] in ('FieldViolation',) or d['name'].endswith('Options'): continue
    print('  type', d['name'], '=', ty(d['ty']))
print('  checked against:', ty(r['event']['ty']))
cf = r.get('contract_form')
if cf:
    if isinstance(cf, str): cf = json.loads(cf)
    print('  contract form:', json.dumps(cf)[:1500])
if r['event'].get('hasJson'): print('  wire / arg   :', js(r['event']['json'])[:1500])
