#!/bin/bash
# all_seeds.sh: apply every stored seeded change in turn to the repository copy $VERIF_REPO (never /repo
# itself when run under `vp run --with-repo`), run the quick check of the property it breaks, undo it.
# Prints one line per seed: CAUGHT / MISSED / NOAPPLY / BROKEN.
R=${VERIF_REPO:-/repo}; V=${VERIF_DIR:-/verif}
cd "$V" || exit 2
git -C "$R" status --porcelain | grep -q . && { echo "$R not clean"; exit 2; }
for d in $(ls seeded); do
  meta=seeded/$d/meta.json
  grep -q '"superseded"' $meta && { echo "SUPERSEDED $d"; continue; }
  p=$(python3 -c "import json;print(json.load(open('$meta'))['breaks_property'])")
  f=$V/seeded/$d/patch.rebased.diff; [ -f $f ] || f=$V/seeded/$d/patch.diff
  git -C "$R" apply "$f" 2>/dev/null || { echo "NOAPPLY $d"; continue; }
  ./check $p > /tmp/all_seeds_$d.log 2>&1; rc=$?
  git -C "$R" checkout -- . ; git -C "$R" clean -fdq
  n=$(grep -c '^VIOLATION' /tmp/all_seeds_$d.log)
  if [ $rc -eq 1 ] && [ $n -gt 0 ]; then echo "CAUGHT $d ($p, $n violations)"; rm -f /tmp/all_seeds_$d.log
  elif [ $rc -eq 0 ]; then echo "MISSED $d ($p)"
  else echo "BROKEN $d ($p rc=$rc) $(grep -m1 BROKEN /tmp/all_seeds_$d.log | cut -c1-200)"; fi
done
