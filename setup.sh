#!/bin/bash
# Builds the framework from files on disk only (offline).
set -e
cd "$(dirname "$0")"
export GOFLAGS=-mod=mod GOPROXY=off GOTOOLCHAIN=auto GOWORK=off
mkdir -p .cache/bin evidence
(cd harness && go build -o ../.cache/vh ./cmd/vh)
command -v tlc >/dev/null || { echo "tlc missing"; exit 1; }
echo setup ok
