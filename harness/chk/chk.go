// Package chk is the common frame of every check: tier/seed, known findings, evidence, verdicts.
package chk

import (
	"crypto/sha256"
	"encoding/hex"
	"encoding/json"
	"fmt"
	"os"
	"path/filepath"
	"sort"
	"strconv"
	"strings"
	"time"

	"verifharness/plug"
)

// Ctx is the state of one check run.
type Ctx struct {
	ID       string
	Tier     string
	Seed     int64
	Start    time.Time
	Known    []Finding
	ev       Evidence
	viol     []string // VIOLATION lines already printed
	Observed map[string]bool
}

// Finding is one entry of /verif/known_findings.json.
type Finding struct {
	Property string   `json:"property"`
	ID       string   `json:"id"`     // deviation name used in the specification (Dev)
	Status   string   `json:"status"` // "open" | "fixed: <commit>"
	Guard    string   `json:"guard"`
	Instead  string   `json:"instead"`
	Witness  any      `json:"witness"`
	Also     []string `json:"also"` // other properties the same deviation affects
}

func (f Finding) Open() bool { return f.Status == "open" }

// Evidence mirrors EVIDENCE.schema.json.
type Evidence struct {
	PropertyID  string         `json:"property_id"`
	Tier        string         `json:"tier"`
	Seed        int64          `json:"seed"`
	Level       string         `json:"level"`
	Coverage    map[string]any `json:"coverage"`
	Assumptions []string       `json:"assumptions"`
	WallS       float64        `json:"wall_s"`
	Violations  int            `json:"violations"`
}

// New creates the context for a property.
func New(id, tier string) *Ctx {
	if tier == "" {
		tier = os.Getenv("VERIF_TIER")
	}
	if tier == "" {
		tier = "quick"
	}
	seed := int64(1)
	if s := os.Getenv("VERIF_SEED"); s != "" {
		if v, err := strconv.ParseInt(s, 10, 64); err == nil {
			seed = v
		}
	}
	c := &Ctx{ID: id, Tier: tier, Seed: seed, Start: time.Now(), Observed: map[string]bool{}}
	c.ev = Evidence{PropertyID: id, Tier: tier, Seed: seed, Level: "model_checking", Coverage: map[string]any{}}
	c.loadKnown()
	return c
}

func (c *Ctx) Thorough() bool { return c.Tier == "thorough" }

func (c *Ctx) loadKnown() {
	b, err := os.ReadFile(filepath.Join(plug.VerifDir(), "known_findings.json"))
	if err != nil {
		return
	}
	var all struct {
		Findings []Finding `json:"findings"`
	}
	if err := json.Unmarshal(b, &all); err != nil {
		fmt.Fprintln(os.Stderr, "known_findings.json unreadable:", err)
		exit(2)
	}
	for _, f := range all.Findings {
		if f.Property == c.ID {
			c.Known = append(c.Known, f)
			continue
		}
		for _, a := range f.Also {
			if a == c.ID {
				c.Known = append(c.Known, f)
			}
		}
	}
}

// Dev returns the deviation names of open findings for this property.
func (c *Ctx) Dev() []string {
	var d []string
	for _, f := range c.Known {
		if f.Open() {
			d = append(d, f.ID)
		}
	}
	sort.Strings(d)
	return d
}

// IsKnown tells whether an open finding with that id is listed.
func (c *Ctx) IsKnown(id string) bool {
	for _, f := range c.Known {
		if f.Open() && f.ID == id {
			return true
		}
	}
	return false
}

// Observe marks a known finding as re-observed in this run.
func (c *Ctx) Observe(id string) { c.Observed[id] = true }

// Set / Add evidence keys.
func (c *Ctx) Set(k string, v any) { c.ev.Coverage[k] = v }
func (c *Ctx) AddInt(k string, n int64) {
	cur, _ := c.ev.Coverage[k].(int64)
	c.ev.Coverage[k] = cur + n
}
func (c *Ctx) AddSample(v any) {
	s, _ := c.ev.Coverage["samples"].([]any)
	if len(s) < 6 {
		c.ev.Coverage["samples"] = append(s, v)
	}
}
func (c *Ctx) Assume(s string) { c.ev.Assumptions = append(c.ev.Assumptions, s) }

// WriteReplay stores a replay file and returns its path.
func (c *Ctx) WriteReplay(v any) string {
	b, _ := json.MarshalIndent(v, "", " ")
	h := sha256.Sum256(b)
	dir := filepath.Join(plug.VerifDir(), "replays", c.ID)
	_ = os.MkdirAll(dir, 0o755)
	p := filepath.Join(dir, hex.EncodeToString(h[:8])+".json")
	_ = os.WriteFile(p, b, 0o644)
	return p
}

// ToolchainFailure tells a build failure of the Go toolchain itself (its build cache being removed
// under a running build, a standard-library package that cannot be imported, the linker unable to
// open its inputs) from a failure of the code being built.
func ToolchainFailure(out string) bool {
	for _, p := range []string{"/.cache/go-build/", "go-build cache", "could not import", "cannot open file"} {
		if i := strings.Index(out, p); i >= 0 {
			if p != "could not import" || strings.Contains(out, "no such file or directory") {
				return true
			}
		}
	}
	return false
}

// Violation prints the VIOLATION line.
func (c *Ctx) Violation(replay string, what string) {
	// an unusable toolchain is a problem of the machinery's environment, never a verdict on the code
	if ToolchainFailure(what) {
		c.Broken("the Go toolchain failed underneath the check (build cache removed while building?): %s", what)
	}
	line := fmt.Sprintf("VIOLATION property=%s replay=%s", c.ID, replay)
	fmt.Println(line)
	if what != "" {
		fmt.Println("  " + what)
	}
	c.viol = append(c.viol, line)
}

// Infof prints progress to stdout.
func (c *Ctx) Infof(format string, a ...any) {
	fmt.Printf("[%s %s %5.1fs] %s\n", c.ID, c.Tier, time.Since(c.Start).Seconds(), fmt.Sprintf(format, a...))
}

// Broken ends the run with exit 2 (machinery problem, never a violation).
func (c *Ctx) Broken(format string, a ...any) {
	fmt.Printf("CHECK-BROKEN property=%s %s\n", c.ID, fmt.Sprintf(format, a...))
	c.ev.Coverage["broken"] = fmt.Sprintf(format, a...)
	c.finish()
	exit(2)
}

func (c *Ctx) finish() {
	c.ev.WallS = time.Since(c.Start).Seconds()
	c.ev.Violations = len(c.viol)
	kf := []string{}
	for _, f := range c.Known {
		if f.Open() && c.Observed[f.ID] {
			kf = append(kf, f.ID)
		}
	}
	c.ev.Coverage["known_findings_observed"] = kf
	if c.ev.Assumptions == nil {
		c.ev.Assumptions = []string{}
	}
	if _, ok := c.ev.Coverage["samples"]; !ok {
		c.ev.Coverage["samples"] = []any{}
	}
	b, _ := json.MarshalIndent(c.ev, "", " ")
	dir := filepath.Join(plug.VerifDir(), "evidence")
	_ = os.MkdirAll(dir, 0o755)
	_ = os.WriteFile(filepath.Join(dir, c.ID+".json"), b, 0o644)
}

// Done prints KNOWN-FINDING lines, writes the evidence and exits 0 / 1.
func (c *Ctx) Done() {
	for _, f := range c.Known {
		if !f.Open() {
			continue
		}
		if c.Observed[f.ID] {
			fmt.Printf("KNOWN-FINDING: property=%s %s %s\n", c.ID, f.ID, oneLine(f.Guard+" -> "+f.Instead))
		} else {
			fmt.Printf("KNOWN-FINDING-NOT-OBSERVED: property=%s %s (not exercised or no longer failing in this run)\n", c.ID, f.ID)
		}
	}
	c.finish()
	if len(c.viol) > 0 {
		exit(1)
	}
	c.Infof("PASS")
	exit(0)
}

func oneLine(s string) string { return strings.Join(strings.Fields(s), " ") }

// exit hooks: scratch directories are removed however a check ends (Done, Broken and the
// toolchain paths end the process with os.Exit, which skips deferred calls)
var exitHooks []func()

// AtExit registers f to run before the process exits through this package.
func AtExit(f func()) { exitHooks = append(exitHooks, f) }

func exit(code int) {
	for i := len(exitHooks) - 1; i >= 0; i-- {
		exitHooks[i]()
	}
	os.Exit(code)
}
