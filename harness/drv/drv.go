// Package drv is the in-scratch-binary driver: it executes a plan of operations against the real
// emitted code and prints one JSON event per line. It observes only the public boundary (HTTP
// request/response, handler arguments/results, client return values).
package drv

import (
	"bufio"
	"bytes"
	"context"
	"encoding/base64"
	"encoding/json"
	"errors"
	"fmt"
	"io"
	"net/http"
	"net/http/httptest"
	"os"
	"runtime/debug"
	"sort"
	"strings"
	"sync"
	"sync/atomic"
	"time"

	"google.golang.org/protobuf/encoding/protojson"
	"google.golang.org/protobuf/proto"
	"google.golang.org/protobuf/reflect/protoreflect"
	"google.golang.org/protobuf/reflect/protoregistry"

	sebufhttp "github.com/SebastienMelki/sebuf/http"
)

// Fn is the generic handler callback type (identical to every package's GlueFn).
type Fn func(ctx context.Context, svc, rpc string, req proto.Message) (proto.Message, error)

// Hook is the error-hook shape.
type Hook func(http.ResponseWriter, *http.Request, error) proto.Message

// ClientOpts / CallOpts mirror the glue structs field for field.
type ClientOpts struct {
	HTTPClient     *http.Client
	ContentType    string
	DefaultHeaders [][2]string
	Helpers        [][2]string
	Shared         string // non-empty: one client instance per (service, Shared) is reused by all calls
}
type CallOpts struct {
	ContentType string
	Headers     [][2]string
	Helpers     [][2]string
	Reuse       bool // the option VALUES are created once per (service, option, argument) and reused by every call that asks for them
}

// Pkg is what the generated main registers for each emitted package.
type Pkg struct {
	Register     func(mux *http.ServeMux, fn Fn, hook Hook) error
	Call         func(ctx context.Context, baseURL string, co ClientOpts, svc, rpc string, req proto.Message, call CallOpts) (proto.Message, error)
	RegisterMock func(mux *http.ServeMux) error
}

var pkgs = map[string]*Pkg{}

// Register is called from the generated main.
func Register(key string, p *Pkg) { pkgs[key] = p }

// HandlerCfg tells the glue handler what to return.
type HandlerCfg struct {
	Kind     string      `json:"kind"`     // ok | plain | sebufError | validationError | custom | wrapped | nilnil
	RespType string      `json:"respType"` // full name of response (ok) or custom error message type
	RespB64  string      `json:"respB64"`  // binary proto of the response / custom error
	Msg      string      `json:"msg"`      // message for plain / sebufError
	Viol     [][2]string `json:"viol"`     // violations for validationError
	// Shared: the handler returns ONE response object per (type, bytes), the same pointer for every call
	// (a handler that answers from a cache): marshalling a response must leave it as it was
	Shared bool `json:"shared"`
}

// Op is one operation of a plan.
type Op struct {
	Op        string      `json:"op"` // raw | call | codec | decode | mockcall
	Case      int         `json:"case"`
	Call      int         `json:"call"`
	Pkg       string      `json:"pkg"`
	ServerPkg string      `json:"serverPkg"` // for call: package hosting the server (default Pkg)
	Verb      string      `json:"verb"`
	URL       string      `json:"url"`
	Headers   [][2]string `json:"headers"`
	// header values that are not valid UTF-8 travel base64-encoded (JSON cannot carry them)
	HeadersB64 [][2]string `json:"headersB64"`
	BodyB64    string      `json:"bodyB64"`
	NoBody     bool        `json:"noBody"`
	// how the body travels: "sized" (Content-Length), "chunked" (length unknown: ContentLength -1); default sized
	Framing string     `json:"framing"`
	Handler HandlerCfg `json:"handler"`
	Hook    string     `json:"hook"`
	// call
	Svc        string     `json:"svc"`
	Rpc        string     `json:"rpc"`
	ReqType    string     `json:"reqType"`
	ReqB64     string     `json:"reqB64"`
	SharedReq  bool       `json:"sharedReq"`
	ClientOpts ClientOpts `json:"clientOpts"`
	CallOpts   CallOpts   `json:"callOpts"`
	// canned server response for client-only ops (C11 client side)
	Canned *Canned `json:"canned"`
	// codec / decode
	Type    string `json:"type"`
	ValB64  string `json:"valB64"`
	JSONB64 string `json:"jsonB64"`
	// scheduling
	Group int  `json:"group"` // ops with the same non-zero group run concurrently
	Par   int  `json:"par"`
	Fresh bool `json:"fresh"` // serve this op by a newly registered server (reference runs)
}

// Canned is a fixed HTTP response for client-robustness ops.
type Canned struct {
	Status  int         `json:"status"`
	Headers [][2]string `json:"headers"`
	BodyB64 string      `json:"bodyB64"`
}

// Event is one output line; fields are flat and always present where meaningful.
type Event map[string]any

type opKey struct{}

type opState struct {
	op  *Op
	mu  sync.Mutex
	evs []Event
	seq int
}

// gseq orders the events of concurrently running ops (taken under the op's lock at emission).
var gseq atomic.Int64

func (s *opState) emit(ev string, kv ...any) {
	s.mu.Lock()
	defer s.mu.Unlock()
	s.seq++
	e := Event{"event": ev, "case": s.op.Case, "call": s.op.Call, "seq": s.seq, "gseq": gseq.Add(1)}
	for i := 0; i+1 < len(kv); i += 2 {
		e[kv[i].(string)] = kv[i+1]
	}
	s.evs = append(s.evs, e)
}

func b64(b []byte) string { return base64.StdEncoding.EncodeToString(b) }
func unb64(s string) []byte {
	b, _ := base64.StdEncoding.DecodeString(s)
	return b
}

func detMarshal(m proto.Message) []byte {
	b, err := proto.MarshalOptions{Deterministic: true}.Marshal(m)
	if err != nil {
		return nil
	}
	return b
}

func newMsg(full string) (proto.Message, error) {
	mt, err := protoregistry.GlobalTypes.FindMessageByName(protoreflect.FullName(full))
	if err != nil {
		return nil, fmt.Errorf("type %s not linked into driver: %w", full, err)
	}
	return mt.New().Interface(), nil
}

// sharedMsg returns one message object per (type, bytes) for the whole process.
var sharedMu sync.Mutex
var sharedMsgs = map[string]proto.Message{}

func sharedMsg(full, b string) (proto.Message, error) {
	sharedMu.Lock()
	defer sharedMu.Unlock()
	k := full + "|" + b
	if m, ok := sharedMsgs[k]; ok {
		return m, nil
	}
	m, err := fromB64(full, b)
	if err != nil {
		return nil, err
	}
	sharedMsgs[k] = m
	return m, nil
}

func fromB64(full, b string) (proto.Message, error) {
	m, err := newMsg(full)
	if err != nil {
		return nil, err
	}
	if err := proto.Unmarshal(unb64(b), m); err != nil {
		return nil, err
	}
	return m, nil
}

// ---- server side instrumentation ---------------------------------------------------------------

type countingBody struct {
	r      io.Reader
	st     *opState
	n      int
	called bool
}

func (c *countingBody) Read(p []byte) (int, error) {
	if !c.called {
		c.called = true
		c.st.emit("BodyRead")
	}
	n, err := c.r.Read(p)
	c.n += n
	return n, err
}
func (c *countingBody) Close() error { return nil }

type recWriter struct {
	st          *opState
	hdr         http.Header
	status      int
	wroteHeader int
	body        bytes.Buffer
	writes      int
}

func (w *recWriter) Header() http.Header { return w.hdr }
func (w *recWriter) WriteHeader(c int) {
	w.wroteHeader++
	if w.status == 0 {
		w.status = c
	}
}
func (w *recWriter) Write(b []byte) (int, error) {
	if w.status == 0 {
		w.status = 200
	}
	w.writes++
	return w.body.Write(b)
}

func glueFn(ctx context.Context, svc, rpc string, req proto.Message) (proto.Message, error) {
	st, _ := ctx.Value(opKey{}).(*opState)
	if st == nil {
		return nil, errors.New("driver: no op in context")
	}
	st.emit("HandlerSaw", "svc", svc, "rpc", rpc, "type", string(req.ProtoReflect().Descriptor().FullName()), "valB64", b64(detMarshal(req)))
	h := st.op.Handler
	switch h.Kind {
	case "", "ok":
		if h.RespType == "" {
			return nil, errors.New("driver: no response configured")
		}
		if h.Shared {
			return sharedMsg(h.RespType, h.RespB64)
		}
		m, err := fromB64(h.RespType, h.RespB64)
		if err != nil {
			return nil, err
		}
		return m, nil
	case "plain":
		return nil, errors.New(h.Msg)
	case "sebufError":
		return nil, &sebufhttp.Error{Message: h.Msg}
	case "validationError":
		ve := &sebufhttp.ValidationError{}
		for _, v := range h.Viol {
			ve.Violations = append(ve.Violations, &sebufhttp.FieldViolation{Field: v[0], Description: v[1]})
		}
		return nil, ve
	case "custom", "wrapped":
		m, err := fromB64(h.RespType, h.RespB64)
		if err != nil {
			return nil, err
		}
		e, ok := m.(error)
		if !ok {
			return nil, fmt.Errorf("driver: %s is not an error", h.RespType)
		}
		if h.Kind == "wrapped" {
			return nil, fmt.Errorf("wrapped: %w", e)
		}
		return nil, e
	}
	return nil, fmt.Errorf("driver: unknown handler kind %q", h.Kind)
}

func errKind(err error) string {
	var ve *sebufhttp.ValidationError
	if errors.As(err, &ve) {
		return "validationError"
	}
	var he *sebufhttp.Error
	if errors.As(err, &he) {
		return "sebufError"
	}
	var pm proto.Message
	if errors.As(err, &pm) {
		return "protoMessage"
	}
	return "other"
}

func hookFor(kind string) Hook {
	if kind == "" || kind == "none" {
		return nil
	}
	return func(w http.ResponseWriter, r *http.Request, err error) proto.Message {
		st, _ := r.Context().Value(opKey{}).(*opState)
		k := kind
		if st != nil {
			// the per-op hook behaviour wins (muxes are shared per package)
			if st.op.Hook != "" {
				k = st.op.Hook
			}
			st.emit("HookCalled", "errKind", errKind(err), "behaviour", k)
		}
		var ret proto.Message
		for _, part := range strings.Split(k, "+") {
			switch part {
			case "nil":
			case "msg":
				ret = &sebufhttp.Error{Message: "hooked"}
			case "headers":
				w.Header().Set("X-Hook", "set")
			case "status":
				w.WriteHeader(418)
			case "body":
				_, _ = w.Write([]byte("HOOKBODY"))
			}
		}
		return ret
	}
}

var (
	muxMu sync.Mutex
	muxes = map[string]*http.ServeMux{}
)

func muxFor(pkg string, hooked bool, mock bool, fresh ...bool) (*http.ServeMux, error) {
	key := fmt.Sprintf("%s|%v|%v", pkg, hooked, mock)
	isFresh := len(fresh) > 0 && fresh[0]
	muxMu.Lock()
	defer muxMu.Unlock()
	if m, ok := muxes[key]; ok && !isFresh {
		return m, nil
	}
	p := pkgs[pkg]
	if p == nil {
		return nil, fmt.Errorf("driver: package %q not linked", pkg)
	}
	mux := http.NewServeMux()
	if mock {
		if p.RegisterMock == nil {
			return nil, fmt.Errorf("driver: package %q has no mock", pkg)
		}
		if err := p.RegisterMock(mux); err != nil {
			return nil, err
		}
	} else {
		if p.Register == nil {
			return nil, fmt.Errorf("driver: package %q has no server", pkg)
		}
		var h Hook
		if hooked {
			h = hookFor("nil")
		}
		if err := p.Register(mux, glueFn, h); err != nil {
			return nil, err
		}
	}
	if !isFresh {
		muxes[key] = mux
	}
	return mux, nil
}

// serve runs one HTTP request through the real mux with instrumentation; returns the recorder.
func serve(st *opState, mux *http.ServeMux, r *http.Request) (rw *recWriter, panicked string) {
	rw = &recWriter{st: st, hdr: http.Header{}}
	defer func() {
		if p := recover(); p != nil {
			panicked = fmt.Sprint(p) + "\n" + string(debug.Stack())
		}
	}()
	mux.ServeHTTP(rw, r)
	return rw, ""
}

func hdrPairs(h http.Header) [][2]string {
	var out [][2]string
	for k, vs := range h {
		for _, v := range vs {
			out = append(out, [2]string{k, v})
		}
	}
	sort.Slice(out, func(i, j int) bool { return out[i][0]+"\x00"+out[i][1] < out[j][0]+"\x00"+out[j][1] })
	return out
}

func emitResp(st *opState, rw *recWriter, panicked string, timedOut bool) {
	if panicked != "" {
		st.emit("ServerPanic", "detail", panicked)
		return
	}
	if timedOut {
		st.emit("Timeout", "detail", "server did not answer")
		return
	}
	status := rw.status
	if status == 0 {
		status = 200
	}
	st.emit("Resp", "status", status, "ctype", rw.hdr.Get("Content-Type"), "bodyB64", b64(rw.body.Bytes()),
		"headers", hdrPairs(rw.hdr), "writeHeaderCalls", rw.wroteHeader, "writes", rw.writes)
}

func runRaw(st *opState) {
	op := st.op
	mux, err := muxFor(op.Pkg, op.Hook != "" && op.Hook != "none", op.Op == "mockraw", op.Fresh)
	if err != nil {
		st.emit("DriverError", "detail", err.Error())
		return
	}
	var body io.ReadCloser = http.NoBody
	var cb *countingBody
	if !op.NoBody {
		cb = &countingBody{r: bytes.NewReader(unb64(op.BodyB64)), st: st}
		body = cb
	}
	r, err := http.NewRequest(op.Verb, "http://test.local"+op.URL, nil)
	if err != nil {
		st.emit("DriverError", "detail", "bad request: "+err.Error())
		return
	}
	r.Body = body
	if !op.NoBody {
		// what net/http hands a handler: the announced length, or -1 for a chunked body
		if op.Framing == "chunked" {
			r.ContentLength = -1
			r.TransferEncoding = []string{"chunked"}
		} else {
			r.ContentLength = int64(len(unb64(op.BodyB64)))
		}
	}
	r.RequestURI = op.URL
	for _, h := range op.Headers {
		r.Header[http.CanonicalHeaderKey(h[0])] = append(r.Header[http.CanonicalHeaderKey(h[0])], h[1])
	}
	for _, h := range op.HeadersB64 {
		r.Header[http.CanonicalHeaderKey(h[0])] = append(r.Header[http.CanonicalHeaderKey(h[0])], string(unb64(h[1])))
	}
	r = r.WithContext(context.WithValue(context.Background(), opKey{}, st))
	done := make(chan struct{})
	var rw *recWriter
	var panicked string
	go func() {
		rw, panicked = serve(st, mux, r)
		close(done)
	}()
	select {
	case <-done:
		emitResp(st, rw, panicked, false)
	case <-time.After(10 * time.Second):
		emitResp(st, nil, "", true)
	}
}

// inProc is an http.RoundTripper that records the request the client emits and serves it through
// the real mux in-process (or answers with a canned response).
type inProc struct {
	st  *opState
	mux *http.ServeMux
}

func (t *inProc) RoundTrip(r *http.Request) (*http.Response, error) {
	st, _ := r.Context().Value(opKey{}).(*opState)
	if st == nil {
		st = t.st
	}
	var bodyBytes []byte
	if r.Body != nil {
		bodyBytes, _ = io.ReadAll(r.Body)
		_ = r.Body.Close()
	}
	st.emit("Sent", "verb", r.Method, "path", r.URL.EscapedPath(), "rawQuery", r.URL.RawQuery, "headers", hdrPairs(r.Header),
		"bodyB64", b64(bodyBytes), "hasBody", r.Body != nil && r.Body != http.NoBody)
	if c := st.op.Canned; c != nil {
		h := http.Header{}
		for _, kv := range c.Headers {
			h.Add(kv[0], kv[1])
		}
		return &http.Response{StatusCode: c.Status, Status: fmt.Sprintf("%d x", c.Status), Header: h,
			Body: io.NopCloser(bytes.NewReader(unb64(c.BodyB64))), Request: r, ProtoMajor: 1, ProtoMinor: 1}, nil
	}
	sr := httptest.NewRequest(r.Method, r.URL.RequestURI(), nil)
	cb := &countingBody{r: bytes.NewReader(bodyBytes), st: st}
	if r.Body == nil || r.Body == http.NoBody {
		sr.Body = http.NoBody
	} else {
		sr.Body = cb
		sr.ContentLength = int64(len(bodyBytes))
	}
	sr.Header = r.Header.Clone()
	sr = sr.WithContext(context.WithValue(context.Background(), opKey{}, st))
	rw, panicked := serve(st, t.mux, sr)
	if panicked != "" {
		st.emit("ServerPanic", "detail", panicked)
		return nil, errors.New("connection reset (server panic)")
	}
	emitResp(st, rw, "", false)
	status := rw.status
	if status == 0 {
		status = 200
	}
	return &http.Response{StatusCode: status, Status: fmt.Sprintf("%d x", status), Header: rw.hdr.Clone(),
		Body: io.NopCloser(bytes.NewReader(rw.body.Bytes())), Request: r, ProtoMajor: 1, ProtoMinor: 1}, nil
}

func runCall(st *opState) {
	op := st.op
	p := pkgs[op.Pkg]
	if p == nil || p.Call == nil {
		st.emit("DriverError", "detail", "package "+op.Pkg+" has no client")
		return
	}
	var mux *http.ServeMux
	if op.Canned == nil {
		sp := op.ServerPkg
		if sp == "" {
			sp = op.Pkg
		}
		var err error
		mux, err = muxFor(sp, op.Hook != "" && op.Hook != "none", false, op.Fresh)
		if err != nil {
			st.emit("DriverError", "detail", err.Error())
			return
		}
	}
	req, err := fromB64(op.ReqType, op.ReqB64)
	if op.SharedReq {
		// a caller that builds a request once and issues it from several goroutines
		req, err = sharedMsg(op.ReqType, op.ReqB64)
	}
	if err != nil {
		st.emit("DriverError", "detail", err.Error())
		return
	}
	co := op.ClientOpts
	co.HTTPClient = &http.Client{Transport: &inProc{st: st, mux: mux}}
	ctx := context.WithValue(context.Background(), opKey{}, st)
	type result struct {
		m   proto.Message
		err error
		pan string
	}
	ch := make(chan result, 1)
	go func() {
		var res result
		defer func() {
			if pv := recover(); pv != nil {
				res.pan = fmt.Sprint(pv) + "\n" + string(debug.Stack())
			}
			ch <- res
		}()
		res.m, res.err = p.Call(ctx, "http://test.local", co, op.Svc, op.Rpc, req, op.CallOpts)
	}()
	select {
	case res := <-ch:
		switch {
		case res.pan != "":
			st.emit("ClientRet", "kind", "panic", "detail", res.pan)
		case res.err != nil:
			var ve *sebufhttp.ValidationError
			var he *sebufhttp.Error
			switch {
			case errors.As(res.err, &ve):
				var vs [][2]string
				for _, v := range ve.GetViolations() {
					vs = append(vs, [2]string{v.GetField(), v.GetDescription()})
				}
				st.emit("ClientRet", "kind", "validationError", "viol", vs, "text", res.err.Error())
			case errors.As(res.err, &he):
				st.emit("ClientRet", "kind", "apiError", "message", he.GetMessage(), "text", res.err.Error())
			default:
				st.emit("ClientRet", "kind", "rawError", "text", res.err.Error())
			}
		case res.m == nil:
			st.emit("ClientRet", "kind", "nilnil")
		default:
			st.emit("ClientRet", "kind", "ok", "type", string(res.m.ProtoReflect().Descriptor().FullName()), "valB64", b64(detMarshal(res.m)))
		}
	case <-time.After(10 * time.Second):
		st.emit("ClientRet", "kind", "timeout")
	}
}

// jsonEncode encodes exactly as the emitted server/client do: json.Marshaler if implemented, else protojson.
func jsonEncode(m proto.Message) ([]byte, string, error) {
	if jm, ok := m.(json.Marshaler); ok {
		b, err := jm.MarshalJSON()
		return b, "custom", err
	}
	b, err := protojson.Marshal(m)
	return b, "protojson", err
}

func jsonDecode(b []byte, m proto.Message) (string, error) {
	if ju, ok := m.(json.Unmarshaler); ok {
		return "custom", ju.UnmarshalJSON(b)
	}
	return "protojson", protojson.Unmarshal(b, m)
}

func runCodec(st *opState) {
	op := st.op
	defer func() {
		if pv := recover(); pv != nil {
			st.emit("CodecPanic", "detail", fmt.Sprint(pv)+"\n"+string(debug.Stack()))
		}
	}()
	switch op.Op {
	case "codec":
		m, err := fromB64(op.Type, op.ValB64)
		if err != nil {
			st.emit("DriverError", "detail", err.Error())
			return
		}
		js, via, err := jsonEncode(m)
		if err != nil {
			st.emit("Codec", "type", op.Type, "encOk", false, "encErr", err.Error(), "via", via, "jsonB64", "", "decOk", false, "decErr", "", "backB64", "")
			return
		}
		back, _ := newMsg(op.Type)
		_, derr := jsonDecode(js, back)
		if derr != nil {
			st.emit("Codec", "type", op.Type, "encOk", true, "encErr", "", "via", via, "jsonB64", b64(js), "decOk", false, "decErr", derr.Error(), "backB64", "")
			return
		}
		st.emit("Codec", "type", op.Type, "encOk", true, "encErr", "", "via", via, "jsonB64", b64(js), "decOk", true, "decErr", "", "backB64", b64(detMarshal(back)))
	case "decode":
		m, err := newMsg(op.Type)
		if err != nil {
			st.emit("DriverError", "detail", err.Error())
			return
		}
		via, derr := jsonDecode(unb64(op.JSONB64), m)
		if derr != nil {
			st.emit("Decode", "type", op.Type, "ok", false, "err", derr.Error(), "via", via, "valB64", "")
			return
		}
		st.emit("Decode", "type", op.Type, "ok", true, "err", "", "via", via, "valB64", b64(detMarshal(m)))
	}
}

func runOp(op *Op) []Event {
	st := &opState{op: op}
	switch op.Op {
	case "raw", "mockraw":
		runRaw(st)
	case "call":
		runCall(st)
	case "codec", "decode":
		runCodec(st)
	default:
		st.emit("DriverError", "detail", "unknown op "+op.Op)
	}
	return st.evs
}

// Main reads a plan (one Op per line) from the file named by argv[1] (or stdin) and writes events.
func Main() {
	var in io.Reader = os.Stdin
	if len(os.Args) > 1 {
		f, err := os.Open(os.Args[1])
		if err != nil {
			fmt.Fprintln(os.Stderr, err)
			os.Exit(2)
		}
		defer f.Close()
		in = f
	}
	var ops []*Op
	sc := bufio.NewScanner(in)
	sc.Buffer(make([]byte, 1<<20), 1<<28)
	for sc.Scan() {
		line := bytes.TrimSpace(sc.Bytes())
		if len(line) == 0 {
			continue
		}
		op := &Op{}
		if err := json.Unmarshal(line, op); err != nil {
			fmt.Fprintln(os.Stderr, "bad op:", err)
			os.Exit(2)
		}
		ops = append(ops, op)
	}
	out := bufio.NewWriterSize(os.Stdout, 1<<20)
	defer out.Flush()
	enc := json.NewEncoder(out)
	write := func(evs []Event) {
		for _, e := range evs {
			_ = enc.Encode(e)
		}
	}
	for i := 0; i < len(ops); {
		if ops[i].Group == 0 {
			write(runOp(ops[i]))
			i++
			continue
		}
		j := i
		for j < len(ops) && ops[j].Group == ops[i].Group {
			j++
		}
		grp := ops[i:j]
		par := grp[0].Par
		if par <= 0 {
			par = len(grp)
		}
		results := make([][]Event, len(grp))
		sem := make(chan struct{}, par)
		var wg sync.WaitGroup
		for k := range grp {
			wg.Add(1)
			sem <- struct{}{}
			go func(k int) {
				defer wg.Done()
				defer func() { <-sem }()
				results[k] = runOp(grp[k])
			}(k)
		}
		wg.Wait()
		for _, evs := range results {
			write(evs)
		}
		i = j
	}
}
