// Package tlc runs TLC on the specification suite and parses its output.
package tlc

import (
	"bufio"
	"bytes"
	"encoding/json"
	"fmt"
	"os"
	"os/exec"
	"path/filepath"
	"regexp"
	"strconv"
	"strings"
	"time"

	"verifharness/plug"
)

// Run describes one TLC invocation.
type Run struct {
	Module    string            // e.g. "MC_Wire"
	Config    string            // cfg file name inside spec dir, e.g. "MC_Wire_C02.cfg"
	Constants map[string]string // overrides written into a derived cfg (TLA+ syntax values)
	Workers   int
	Timeout   time.Duration
	Simulate  string // e.g. "num=100" ; empty = model checking
	Depth     int    // simulation depth
	Seed      int64  // simulation seed
	Coverage  bool
	Files     map[string]string // extra files copied next to the spec (e.g. trace.ndjson -> path)
	DFS       bool              // use StateDeque (depth-first queue) for branching trace specs
	Extra     []string
}

// Result is the parsed outcome.
type Result struct {
	OK          bool
	Generated   int64
	Distinct    int64
	Depth       int
	Violated    string // invariant / property name, "" if none
	PostFailed  bool   // POSTCONDITION false
	Error       string // TLC error text (spec error, crash)
	TimedOut    bool
	Cases       []json.RawMessage       // lines printed as <<"CASE", "json">>
	Printed     []string                // other PrintT lines
	RejectedAt  int                     // TRACE_REJECTED_AT_LINE n (0 = none)
	Verdicts    map[int]Verdict         // <<"VERDICT", line, ok, how>>
	Expects     map[int]json.RawMessage // <<"EXPECT", line, "json">>
	ZeroCover   []string                // actions with zero coverage (when Coverage)
	ActionCover map[string]int64
	Output      string
	WallS       float64
}

var (
	reGen   = regexp.MustCompile(`(\d+) states generated, (\d+) distinct states found`)
	reDepth = regexp.MustCompile(`depth of the complete state graph search is (\d+)`)
	reInv   = regexp.MustCompile(`Invariant (\S+) is violated`)
	reProp  = regexp.MustCompile(`(?:Action property|Temporal property|property) (\S+) (?:is|was) violated`)
	reCase  = regexp.MustCompile(`^<<"CASE", "(.*)">>$`)
	reRej   = regexp.MustCompile(`TRACE_REJECTED_AT_LINE", (\d+)`)
	reCover = regexp.MustCompile(`^<(\w+) line \d+, col \d+ to line \d+, col \d+ of module (\w+)>: (\d+):(\d+)`)
)

// Verdict is one judged trace line.
type Verdict struct {
	OK  bool
	How string
}

var (
	reVerdict = regexp.MustCompile(`^<<"VERDICT", (\d+), (TRUE|FALSE), "([^"]*)">>$`)
	reExpect  = regexp.MustCompile(`^<<"EXPECT", (\d+), "(.*)">>$`)
)

// SpecDir returns the directory holding the specification suite.
func SpecDir() string { return filepath.Join(plug.VerifDir(), "spec") }

// Exec runs TLC in a scratch copy of the spec directory.
func Exec(r Run) (*Result, error) {
	base := os.Getenv("VERIF_TMP")
	if base == "" {
		base = os.TempDir()
	}
	dir, err := os.MkdirTemp(base, "vh-tlc-")
	if err != nil {
		return nil, err
	}
	defer os.RemoveAll(dir)
	atExit(func() { _ = os.RemoveAll(dir) })
	// copy the spec suite
	ents, err := os.ReadDir(SpecDir())
	if err != nil {
		return nil, err
	}
	for _, e := range ents {
		if e.IsDir() || !(strings.HasSuffix(e.Name(), ".tla") || strings.HasSuffix(e.Name(), ".cfg")) {
			continue
		}
		b, err := os.ReadFile(filepath.Join(SpecDir(), e.Name()))
		if err != nil {
			return nil, err
		}
		if err := os.WriteFile(filepath.Join(dir, e.Name()), b, 0o644); err != nil {
			return nil, err
		}
	}
	for name, src := range r.Files {
		b, err := os.ReadFile(src)
		if err != nil {
			return nil, err
		}
		if err := os.WriteFile(filepath.Join(dir, name), b, 0o644); err != nil {
			return nil, err
		}
	}
	cfg := r.Config
	if len(r.Constants) > 0 {
		b, err := os.ReadFile(filepath.Join(dir, r.Config))
		if err != nil {
			return nil, err
		}
		txt := string(b)
		for k, v := range r.Constants {
			re := regexp.MustCompile(`(?m)^(\s*)` + regexp.QuoteMeta(k) + `\s*=.*$`)
			if re.MatchString(txt) {
				txt = re.ReplaceAllString(txt, "${1}"+k+" = "+v)
			} else {
				txt = strings.Replace(txt, "CONSTANTS", "CONSTANTS\n  "+k+" = "+v, 1)
			}
		}
		cfg = "derived_" + r.Config
		if err := os.WriteFile(filepath.Join(dir, cfg), []byte(txt), 0o644); err != nil {
			return nil, err
		}
	}
	if r.Workers == 0 {
		r.Workers = 8
	}
	if r.Timeout == 0 {
		r.Timeout = 10 * time.Minute
	}
	args := []string{fmt.Sprint(int(r.Timeout.Seconds()) + 5), "tlc", "-workers", strconv.Itoa(r.Workers), "-metadir", filepath.Join(dir, "md"), "-config", cfg}
	if r.Simulate != "" {
		args = append(args, "-simulate", r.Simulate)
		if r.Depth > 0 {
			args = append(args, "-depth", strconv.Itoa(r.Depth))
		}
		args = append(args, "-seed", strconv.FormatInt(r.Seed, 10))
	}
	if r.Coverage {
		args = append(args, "-coverage", "1")
	}
	args = append(args, r.Extra...)
	args = append(args, r.Module+".tla")
	cmd := exec.Command("timeout", args...)
	cmd.Dir = dir
	cmd.Env = os.Environ()
	// UTF-8 on stdout: PrintT / ToJson output carries non-ASCII string values
	jopts := "-Xss64m -Dfile.encoding=UTF-8 -Dstdout.encoding=UTF-8 -Dsun.stdout.encoding=UTF-8"
	if r.DFS {
		jopts += " -Dtlc2.tool.queue.IStateQueue=StateDeque"
	}
	cmd.Env = append(cmd.Env, "JAVA_TOOL_OPTIONS="+jopts, "LC_ALL=C.UTF-8")
	var out bytes.Buffer
	cmd.Stdout, cmd.Stderr = &out, &out
	start := time.Now()
	runErr := cmd.Run()
	res := &Result{Output: out.String(), WallS: time.Since(start).Seconds(), ActionCover: map[string]int64{},
		Verdicts: map[int]Verdict{}, Expects: map[int]json.RawMessage{}}
	if ee, ok := runErr.(*exec.ExitError); ok && ee.ExitCode() == 124 {
		res.TimedOut = true
	}
	sc := bufio.NewScanner(&out)
	sc.Buffer(make([]byte, 1<<20), 1<<28)
	completed := false
	var errLines []string
	inErr := false
	for sc.Scan() {
		line := sc.Text()
		if m := reCase.FindStringSubmatch(line); m != nil {
			var s string
			if err := json.Unmarshal([]byte(`"`+m[1]+`"`), &s); err == nil {
				res.Cases = append(res.Cases, json.RawMessage(s))
			}
			continue
		}
		if m := reVerdict.FindStringSubmatch(line); m != nil {
			n, _ := strconv.Atoi(m[1])
			res.Verdicts[n] = Verdict{OK: m[2] == "TRUE", How: m[3]}
			continue
		}
		if m := reExpect.FindStringSubmatch(line); m != nil {
			n, _ := strconv.Atoi(m[1])
			var s string
			if err := json.Unmarshal([]byte(`"`+m[2]+`"`), &s); err == nil {
				res.Expects[n] = json.RawMessage(s)
			}
			continue
		}
		if m := reGen.FindStringSubmatch(line); m != nil {
			res.Generated, _ = strconv.ParseInt(m[1], 10, 64)
			res.Distinct, _ = strconv.ParseInt(m[2], 10, 64)
		}
		if m := reDepth.FindStringSubmatch(line); m != nil {
			res.Depth, _ = strconv.Atoi(m[1])
		}
		if m := reInv.FindStringSubmatch(line); m != nil && res.Violated == "" {
			res.Violated = m[1]
		}
		if m := reProp.FindStringSubmatch(line); m != nil && res.Violated == "" {
			res.Violated = m[1]
		}
		if m := reRej.FindStringSubmatch(line); m != nil {
			res.RejectedAt, _ = strconv.Atoi(m[1])
		}
		if strings.Contains(line, "Model checking completed. No error has been found.") {
			completed = true
		}
		if strings.Contains(line, "ostcondition") && strings.Contains(line, "violated") || strings.Contains(line, "POSTCONDITION") && strings.Contains(line, "alse") {
			res.PostFailed = true
		}
		if m := reCover.FindStringSubmatch(line); m != nil {
			n, _ := strconv.ParseInt(m[4], 10, 64)
			res.ActionCover[m[2]+"!"+m[1]] = n
			if n == 0 {
				res.ZeroCover = append(res.ZeroCover, m[2]+"!"+m[1])
			}
		}
		if strings.HasPrefix(line, "Error:") {
			inErr = true
		}
		if inErr && len(errLines) < 30 {
			errLines = append(errLines, line)
		}
		if strings.HasPrefix(line, "<<") && !strings.HasPrefix(line, `<<"CASE"`) {
			res.Printed = append(res.Printed, line)
		}
	}
	if res.RejectedAt > 0 {
		res.PostFailed = true
	}
	res.OK = completed && res.Violated == "" && !res.PostFailed && !res.TimedOut
	if r.Simulate != "" && runErr == nil && res.Violated == "" {
		res.OK = true
	}
	if !res.OK && res.Violated == "" && !res.PostFailed {
		res.Error = strings.Join(errLines, "\n")
		if res.Error == "" && !res.TimedOut {
			tail := res.Output
			if len(tail) > 3000 {
				tail = tail[len(tail)-3000:]
			}
			res.Error = "TLC did not complete: " + tail
		}
	}
	return res, nil
}

// AtExit is set by package chk (which cannot be imported from here without a cycle through trace): scratch
// directories are removed however the process ends.
var AtExit func(func())

func atExit(f func()) {
	if AtExit != nil {
		AtExit(f)
	}
}
