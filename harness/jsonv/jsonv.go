// Package jsonv abstracts protobuf values and JSON documents into the trees SebufJson.tla reads:
// value trees with per-leaf renderings (computed by small independent functions, protojson being
// the reference for unannotated leaves) and tagged JSON trees that keep member order and duplicates.
package jsonv

import (
	"bytes"
	"encoding/base64"
	"encoding/hex"
	"encoding/json"
	"fmt"
	"io"
	"math"
	"math/big"
	"sort"
	"strconv"
	"strings"
	"time"
	"unicode/utf8"

	"google.golang.org/protobuf/encoding/protojson"
	"google.golang.org/protobuf/proto"
	"google.golang.org/protobuf/reflect/protoreflect"

	"verifharness/abs"
	"verifharness/val"
)

type M = map[string]any

func J(t, v string) M {
	if t == "num" {
		_, isInt := new(big.Int).SetString(v, 10)
		return M{"t": t, "v": v, "int": isInt}
	}
	return M{"t": t, "v": v}
}

// DocTree parses an OpenAPI document (JSON rendering) into a tagged tree in which every "$ref"
// value is pre-split into its JSON-pointer segments: [t |-> "ref", path |-> <<...>>, raw |-> "..."].
func DocTree(b []byte) (M, error) {
	t, err := ParseJSON(b)
	if err != nil {
		return nil, err
	}
	splitRefs(t)
	return t, nil
}

func splitRefs(n M) {
	switch n["t"] {
	case "obj":
		for _, m := range n["m"].([]M) {
			v := m["v"].(M)
			// the targets of a discriminator mapping are references too (schema names or URI references):
			// each becomes {"$ref": <target>} so that the specification's AllRefs / RefOK see them
			if m["k"] == "mapping" && v["t"] == "obj" {
				for _, mm := range v["m"].([]M) {
					if tv := mm["v"].(M); tv["t"] == "str" {
						raw := tv["v"].(string)
						segs := []string{}
						if strings.HasPrefix(raw, "#/") {
							segs = strings.Split(strings.TrimPrefix(raw, "#/"), "/")
						}
						mm["v"] = M{"t": "obj", "m": []M{{"k": "$ref", "v": M{"t": "ref", "path": segs, "raw": raw}}}}
					}
				}
				continue
			}
			if m["k"] == "$ref" && v["t"] == "str" {
				raw := v["v"].(string)
				segs := []string{}
				if strings.HasPrefix(raw, "#/") {
					segs = strings.Split(strings.TrimPrefix(raw, "#/"), "/")
				}
				m["v"] = M{"t": "ref", "path": segs, "raw": raw}
				continue
			}
			splitRefs(v)
		}
	case "arr":
		for _, e := range n["e"].([]M) {
			splitRefs(e)
		}
	}
}

// FromGeneric converts a generically decoded document (YAML parsers) into the same tagged tree.
func FromGeneric(v any) M {
	switch x := v.(type) {
	case map[string]any:
		keys := make([]string, 0, len(x))
		for k := range x {
			keys = append(keys, k)
		}
		sort.Strings(keys)
		ms := []M{}
		for _, k := range keys {
			ms = append(ms, M{"k": k, "v": FromGeneric(x[k])})
		}
		return M{"t": "obj", "m": ms}
	case map[any]any:
		m2 := map[string]any{}
		for k, vv := range x {
			m2[fmt.Sprint(k)] = vv
		}
		return FromGeneric(m2)
	case []any:
		es := []M{}
		for _, e := range x {
			es = append(es, FromGeneric(e))
		}
		return M{"t": "arr", "e": es}
	case string:
		return J("str", x)
	case bool:
		return J("bool", strconv.FormatBool(x))
	case nil:
		return M{"t": "null"}
	case int:
		return J("num", strconv.Itoa(x))
	case int64:
		return J("num", strconv.FormatInt(x, 10))
	case uint64:
		return J("num", strconv.FormatUint(x, 10))
	case float64:
		return J("num", CanonNum(strconv.FormatFloat(x, 'g', -1, 64)))
	case json.Number:
		return J("num", CanonNum(x.String()))
	}
	return J("str", fmt.Sprintf("?%T:%v", v, v))
}

// SortTree orders object members by key (for comparing documents read by different parsers).
func SortTree(n M) M {
	switch n["t"] {
	case "obj":
		ms := append([]M{}, n["m"].([]M)...)
		sort.SliceStable(ms, func(a, b int) bool { return ms[a]["k"].(string) < ms[b]["k"].(string) })
		out := []M{}
		for _, m := range ms {
			out = append(out, M{"k": m["k"], "v": SortTree(m["v"].(M))})
		}
		return M{"t": "obj", "m": out}
	case "arr":
		out := []M{}
		for _, e := range n["e"].([]M) {
			out = append(out, SortTree(e))
		}
		return M{"t": "arr", "e": out}
	}
	return n
}

// Lookup walks object members by key.
func Lookup(n M, path ...string) M {
	cur := n
	for _, k := range path {
		if cur == nil || cur["t"] != "obj" {
			return nil
		}
		var next M
		for _, m := range cur["m"].([]M) {
			if m["k"] == k {
				next = m["v"].(M)
			}
		}
		cur = next
	}
	return cur
}

// CanonNum normalises a JSON number literal: integers exactly, everything else through float64.
func CanonNum(lit string) string {
	if i, ok := new(big.Int).SetString(lit, 10); ok {
		return i.String()
	}
	f, err := strconv.ParseFloat(lit, 64)
	if err != nil {
		return "?" + lit
	}
	if f == math.Trunc(f) && math.Abs(f) < 1e15 {
		return strconv.FormatFloat(f, 'f', -1, 64)
	}
	return strconv.FormatFloat(f, 'g', -1, 64)
}

// ParseJSON parses a document into a tagged tree preserving member order and duplicate keys.
func ParseJSON(b []byte) (M, error) {
	dec := json.NewDecoder(bytes.NewReader(b))
	dec.UseNumber()
	v, err := parseValue(dec)
	if err != nil {
		return nil, err
	}
	if _, err := dec.Token(); err != io.EOF {
		return nil, fmt.Errorf("trailing data")
	}
	return v, nil
}

func parseValue(dec *json.Decoder) (M, error) {
	tok, err := dec.Token()
	if err != nil {
		return nil, err
	}
	switch t := tok.(type) {
	case json.Delim:
		switch t {
		case '{':
			ms := []M{}
			for dec.More() {
				kt, err := dec.Token()
				if err != nil {
					return nil, err
				}
				k, _ := kt.(string)
				v, err := parseValue(dec)
				if err != nil {
					return nil, err
				}
				ms = append(ms, M{"k": k, "v": v})
			}
			if _, err := dec.Token(); err != nil {
				return nil, err
			}
			return M{"t": "obj", "m": ms}, nil
		case '[':
			es := []M{}
			for dec.More() {
				v, err := parseValue(dec)
				if err != nil {
					return nil, err
				}
				es = append(es, v)
			}
			if _, err := dec.Token(); err != nil {
				return nil, err
			}
			return M{"t": "arr", "e": es}, nil
		}
		return nil, fmt.Errorf("unexpected delimiter %v", t)
	case string:
		return J("str", t), nil
	case json.Number:
		return J("num", CanonNum(t.String())), nil
	case bool:
		return J("bool", strconv.FormatBool(t)), nil
	case nil:
		return M{"t": "null"}, nil
	}
	return nil, fmt.Errorf("unexpected token %v", tok)
}

func tsRFC3339(t time.Time) string {
	// protojson: RFC 3339 in UTC with 0, 3, 6 or 9 fractional digits
	s := t.UTC().Format("2006-01-02T15:04:05.000000000")
	s = strings.TrimSuffix(s, "000")
	s = strings.TrimSuffix(s, "000")
	s = strings.TrimSuffix(s, ".000")
	return s + "Z"
}

// leaf builds the leaf record of a singular value of field fd.
func leaf(fd protoreflect.FieldDescriptor, v protoreflect.Value, enumCustom map[string]map[int32]string) M {
	r := M{"t": "s"}
	set := func(std M) {
		for _, k := range []string{"std", "num", "custom", "unixs", "unixms", "date", "b64", "b64raw", "b64url", "b64urlraw", "hex"} {
			r[k] = std
		}
	}
	tok := ""
	switch fd.Kind() {
	case protoreflect.BoolKind:
		set(J("bool", strconv.FormatBool(v.Bool())))
		tok = strconv.FormatBool(v.Bool())
	case protoreflect.Int32Kind, protoreflect.Sint32Kind, protoreflect.Sfixed32Kind:
		set(J("num", strconv.FormatInt(v.Int(), 10)))
		tok = strconv.FormatInt(v.Int(), 10)
	case protoreflect.Uint32Kind, protoreflect.Fixed32Kind:
		set(J("num", strconv.FormatUint(v.Uint(), 10)))
		tok = strconv.FormatUint(v.Uint(), 10)
	case protoreflect.Int64Kind, protoreflect.Sint64Kind, protoreflect.Sfixed64Kind:
		set(J("str", strconv.FormatInt(v.Int(), 10)))
		r["num"] = J("num", strconv.FormatInt(v.Int(), 10))
		tok = strconv.FormatInt(v.Int(), 10)
	case protoreflect.Uint64Kind, protoreflect.Fixed64Kind:
		set(J("str", strconv.FormatUint(v.Uint(), 10)))
		r["num"] = J("num", strconv.FormatUint(v.Uint(), 10))
		tok = strconv.FormatUint(v.Uint(), 10)
	case protoreflect.FloatKind, protoreflect.DoubleKind:
		f := v.Float()
		bits := 64
		if fd.Kind() == protoreflect.FloatKind {
			bits = 32
		}
		switch {
		case math.IsNaN(f):
			set(J("str", "NaN"))
		case math.IsInf(f, 1):
			set(J("str", "Infinity"))
		case math.IsInf(f, -1):
			set(J("str", "-Infinity"))
		default:
			set(J("num", CanonNum(strconv.FormatFloat(f, 'g', -1, bits))))
		}
		tok = "f" + strconv.FormatFloat(f, 'g', -1, bits)
	case protoreflect.StringKind:
		set(J("str", v.String()))
		tok = strconv.Quote(v.String())
	case protoreflect.BytesKind:
		b := v.Bytes()
		set(J("str", base64.StdEncoding.EncodeToString(b)))
		r["b64raw"] = J("str", base64.RawStdEncoding.EncodeToString(b))
		r["b64url"] = J("str", base64.URLEncoding.EncodeToString(b))
		r["b64urlraw"] = J("str", base64.RawURLEncoding.EncodeToString(b))
		r["hex"] = J("str", hex.EncodeToString(b))
		tok = "x'" + hex.EncodeToString(b) + "'"
	case protoreflect.EnumKind:
		n := int32(v.Enum())
		ev := fd.Enum().Values().ByNumber(v.Enum())
		if ev != nil {
			set(J("str", string(ev.Name())))
		} else {
			set(J("num", strconv.Itoa(int(n))))
		}
		r["num"] = J("num", strconv.Itoa(int(n)))
		if c, ok := enumCustom[string(fd.Enum().FullName())][n]; ok && c != "" {
			r["custom"] = J("str", c)
		}
		tok = "e" + strconv.Itoa(int(n))
	}
	r["tok"], r["tokS"], r["tokMs"], r["tokDate"] = tok, tok, tok, tok
	// what the length rules count: characters of a string, bytes of a bytes value
	r["len"] = 0
	switch fd.Kind() {
	case protoreflect.StringKind:
		r["len"] = utf8.RuneCountInString(v.String())
	case protoreflect.BytesKind:
		r["len"] = len(v.Bytes())
	}
	return r
}

// wktLeaf renders a well-known / foreign message as a leaf (protojson's rendering as std).
func wktLeaf(m protoreflect.Message) M {
	r := M{"t": "s"}
	var std M
	if b, err := protojson.Marshal(m.Interface()); err == nil {
		std, _ = ParseJSON(b)
	}
	if std == nil {
		std = J("str", "?unrenderable")
	}
	for _, k := range []string{"std", "num", "custom", "unixs", "unixms", "date", "b64", "b64raw", "b64url", "b64urlraw", "hex"} {
		r[k] = std
	}
	tok := val.Message(m)
	r["tok"], r["tokS"], r["tokMs"], r["tokDate"] = tok, tok, tok, tok
	r["len"] = 0
	r["wempty"] = proto.Size(m.Interface()) == 0 // what empty_behavior calls empty
	if m.Descriptor().FullName() == "google.protobuf.Timestamp" {
		sec := m.Get(m.Descriptor().Fields().ByName("seconds")).Int()
		nanos := m.Get(m.Descriptor().Fields().ByName("nanos")).Int()
		t := time.Unix(sec, nanos).UTC()
		r["std"] = J("str", tsRFC3339(t))
		for _, k := range []string{"num", "custom", "b64", "b64raw", "b64url", "b64urlraw", "hex"} {
			r[k] = r["std"]
		}
		r["unixs"] = J("num", strconv.FormatInt(sec, 10))
		r["unixms"] = J("num", strconv.FormatInt(sec*1000+nanos/1e6, 10))
		r["date"] = J("str", t.Format("2006-01-02"))
		r["tok"] = fmt.Sprintf("ts:%d.%09d", sec, nanos)
		r["tokS"] = fmt.Sprintf("ts:%d.%09d", sec, 0)
		r["tokMs"] = fmt.Sprintf("ts:%d.%09d", sec, nanos/1e6*1e6)
		d := time.Date(t.Year(), t.Month(), t.Day(), 0, 0, 0, 0, time.UTC)
		r["tokDate"] = fmt.Sprintf("ts:%d.%09d", d.Unix(), 0)
	}
	return r
}

// Tree builds the value tree of a message. known = full names of the schema's own messages.
type Tree struct {
	Known      map[string]bool
	EnumCustom map[string]map[int32]string
}

// NewTree indexes a schema.
func NewTree(s *abs.Schema) *Tree {
	t := &Tree{Known: map[string]bool{}, EnumCustom: map[string]map[int32]string{}}
	ix := s.Index()
	for n := range ix.Msgs {
		t.Known[n] = true
	}
	for n, e := range ix.Enums {
		t.EnumCustom[n] = map[int32]string{}
		for _, v := range e.Values {
			t.EnumCustom[n][v.Num] = v.Custom
		}
	}
	return t
}

func (t *Tree) single(fd protoreflect.FieldDescriptor, v protoreflect.Value) M {
	if fd.Kind() == protoreflect.MessageKind || fd.Kind() == protoreflect.GroupKind {
		return t.Msg(v.Message())
	}
	return leaf(fd, v, t.EnumCustom)
}

// Msg renders a message value.
func (t *Tree) Msg(m protoreflect.Message) M {
	full := string(m.Descriptor().FullName())
	if !t.Known[full] {
		return wktLeaf(m)
	}
	fs := []M{}
	fds := m.Descriptor().Fields()
	for i := 0; i < fds.Len(); i++ {
		fd := fds.Get(i)
		var v M
		switch {
		case fd.IsMap():
			mp := m.Get(fd).Map()
			type kv struct {
				k string
				v M
			}
			var es []kv
			mp.Range(func(k protoreflect.MapKey, x protoreflect.Value) bool {
				es = append(es, kv{mapKeyText(fd.MapKey(), k), t.single(fd.MapValue(), x)})
				return true
			})
			sort.Slice(es, func(a, b int) bool { return es[a].k < es[b].k })
			out := []M{}
			for _, e := range es {
				out = append(out, M{"k": e.k, "v": e.v})
			}
			v = M{"t": "mp", "es": out}
		case fd.IsList():
			l := m.Get(fd).List()
			out := []M{}
			for j := 0; j < l.Len(); j++ {
				out = append(out, t.single(fd, l.Get(j)))
			}
			v = M{"t": "l", "es": out}
		default:
			v = t.single(fd, m.Get(fd))
		}
		fs = append(fs, M{"name": string(fd.Name()), "has": m.Has(fd), "v": v})
	}
	return M{"t": "m", "type": full, "empty": proto.Size(m.Interface()) == 0, "fs": fs, "tok": val.Message(m)}
}

func mapKeyText(fd protoreflect.FieldDescriptor, k protoreflect.MapKey) string {
	switch fd.Kind() {
	case protoreflect.StringKind:
		return k.String()
	case protoreflect.BoolKind:
		return strconv.FormatBool(k.Bool())
	case protoreflect.Uint32Kind, protoreflect.Uint64Kind, protoreflect.Fixed32Kind, protoreflect.Fixed64Kind:
		return strconv.FormatUint(k.Uint(), 10)
	default:
		return strconv.FormatInt(k.Int(), 10)
	}
}
