package jsonv

import (
	"math"
	"math/rand"

	"google.golang.org/protobuf/reflect/protoreflect"
	"google.golang.org/protobuf/types/dynamicpb"
)

// Mode selects a value class for GenValue.
//
//	0 default (nothing set)   1 fully populated, ordinary leaves
//	2 boundary leaves, set-but-empty sub-messages, optionals set to their zero value
//	3.. seeded random
type genCtx struct {
	mode  int
	rnd   *rand.Rand
	known map[string]bool
}

// GenValue builds a value of md. known = the schema's own message names (others are WKTs).
func GenValue(md protoreflect.MessageDescriptor, mode int, seed int64, known map[string]bool) *dynamicpb.Message {
	g := &genCtx{mode: mode, rnd: rand.New(rand.NewSource(seed*1000 + int64(mode))), known: known}
	return g.msg(md, 0)
}

// ModeSparse: every message-typed field (singular, one list element, one map entry, the first
// message member of a oneof) is PRESENT, every scalar, optional scalar and well-known-type field is
// left unset: messages that are there but say nothing.
const ModeSparse = 99

func (g *genCtx) random() bool { return g.mode >= 3 && g.mode != ModeSparse }

func (g *genCtx) pick(n int) int {
	if g.random() {
		return g.rnd.Intn(n)
	}
	return (g.mode - 1) % n
}

func (g *genCtx) scalar(fd protoreflect.FieldDescriptor, i int) protoreflect.Value {
	b := g.mode == 2
	r := g.random()
	switch fd.Kind() {
	case protoreflect.BoolKind:
		return protoreflect.ValueOfBool(!b || i%2 == 1)
	case protoreflect.Int32Kind, protoreflect.Sint32Kind, protoreflect.Sfixed32Kind:
		if b {
			return protoreflect.ValueOfInt32([]int32{math.MinInt32, math.MaxInt32, -1}[i%3])
		}
		if r {
			return protoreflect.ValueOfInt32(int32(g.rnd.Uint32()))
		}
		return protoreflect.ValueOfInt32(int32(7 + i))
	case protoreflect.Uint32Kind, protoreflect.Fixed32Kind:
		if b {
			return protoreflect.ValueOfUint32(math.MaxUint32)
		}
		if r {
			return protoreflect.ValueOfUint32(g.rnd.Uint32())
		}
		return protoreflect.ValueOfUint32(uint32(8 + i))
	case protoreflect.Int64Kind, protoreflect.Sint64Kind, protoreflect.Sfixed64Kind:
		if b {
			return protoreflect.ValueOfInt64([]int64{math.MinInt64, math.MaxInt64, 9007199254740993, -9007199254740993}[i%4])
		}
		if r {
			return protoreflect.ValueOfInt64(int64(g.rnd.Uint64()))
		}
		return protoreflect.ValueOfInt64(int64(1234567 + i))
	case protoreflect.Uint64Kind, protoreflect.Fixed64Kind:
		if b {
			return protoreflect.ValueOfUint64([]uint64{math.MaxUint64, 9007199254740993}[i%2])
		}
		if r {
			return protoreflect.ValueOfUint64(g.rnd.Uint64())
		}
		return protoreflect.ValueOfUint64(uint64(7654321 + i))
	case protoreflect.FloatKind:
		if b {
			return protoreflect.ValueOfFloat32([]float32{math.MaxFloat32, -1.5e-7, 16777217}[i%3])
		}
		if r {
			return protoreflect.ValueOfFloat32(float32(g.rnd.NormFloat64() * 1000))
		}
		return protoreflect.ValueOfFloat32(1.5 + float32(i))
	case protoreflect.DoubleKind:
		if b {
			return protoreflect.ValueOfFloat64([]float64{math.MaxFloat64, 5e-324, 0.1 + 0.2}[i%3])
		}
		if r {
			return protoreflect.ValueOfFloat64(g.rnd.NormFloat64() * 1e6)
		}
		return protoreflect.ValueOfFloat64(2.25 + float64(i))
	case protoreflect.StringKind:
		if b {
			return protoreflect.ValueOfString([]string{"héllo wörld ✓ \"q\" \\ /  ", "line\nbreak\ttab", " "}[i%3])
		}
		if r {
			bs := make([]rune, 1+g.rnd.Intn(6))
			for k := range bs {
				bs[k] = rune(0x20 + g.rnd.Intn(0x250))
			}
			return protoreflect.ValueOfString(string(bs))
		}
		return protoreflect.ValueOfString([]string{"alpha", "beta", "gamma"}[i%3])
	case protoreflect.BytesKind:
		if b {
			return protoreflect.ValueOfBytes([][]byte{{0xff, 0xfe, 0xfd, 0x00}, {0xfb, 0xff}, {0x3e, 0x3f, 0x3f}}[i%3])
		}
		if r {
			bs := make([]byte, 1+g.rnd.Intn(7))
			g.rnd.Read(bs)
			return protoreflect.ValueOfBytes(bs)
		}
		return protoreflect.ValueOfBytes([]byte("Hello" + string(rune('a'+i))))
	case protoreflect.EnumKind:
		vs := fd.Enum().Values()
		idx := 1 + i
		if r {
			idx = g.rnd.Intn(vs.Len())
		}
		if b {
			idx = vs.Len() - 1
		}
		return protoreflect.ValueOfEnum(vs.Get(idx % vs.Len()).Number())
	}
	return protoreflect.Value{}
}

func (g *genCtx) wkt(md protoreflect.MessageDescriptor, i int) *dynamicpb.Message {
	m := dynamicpb.NewMessage(md)
	switch md.FullName() {
	case "google.protobuf.Timestamp":
		sec, nanos := int64(1705312200+i), int32(123456789)
		if g.mode == 2 {
			sec, nanos = []int64{0, -1, 253402300799}[i%3], []int32{0, 999999999, 500000000}[i%3]
		}
		if g.random() {
			sec, nanos = g.rnd.Int63n(4e9), int32(g.rnd.Intn(1e9))
		}
		m.Set(md.Fields().ByName("seconds"), protoreflect.ValueOfInt64(sec))
		m.Set(md.Fields().ByName("nanos"), protoreflect.ValueOfInt32(nanos))
	case "google.protobuf.Duration":
		if g.mode == 2 && i%2 == 0 {
			return m // present and at its default ("0s")
		}
		m.Set(md.Fields().ByName("seconds"), protoreflect.ValueOfInt64(int64(90+i)))
	case "google.protobuf.StringValue":
		if g.mode != 2 {
			m.Set(md.Fields().ByName("value"), protoreflect.ValueOfString([]string{"wrapped", "caf\u00e9", "a b"}[i%3]))
		}
	case "google.protobuf.Int32Value":
		if g.mode != 2 {
			m.Set(md.Fields().ByName("value"), protoreflect.ValueOfInt32(int32(7+i)))
		}
	case "google.protobuf.Int64Value":
		if g.mode != 2 {
			m.Set(md.Fields().ByName("value"), protoreflect.ValueOfInt64(9007199254740993+int64(i)))
		}
	case "google.protobuf.BoolValue":
		if g.mode != 2 {
			m.Set(md.Fields().ByName("value"), protoreflect.ValueOfBool(true))
		}
	case "google.protobuf.Value":
		// a Value always has a kind (an empty one has no JSON form): null, a string, a number, a bool in turn
		switch ((i+g.mode)%4 + 4) % 4 {
		case 0:
			m.Set(md.Fields().ByName("null_value"), protoreflect.ValueOfEnum(0))
		case 1:
			m.Set(md.Fields().ByName("string_value"), protoreflect.ValueOfString("free"))
		case 2:
			m.Set(md.Fields().ByName("number_value"), protoreflect.ValueOfFloat64(2.5))
		default:
			m.Set(md.Fields().ByName("bool_value"), protoreflect.ValueOfBool(true))
		}
	case "google.protobuf.ListValue":
		if g.mode != 2 {
			fd := md.Fields().ByName("values")
			l := m.Mutable(fd).List()
			l.Append(protoreflect.ValueOfMessage(g.wkt(fd.Message(), 0))) // null
			l.Append(protoreflect.ValueOfMessage(g.wkt(fd.Message(), 1)))
		}
	case "google.protobuf.Struct":
		if g.mode != 2 {
			fd := md.Fields().ByName("fields")
			mp := m.Mutable(fd).Map()
			mp.Set(protoreflect.ValueOfString("k").MapKey(), protoreflect.ValueOfMessage(g.wkt(fd.MapValue().Message(), 1)))
			mp.Set(protoreflect.ValueOfString("nothing").MapKey(), protoreflect.ValueOfMessage(g.wkt(fd.MapValue().Message(), 0)))
		}
	}
	return m
}

// defaultHasJSONForm: the well-known types whose default value has a proto3 JSON form (a Value
// without a kind and an Any without a type have none)
func defaultHasJSONForm(md protoreflect.MessageDescriptor) bool {
	switch md.FullName() {
	case "google.protobuf.Value", "google.protobuf.Any":
		return false
	}
	return true
}

func (g *genCtx) single(fd protoreflect.FieldDescriptor, depth, i int) (protoreflect.Value, bool) {
	if fd.Kind() == protoreflect.MessageKind {
		md := fd.Message()
		if !g.known[string(md.FullName())] {
			return protoreflect.ValueOfMessage(g.wkt(md, i)), true
		}
		if depth >= 3 {
			return protoreflect.Value{}, false
		}
		if g.mode == 2 && i%2 == 0 {
			return protoreflect.ValueOfMessage(dynamicpb.NewMessage(md)), true // set but empty
		}
		return protoreflect.ValueOfMessage(g.msg(md, depth+1)), true
	}
	return g.scalar(fd, i), true
}

func (g *genCtx) msg(md protoreflect.MessageDescriptor, depth int) *dynamicpb.Message {
	m := dynamicpb.NewMessage(md)
	if g.mode == 0 {
		return m
	}
	// real oneofs: exactly one member (mode picks which); none for some random draws
	chosen := map[protoreflect.FullName]protoreflect.FieldNumber{}
	for i := 0; i < md.Oneofs().Len(); i++ {
		o := md.Oneofs().Get(i)
		if o.IsSynthetic() {
			continue
		}
		if g.random() && g.rnd.Intn(4) == 0 {
			continue
		}
		chosen[o.FullName()] = o.Fields().Get(g.pick(o.Fields().Len())).Number()
	}
	if g.mode == ModeSparse {
		return g.sparse(md, depth)
	}
	fds := md.Fields()
	for i := 0; i < fds.Len(); i++ {
		fd := fds.Get(i)
		if o := fd.ContainingOneof(); o != nil && !o.IsSynthetic() {
			if chosen[o.FullName()] != fd.Number() {
				continue
			}
		}
		if g.random() && g.rnd.Intn(3) == 0 {
			continue
		}
		switch {
		case fd.IsMap():
			mp := m.Mutable(fd).Map()
			n := 2
			if g.mode == 2 {
				n = 1
			}
			for k := 0; k < n; k++ {
				// boundary mode: the first map value is a set-but-empty message (i = 0), as for singular fields
				v, ok := g.single(fd.MapValue(), depth, k)
				if !ok {
					continue
				}
				var key protoreflect.MapKey
				switch fd.MapKey().Kind() {
				case protoreflect.StringKind:
					key = protoreflect.ValueOfString([]string{"k1", "key two", ""}[(k+g.mode-1)%3]).MapKey()
				case protoreflect.BoolKind:
					key = protoreflect.ValueOfBool(k == 0).MapKey()
				default:
					key = g.scalar(fd.MapKey(), k).MapKey()
				}
				mp.Set(key, v)
			}
		case fd.IsList():
			l := m.Mutable(fd).List()
			n := 2
			if g.mode == 2 {
				n = 3
			}
			for k := 0; k < n; k++ {
				if v, ok := g.single(fd, depth, k); ok {
					l.Append(v)
				}
			}
		default:
			if g.mode == 2 && fd.HasOptionalKeyword() && fd.Kind() != protoreflect.MessageKind {
				m.Set(fd, fd.Default()) // optional set to its zero value (presence without value)
				if fd.Kind() == protoreflect.StringKind {
					m.Set(fd, protoreflect.ValueOfString(""))
				}
				continue
			}
			if v, ok := g.single(fd, depth, i); ok {
				m.Set(fd, v)
			}
		}
	}
	return m
}

func (g *genCtx) sparse(md protoreflect.MessageDescriptor, depth int) *dynamicpb.Message {
	m := dynamicpb.NewMessage(md)
	if depth >= 3 {
		return m
	}
	oneofDone := map[protoreflect.FullName]bool{}
	fds := md.Fields()
	for i := 0; i < fds.Len(); i++ {
		fd := fds.Get(i)
		own := func(d protoreflect.FieldDescriptor) bool {
			return d.Kind() == protoreflect.MessageKind && g.known[string(d.Message().FullName())]
		}
		if o := fd.ContainingOneof(); o != nil && !o.IsSynthetic() {
			if oneofDone[o.FullName()] || !own(fd) {
				continue
			}
			oneofDone[o.FullName()] = true
		}
		switch {
		case fd.IsMap():
			if own(fd.MapValue()) && fd.MapKey().Kind() == protoreflect.StringKind {
				m.Mutable(fd).Map().Set(protoreflect.ValueOfString("k1").MapKey(), protoreflect.ValueOfMessage(g.sparse(fd.MapValue().Message(), depth+1)))
			}
		case fd.IsList():
			if own(fd) {
				m.Mutable(fd).List().Append(protoreflect.ValueOfMessage(g.sparse(fd.Message(), depth+1)))
			}
		default:
			if own(fd) {
				m.Set(fd, protoreflect.ValueOfMessage(g.sparse(fd.Message(), depth+1)))
			} else if fd.Kind() == protoreflect.MessageKind && (fd.ContainingOneof() == nil || fd.ContainingOneof().IsSynthetic()) && defaultHasJSONForm(fd.Message()) {
				// a well-known type present and at its default ("1970-01-01T00:00:00Z", "0s", "", 0, {})
				m.Set(fd, protoreflect.ValueOfMessage(dynamicpb.NewMessage(fd.Message())))
			}
		}
	}
	return m
}
