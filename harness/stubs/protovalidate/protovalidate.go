// Package protovalidate is a HARNESS STUB with the import path and public API surface of
// buf.build/go/protovalidate that the code emitted by protoc-gen-go-http uses. The real module is
// not obtainable offline. It implements the non-CEL subset listed in DESIGN.md §11 and produces
// buf.validate.Violation values with FieldPath elements shaped like the real library's.
// It is used only to make rule violations exist; rule semantics are never taken from it as oracle.
package protovalidate

import (
	"fmt"
	"regexp"
	"strings"
	"unicode/utf8"

	validate "buf.build/gen/go/bufbuild/protovalidate/protocolbuffers/go/buf/validate"
	"google.golang.org/protobuf/proto"
	"google.golang.org/protobuf/reflect/protoreflect"
	"google.golang.org/protobuf/types/descriptorpb"
)

// Validator mirrors the real interface.
type Validator interface {
	Validate(msg proto.Message, options ...ValidationOption) error
}

type ValidatorOption interface{ isValidatorOption() }
type ValidationOption interface{ isValidationOption() }

// Violation mirrors the real struct (subset).
type Violation struct {
	Proto          *validate.Violation
	FieldValue     protoreflect.Value
	FieldDescriptor protoreflect.FieldDescriptor
}

// ValidationError mirrors the real type.
type ValidationError struct {
	Violations []*Violation
}

func (e *ValidationError) Error() string {
	var parts []string
	for _, v := range e.Violations {
		parts = append(parts, v.Proto.GetMessage())
	}
	return "validation error: " + strings.Join(parts, "; ")
}

type validator struct{}

// New mirrors protovalidate.New.
func New(_ ...ValidatorOption) (Validator, error) { return &validator{}, nil }

func (v *validator) Validate(msg proto.Message, _ ...ValidationOption) error {
	if msg == nil {
		return nil
	}
	var out []*Violation
	walk(msg.ProtoReflect(), nil, &out, 0)
	if len(out) == 0 {
		return nil
	}
	return &ValidationError{Violations: out}
}

func elem(fd protoreflect.FieldDescriptor) *validate.FieldPathElement {
	t := descriptorpb.FieldDescriptorProto_Type(fd.Kind())
	return &validate.FieldPathElement{
		FieldNumber: proto.Int32(int32(fd.Number())),
		FieldName:   proto.String(string(fd.Name())),
		FieldType:   &t,
	}
}

func add(out *[]*Violation, path []*validate.FieldPathElement, rule, msg string) {
	cp := make([]*validate.FieldPathElement, len(path))
	copy(cp, path)
	*out = append(*out, &Violation{Proto: &validate.Violation{
		Field:   &validate.FieldPath{Elements: cp},
		RuleId:  proto.String(rule),
		Message: proto.String(msg),
	}})
}

func rulesOf(fd protoreflect.FieldDescriptor) *validate.FieldRules {
	opts, ok := fd.Options().(*descriptorpb.FieldOptions)
	if !ok || opts == nil {
		return nil
	}
	if !proto.HasExtension(opts, validate.E_Field) {
		return nil
	}
	r, _ := proto.GetExtension(opts, validate.E_Field).(*validate.FieldRules)
	return r
}

func walk(m protoreflect.Message, path []*validate.FieldPathElement, out *[]*Violation, depth int) {
	if depth > 64 {
		return
	}
	fds := m.Descriptor().Fields()
	for i := 0; i < fds.Len(); i++ {
		fd := fds.Get(i)
		p := append(path[:len(path):len(path)], elem(fd))
		r := rulesOf(fd)
		has := m.Has(fd)
		if r != nil {
			if r.GetRequired() && !has {
				add(out, p, "required", "value is required")
				continue
			}
			// implicit-presence zero values are still checked (as the real library does unless IGNORE_IF_ZERO)
			if fd.HasPresence() && !has {
				continue
			}
			checkField(fd, m.Get(fd), r, p, out)
		}
		if !has {
			continue
		}
		switch {
		case fd.IsMap():
			if fd.MapValue().Message() != nil {
				m.Get(fd).Map().Range(func(k protoreflect.MapKey, v protoreflect.Value) bool {
					e := elem(fd)
					switch fd.MapKey().Kind() {
					case protoreflect.StringKind:
						e.Subscript = &validate.FieldPathElement_StringKey{StringKey: k.String()}
					case protoreflect.BoolKind:
						e.Subscript = &validate.FieldPathElement_BoolKey{BoolKey: k.Bool()}
					case protoreflect.Uint32Kind, protoreflect.Uint64Kind, protoreflect.Fixed32Kind, protoreflect.Fixed64Kind:
						e.Subscript = &validate.FieldPathElement_UintKey{UintKey: k.Value().Uint()}
					default:
						e.Subscript = &validate.FieldPathElement_IntKey{IntKey: k.Value().Int()}
					}
					walk(v.Message(), append(path[:len(path):len(path)], e), out, depth+1)
					return true
				})
			}
		case fd.IsList():
			if fd.Message() != nil {
				l := m.Get(fd).List()
				for j := 0; j < l.Len(); j++ {
					e := elem(fd)
					e.Subscript = &validate.FieldPathElement_Index{Index: uint64(j)}
					walk(l.Get(j).Message(), append(path[:len(path):len(path)], e), out, depth+1)
				}
			}
		case fd.Message() != nil:
			walk(m.Get(fd).Message(), p, out, depth+1)
		}
	}
}

func checkField(fd protoreflect.FieldDescriptor, v protoreflect.Value, r *validate.FieldRules, p []*validate.FieldPathElement, out *[]*Violation) {
	switch {
	case fd.IsMap():
		mr := r.GetMap()
		if mr == nil {
			return
		}
		n := uint64(v.Map().Len())
		if mr.MinPairs != nil && n < mr.GetMinPairs() {
			add(out, p, "map.min_pairs", fmt.Sprintf("map must be at least %d entries", mr.GetMinPairs()))
		}
		if mr.MaxPairs != nil && n > mr.GetMaxPairs() {
			add(out, p, "map.max_pairs", fmt.Sprintf("map must be at most %d entries", mr.GetMaxPairs()))
		}
	case fd.IsList():
		rr := r.GetRepeated()
		if rr == nil {
			return
		}
		l := v.List()
		n := uint64(l.Len())
		if rr.MinItems != nil && n < rr.GetMinItems() {
			add(out, p, "repeated.min_items", fmt.Sprintf("value must contain at least %d item(s)", rr.GetMinItems()))
		}
		if rr.MaxItems != nil && n > rr.GetMaxItems() {
			add(out, p, "repeated.max_items", fmt.Sprintf("value must contain no more than %d item(s)", rr.GetMaxItems()))
		}
		if rr.GetUnique() {
			seen := map[string]bool{}
			for j := 0; j < l.Len(); j++ {
				k := l.Get(j).String()
				if seen[k] {
					add(out, p, "repeated.unique", "repeated value must contain unique items")
					break
				}
				seen[k] = true
			}
		}
	default:
		checkScalar(fd, v, r, p, out)
	}
}

func checkScalar(fd protoreflect.FieldDescriptor, v protoreflect.Value, r *validate.FieldRules, p []*validate.FieldPathElement, out *[]*Violation) {
	switch fd.Kind() {
	case protoreflect.StringKind:
		sr := r.GetString()
		if sr == nil {
			return
		}
		s := v.String()
		n := uint64(utf8.RuneCountInString(s))
		if sr.MinLen != nil && n < sr.GetMinLen() {
			add(out, p, "string.min_len", fmt.Sprintf("value length must be at least %d characters", sr.GetMinLen()))
		}
		if sr.MaxLen != nil && n > sr.GetMaxLen() {
			add(out, p, "string.max_len", fmt.Sprintf("value length must be at most %d characters", sr.GetMaxLen()))
		}
		if sr.Const != nil && s != sr.GetConst() {
			add(out, p, "string.const", fmt.Sprintf("value must equal `%s`", sr.GetConst()))
		}
		if len(sr.GetIn()) > 0 {
			ok := false
			for _, c := range sr.GetIn() {
				ok = ok || c == s
			}
			if !ok {
				add(out, p, "string.in", "value must be in list")
			}
		}
		if sr.Pattern != nil {
			if re, err := regexp.Compile(sr.GetPattern()); err == nil && !re.MatchString(s) {
				add(out, p, "string.pattern", "value does not match regex pattern")
			}
		}
		if sr.GetEmail() && (!strings.Contains(s, "@") || strings.HasPrefix(s, "@") || strings.HasSuffix(s, "@")) {
			add(out, p, "string.email", "value must be a valid email address")
		}
		if sr.GetUuid() && !uuidRe.MatchString(s) {
			add(out, p, "string.uuid", "value must be a valid UUID")
		}
	case protoreflect.BytesKind:
		br := r.GetBytes()
		if br == nil {
			return
		}
		n := uint64(len(v.Bytes()))
		if br.Len != nil && n != br.GetLen() {
			add(out, p, "bytes.len", fmt.Sprintf("value length must be %d bytes", br.GetLen()))
		}
		if br.MinLen != nil && n < br.GetMinLen() {
			add(out, p, "bytes.min_len", fmt.Sprintf("value length must be at least %d bytes", br.GetMinLen()))
		}
		if br.MaxLen != nil && n > br.GetMaxLen() {
			add(out, p, "bytes.max_len", fmt.Sprintf("value must be at most %d bytes", br.GetMaxLen()))
		}
	case protoreflect.Int32Kind, protoreflect.Sint32Kind, protoreflect.Sfixed32Kind,
		protoreflect.Int64Kind, protoreflect.Sint64Kind, protoreflect.Sfixed64Kind:
		numeric(fd, r, p, out, func(b protoreflect.Value) int { return cmpI(v.Int(), b.Int()) })
	case protoreflect.Uint32Kind, protoreflect.Fixed32Kind, protoreflect.Uint64Kind, protoreflect.Fixed64Kind:
		numeric(fd, r, p, out, func(b protoreflect.Value) int { return cmpU(v.Uint(), b.Uint()) })
	case protoreflect.FloatKind, protoreflect.DoubleKind:
		numeric(fd, r, p, out, func(b protoreflect.Value) int { return cmpF(v.Float(), b.Float()) })
	}
}

var uuidRe = regexp.MustCompile(`^[0-9a-fA-F]{8}-[0-9a-fA-F]{4}-[0-9a-fA-F]{4}-[0-9a-fA-F]{4}-[0-9a-fA-F]{12}$`)

func cmpI(a, b int64) int {
	switch {
	case a < b:
		return -1
	case a > b:
		return 1
	}
	return 0
}
func cmpU(a, b uint64) int {
	switch {
	case a < b:
		return -1
	case a > b:
		return 1
	}
	return 0
}
func cmpF(a, b float64) int {
	switch {
	case a < b:
		return -1
	case a > b:
		return 1
	}
	return 0
}

// numeric evaluates gt/gte/lt/lte/const/in of the kind-specific rule message via reflection.
func numeric(fd protoreflect.FieldDescriptor, r *validate.FieldRules, p []*validate.FieldPathElement, out *[]*Violation, cmp func(protoreflect.Value) int) {
	rm := r.ProtoReflect()
	which := rm.WhichOneof(rm.Descriptor().Oneofs().ByName("type"))
	if which == nil || which.Message() == nil {
		return
	}
	nm := rm.Get(which).Message()
	nd := nm.Descriptor()
	kind := string(which.Name())
	get := func(name string) (protoreflect.Value, bool) {
		f := nd.Fields().ByName(protoreflect.Name(name))
		if f == nil || !nm.Has(f) {
			return protoreflect.Value{}, false
		}
		return nm.Get(f), true
	}
	if b, ok := get("gt"); ok && cmp(b) <= 0 {
		add(out, p, kind+".gt", "value must be greater than bound")
	}
	if b, ok := get("gte"); ok && cmp(b) < 0 {
		add(out, p, kind+".gte", "value must be greater than or equal to bound")
	}
	if b, ok := get("lt"); ok && cmp(b) >= 0 {
		add(out, p, kind+".lt", "value must be less than bound")
	}
	if b, ok := get("lte"); ok && cmp(b) > 0 {
		add(out, p, kind+".lte", "value must be less than or equal to bound")
	}
	if b, ok := get("const"); ok && cmp(b) != 0 {
		add(out, p, kind+".const", "value must equal const")
	}
	if f := nd.Fields().ByName("in"); f != nil && nm.Has(f) {
		l := nm.Get(f).List()
		ok := false
		for i := 0; i < l.Len(); i++ {
			ok = ok || cmp(l.Get(i)) == 0
		}
		if !ok {
			add(out, p, kind+".in", "value must be in list")
		}
	}
	_ = fd
}
