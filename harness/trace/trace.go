// Package trace runs TLC trace validation over concatenated segments and isolates rejections.
package trace

import (
	"fmt"
	"os"
	"strings"
	"verifharness/chk"

	"verifharness/tlc"
)

// Segment is one self-contained piece of a trace (its first line (re)initialises the spec state).
type Segment struct {
	ID    int
	Lines []string
	Meta  any
	// Prefix is a line (typically the Schema line) that must have been played before this segment;
	// it is emitted whenever it differs from the prefix of the previously emitted segment.
	Prefix string
}

// Result of validating many segments.
type Result struct {
	Accepted     []*Segment
	Rejected     []*Segment
	RejectedLine map[int]string // segment id -> first line TLC could not consume
	RejectedIdx  map[int]int    // segment id -> index of that line within the segment
	Runs         int
	States       int64
}

// DevSet renders a TLA+ set of strings.
func DevSet(dev []string) string {
	q := make([]string, len(dev))
	for i, d := range dev {
		q[i] = fmt.Sprintf("%q", d)
	}
	return "{" + strings.Join(q, ", ") + "}"
}

// Validate concatenates the segments and runs module/cfg (which must follow the HighWater/Accepted
// convention). A rejected segment is recorded and removed and validation continues with the rest.
func Validate(module, cfg string, consts map[string]string, segs []*Segment, maxReject int) (*Result, error) {
	res := &Result{RejectedLine: map[int]string{}, RejectedIdx: map[int]int{}}
	remaining := append([]*Segment(nil), segs...)
	for len(remaining) > 0 {
		var lines []string
		var owner []int // index into remaining per line
		var offset []int
		lastPrefix := ""
		for i, s := range remaining {
			if s.Prefix != "" && s.Prefix != lastPrefix {
				lines = append(lines, s.Prefix)
				owner = append(owner, i)
				offset = append(offset, -1)
				lastPrefix = s.Prefix
			}
			for j, l := range s.Lines {
				lines = append(lines, l)
				owner = append(owner, i)
				offset = append(offset, j)
			}
		}
		r, err := run(module, cfg, consts, lines)
		if err != nil {
			return nil, err
		}
		res.Runs++
		res.States += r.Distinct
		if r.OK {
			res.Accepted = append(res.Accepted, remaining...)
			break
		}
		if r.RejectedAt == 0 {
			return nil, fmt.Errorf("TLC failed on the trace without a rejection line: %s", firstN(r.Error, 2000))
		}
		at := r.RejectedAt
		if at < 1 || at > len(lines) {
			return nil, fmt.Errorf("rejection line %d out of range (trace has %d lines)", at, len(lines))
		}
		bi := owner[at-1]
		bad := remaining[bi]
		res.Accepted = append(res.Accepted, remaining[:bi]...)
		res.Rejected = append(res.Rejected, bad)
		res.RejectedLine[bad.ID] = lines[at-1]
		res.RejectedIdx[bad.ID] = offset[at-1]
		remaining = remaining[bi+1:]
		if len(res.Rejected) >= maxReject {
			break
		}
	}
	return res, nil
}

func run(module, cfg string, consts map[string]string, lines []string) (*tlc.Result, error) {
	f, err := os.CreateTemp("", "vh-trace-*.ndjson")
	if err != nil {
		return nil, err
	}
	defer os.Remove(f.Name())
	chk.AtExit(func() { _ = os.Remove(f.Name()) })
	for _, l := range lines {
		fmt.Fprintln(f, l)
	}
	f.Close()
	if d := os.Getenv("VERIF_DUMP_TRACE"); d != "" {
		b, _ := os.ReadFile(f.Name())
		_ = os.WriteFile(d, b, 0o644)
	}
	return tlc.Exec(tlc.Run{Module: module, Config: cfg, Workers: 1, Constants: consts,
		Files: map[string]string{"trace.ndjson": f.Name()}})
}

func firstN(s string, n int) string {
	if len(s) > n {
		return s[:n]
	}
	return s
}
