// Package gobuild holds the build-side instruments of C13: duplicate-declaration detection on the
// real emitted Go files (the TLA+ NoDupDecls twin of the compiler's "redeclared" error) and a
// diagnostic classifier.
package gobuild

import (
	"go/ast"
	"go/parser"
	"go/token"
	"os"
	"path/filepath"
	"sort"
	"strings"
)

// Dups parses every .go file in dir and returns the declarations that occur more than once
// ("recv.Name" for methods). parseErr is the first syntax error, if any.
func Dups(dir string) (dups []string, parseErr string) {
	ents, _ := os.ReadDir(dir)
	count := map[string]int{}
	fset := token.NewFileSet()
	for _, e := range ents {
		if e.IsDir() || !strings.HasSuffix(e.Name(), ".go") {
			continue
		}
		f, err := parser.ParseFile(fset, filepath.Join(dir, e.Name()), nil, parser.SkipObjectResolution)
		if err != nil {
			if parseErr == "" {
				parseErr = err.Error()
			}
			continue
		}
		for _, d := range f.Decls {
			switch x := d.(type) {
			case *ast.FuncDecl:
				name := x.Name.Name
				if x.Recv != nil && len(x.Recv.List) > 0 {
					name = recvName(x.Recv.List[0].Type) + "." + name
				}
				if name != "init" && name != "_" {
					count[name]++
				}
			case *ast.GenDecl:
				for _, sp := range x.Specs {
					switch s := sp.(type) {
					case *ast.TypeSpec:
						count[s.Name.Name]++
					case *ast.ValueSpec:
						for _, n := range s.Names {
							if n.Name != "_" {
								count[n.Name]++
							}
						}
					}
				}
			}
		}
	}
	for n, c := range count {
		if c > 1 {
			dups = append(dups, n)
		}
	}
	sort.Strings(dups)
	if dups == nil {
		dups = []string{}
	}
	return dups, parseErr
}

func recvName(e ast.Expr) string {
	switch x := e.(type) {
	case *ast.StarExpr:
		return recvName(x.X)
	case *ast.Ident:
		return x.Name
	case *ast.IndexExpr:
		return recvName(x.X)
	}
	return "?"
}

// DiagClass maps the first compiler / vet / loader diagnostic to a coarse class.
func DiagClass(diag string) string {
	d := strings.ToLower(diag)
	switch {
	case diag == "":
		return ""
	case strings.Contains(d, "redeclared") || strings.Contains(d, "already declared") || strings.Contains(d, "has already been declared"):
		return "redeclared"
	case strings.Contains(d, "mismatched types") || strings.Contains(d, "cannot use") || strings.Contains(d, "cannot convert") || strings.Contains(d, "invalid operation"):
		return "type_mismatch"
	case strings.Contains(d, "undefined"):
		return "undefined"
	case strings.Contains(d, "declared and not used") || strings.Contains(d, "imported and not used"):
		return "unused"
	case strings.Contains(d, "syntaxerror") || strings.Contains(d, "syntax error") || strings.Contains(d, "expected"):
		return "syntax"
	}
	return "other"
}
