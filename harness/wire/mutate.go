package wire

import (
	"bytes"
	"math/rand"
	"strings"
)

// MalformedJSONBodies expands the abstract class "malformed JSON body" into concrete byte strings.
// Every variant is invalid under proto3 JSON for the standard request message (fields p, q, rq of a
// numeric / string kind and b string) AND not acceptable by leniency: truncated documents, wrong
// JSON types (object / array / bool for scalars), scalars / null / arrays at top level, duplicate
// keys, numbers out of every range, invalid UTF-8, unknown members (incl. very long multi-byte
// names at several alignments), absurd nesting. valid is a decodable body to mutate.
func MalformedJSONBodies(valid []byte, rnd *rand.Rand, n int) [][]byte {
	var out [][]byte
	add := func(b []byte) { out = append(out, b) }
	if len(valid) < 2 {
		valid = []byte(`{"b":"bval"}`)
	}
	// truncations of a valid document
	for i := 0; i < 4; i++ {
		cut := 1 + rnd.Intn(len(valid)-1)
		add(append([]byte{}, valid[:cut]...))
	}
	// wrong JSON types
	for _, v := range []string{`{"x":1}`, `[1,2]`, `true`, `[[["deep"]]]`} {
		add([]byte(`{"b":` + v + `}`))
	}
	// top-level non-objects
	for _, v := range []string{`null`, `[]`, `[{"b":"x"}]`, `3`, `"str"`, `true`} {
		add([]byte(v))
	}
	// duplicate keys, trailing garbage, bad literals
	add([]byte(`{"b":"x","b":"y"}`))
	add([]byte(`{"b":"x"} {"b":"y"}`))
	add([]byte(`{"b":"x",}`))
	add([]byte(`{'b':'x'}`))
	add([]byte(`{"b":"\ud800"}`))
	add([]byte("{\"b\":\"\xff\xfe\"}"))
	add([]byte("{\"b\":\"ok\", \"\xc3\x28\": 1}"))
	add([]byte(`{"b":"x","zzz_unknown_member":1}`))
	// unknown members with long multi-byte names at several alignments (error texts quote them)
	for _, r := range []string{"é", "漢", "😀"} {
		for pad := 0; pad < 4; pad++ {
			name := strings.Repeat("a", pad) + strings.Repeat(r, 60+rnd.Intn(200))
			add([]byte(`{"` + name + `":1}`))
			add([]byte(`{"b":{"` + name + `":1}}`))
		}
	}
	// long ASCII / multi-byte string where an object is expected, huge numbers
	add([]byte(`{"b":` + strings.Repeat("9", 400) + `}`))
	add([]byte(`{"b":1e999999}`))
	// absurd nesting
	for _, depth := range []int{100, 10000, 100000} {
		add([]byte(`{"b":` + strings.Repeat("[", depth) + strings.Repeat("]", depth) + `}`))
		add([]byte(strings.Repeat(`{"b":`, depth) + `1` + strings.Repeat("}", depth)))
	}
	// random byte flips into structural positions of the valid document
	for i := 0; i < 8; i++ {
		b := append([]byte{}, valid...)
		pos := rnd.Intn(len(b))
		b[pos] = []byte{'{', '}', '[', ']', ':', ',', '"', 0x00, 0xff}[rnd.Intn(9)]
		if !bytes.Equal(b, valid) && !jsonObjectLike(b) {
			add(b)
		}
	}
	rnd.Shuffle(len(out), func(i, j int) { out[i], out[j] = out[j], out[i] })
	if n > 0 && len(out) > n {
		out = out[:n]
	}
	return out
}

// jsonObjectLike is a conservative filter: a flipped document that still looks like a complete
// JSON object might be decodable, so it is not used as a "definitely malformed" body.
func jsonObjectLike(b []byte) bool {
	t := bytes.TrimSpace(b)
	return len(t) >= 2 && t[0] == '{' && t[len(t)-1] == '}' && bytes.Count(t, []byte(`"`))%2 == 0
}

// MalformedBinaryBodies: byte strings that are not a valid protobuf encoding of the request.
func MalformedBinaryBodies(rnd *rand.Rand, n int) [][]byte {
	out := [][]byte{
		{0xff, 0xff, 0xff, 0xff, 0x0f, 0x01}, // field number out of range / bad wire type
		{0x22, 0x0a, 'a', 'b', 'c'},          // field 4 (string), length 10, only 3 bytes
		{0x22, 0x02, 0xff, 0xfe},             // field 4 string with invalid UTF-8
		{0x08, 0xff, 0xff, 0xff, 0xff, 0xff, 0xff, 0xff, 0xff, 0xff, 0xff, 0xff}, // varint too long
		{0x0b},                               // start group without end
		{0x0f},                               // wire type 7
		{0x22, 0xff, 0xff, 0xff, 0xff, 0x7f}, // huge length
	}
	for i := 0; i < 6; i++ {
		b := make([]byte, 1+rnd.Intn(12))
		rnd.Read(b)
		b[0] = 0x07 | b[0] // wire type 7 in the first tag: always invalid
		out = append(out, b)
	}
	if n > 0 && len(out) > n {
		out = out[:n]
	}
	return out
}

// ExpandMalformed replaces every case of body class "malformed" by many concretisations.
func (s *Suite) ExpandMalformed(seed int64, perCase int) {
	rnd := rand.New(rand.NewSource(seed))
	var out []*Case
	for _, c := range s.Cases {
		out = append(out, c)
		if c.A.Body.Cls != "malformed" {
			continue
		}
		var variants [][]byte
		switch c.A.Body.Ctype {
		case "proto", "octet":
			variants = MalformedBinaryBodies(rnd, perCase)
		default:
			variants = MalformedJSONBodies([]byte(`{"b":"bval"}`), rnd, perCase)
		}
		for _, v := range variants {
			cp := *c
			cp.C.Body = v
			cp.Note = c.Note + " variant:" + preview(v)
			// a document that is well-formed JSON with an unknown member is rejected by a strict
			// proto3 JSON parser but may legitimately be accepted by a lenient one: class "lenient"
			// (either a well-formed 400 or a dispatch), never "definitely malformed"
			if bytes.Contains(v, []byte(`":1}`)) && jsonObjectLike(v) && !bytes.Contains(v, []byte("\xc3\x28")) {
				cp.A.Body.Cls = "lenient"
			}
			out = append(out, &cp)
		}
	}
	for i, c := range out {
		c.ID = i + 1
	}
	s.Cases = out
}

func preview(b []byte) string {
	if len(b) > 24 {
		b = b[:24]
	}
	var sb strings.Builder
	for _, ch := range b {
		if ch >= 0x20 && ch < 0x7f {
			sb.WriteByte(ch)
		} else {
			sb.WriteString("·")
		}
	}
	return sb.String()
}
