package wire

import (
	"bufio"
	"bytes"
	"encoding/base64"
	"encoding/json"
	"fmt"
	"os"
	"os/exec"
	"path/filepath"
	"sort"
	"strconv"
	"strings"
	"unicode/utf8"
	"verifharness/chk"

	"google.golang.org/protobuf/encoding/protojson"
	"google.golang.org/protobuf/proto"
	"google.golang.org/protobuf/reflect/protoreflect"
	"google.golang.org/protobuf/reflect/protoregistry"
	"google.golang.org/protobuf/types/dynamicpb"

	sebufhttp "github.com/SebastienMelki/sebuf/http"

	"verifharness/abs"
	"verifharness/drv"
	"verifharness/plug"
	"verifharness/tlc"
	"verifharness/val"
	"verifharness/work"
)

// Suite is a set of cases sharing one emitted code base.
type Suite struct {
	Prefix  string
	Shapes  []*Shape
	byKey   map[string]*Shape
	Cases   []*Case
	Schema  *abs.Schema
	Built   *abs.Built
	Files   *protoregistry.Files
	Skipped int
	// cases whose abstract request is addressed to the emitted TypeScript server from the outset
	// (server = "ts" in the exported case): never sent to the Go server
	TSCases []*Case
}

func NewSuite(prefix string) *Suite { return &Suite{Prefix: prefix, byKey: map[string]*Shape{}} }

// ShapeFor returns (creating if needed) the shape of an RPC record.
func (s *Suite) ShapeFor(r Rpc) *Shape {
	k := shapeKey(r)
	if sh, ok := s.byKey[k]; ok {
		return sh
	}
	sh := &Shape{Idx: len(s.Shapes), Rpc: r, Key: k}
	s.Shapes = append(s.Shapes, sh)
	s.byKey[k] = sh
	return sh
}

// pending symbolic requests (shape assigned, not yet concretised)
type pending struct {
	sym    AReq
	sh     *Shape
	origin string
}

// Builder accumulates symbolic requests, then builds the schema and concretises.
type Builder struct {
	S    *Suite
	pend []pending
}

func NewBuilder(prefix string) *Builder { return &Builder{S: NewSuite(prefix)} }

func (b *Builder) Add(sym AReq, origin string) {
	sym.normalize()
	sh := b.S.ShapeFor(sym.Rpc)
	b.pend = append(b.pend, pending{sym: sym, sh: sh, origin: origin})
}

// Finish builds descriptors and concretises every pending request.
func (b *Builder) Finish() (*Suite, error) {
	s := b.S
	s.Schema = BuildSchema(s.Prefix, s.Shapes)
	built, err := abs.Build(s.Schema)
	if err != nil {
		return nil, fmt.Errorf("harness: %w", err)
	}
	s.Built, s.Files = built, built.Files
	for _, p := range b.pend {
		a, c, note, ok, err := Concretise(s.Files, p.sh, p.sym)
		if err != nil {
			return nil, fmt.Errorf("harness: concretise: %w", err)
		}
		if !ok {
			s.Skipped++
			continue
		}
		cs := &Case{ID: len(s.Cases) + len(s.TSCases) + 1, A: a, C: c, RpcKey: p.sh.Key, Origin: p.origin, Note: note}
		if a.Server == "ts" {
			s.TSCases = append(s.TSCases, cs)
		} else {
			s.Cases = append(s.Cases, cs)
		}
	}
	return s, nil
}

func (s *Suite) pkgOf(sh *Shape) string    { return fmt.Sprintf("gen/%s%d", s.Prefix, sh.Pkg) }
func (s *Suite) protoPkg(sh *Shape) string { return fmt.Sprintf("%s%d.v1", s.Prefix, sh.Pkg) }

// sample response / custom error values
func (s *Suite) outMsg(sh *Shape) *dynamicpb.Message {
	m, _ := val.New(s.Files, s.protoPkg(sh)+".Out")
	d := m.Descriptor().Fields()
	m.Set(d.ByName("id"), protoreflect.ValueOfString("x"))
	m.Set(d.ByName("n"), protoreflect.ValueOfInt64(7))
	m.Mutable(d.ByName("tags")).List().Append(protoreflect.ValueOfString("a"))
	return m
}

func (s *Suite) customMsg(sh *Shape) *dynamicpb.Message {
	m, _ := val.New(s.Files, s.protoPkg(sh)+".CustomError")
	d := m.Descriptor().Fields()
	m.Set(d.ByName("code"), protoreflect.ValueOfString("E42"))
	m.Set(d.ByName("num"), protoreflect.ValueOfInt32(7))
	m.Mutable(d.ByName("details")).List().Append(protoreflect.ValueOfString("d"))
	return m
}

func hookString(h Hook) string {
	if !h.On {
		return "none"
	}
	var parts []string
	if h.Msg {
		parts = append(parts, "msg")
	}
	if h.Headers {
		parts = append(parts, "headers")
	}
	if h.Status {
		parts = append(parts, "status")
	}
	if h.Body {
		parts = append(parts, "body")
	}
	if len(parts) == 0 {
		return "nil"
	}
	return strings.Join(parts, "+")
}

// Outcome of running a suite.
type Outcome struct {
	Events      map[int][]drv.Event // by case id
	TraceLines  []string
	LineCase    []int // case id per trace line (1-based lines -> index-1)
	GenResults  map[string]*plug.Result
	BuildOutput string
}

// Execute emits code for the suite's schema with the real plugins, builds the driver and runs
// every case. A plugin or build failure is returned as error text in hardErr (harness decides).
func (s *Suite) Execute(set *plug.Set) (*Outcome, error) {
	w, err := work.New()
	if err != nil {
		return nil, err
	}
	defer w.Close()
	em, err := w.Emit(set, s.Schema, work.EmitOpts{Plugins: []string{"go-http"}})
	if err != nil {
		return nil, err
	}
	out := &Outcome{Events: map[int][]drv.Event{}, GenResults: em.Results}
	if r := em.Results["go-http"]; !r.OK() {
		return out, fmt.Errorf("go-http refused the harness schema: %s %s", r.Exit, r.Error)
	}
	var specs []work.PkgSpec
	for _, ip := range em.Pkgs {
		specs = append(specs, work.PkgSpec{ImportPath: ip, Server: true})
	}
	if err := w.WriteDriver("drv", specs); err != nil {
		return nil, err
	}
	bin, bout, err := w.BuildBinary("./drv", "drv")
	out.BuildOutput = bout
	if err != nil {
		return out, fmt.Errorf("emitted server does not build: %v\n%s", err, firstN(bout, 2000))
	}
	byKey := s.byKey
	var plan bytes.Buffer
	for _, c := range s.Cases {
		sh := byKey[c.RpcKey]
		c.A.Body.Framing = framingOf(c)
		op := drv.Op{Op: "raw", Case: c.ID, Call: 1, Pkg: s.pkgOf(sh), Verb: sh.Rpc.Verb, URL: c.C.URL,
			BodyB64: base64.StdEncoding.EncodeToString(c.C.Body), NoBody: c.C.NoBody, Hook: hookString(c.A.Hook), Framing: c.A.Body.Framing}
		for _, h := range c.C.Headers {
			if utf8.ValidString(h[1]) {
				op.Headers = append(op.Headers, h)
			} else {
				op.HeadersB64 = append(op.HeadersB64, [2]string{h[0], base64.StdEncoding.EncodeToString([]byte(h[1]))})
			}
		}
		h := c.A.Handler
		switch h.Kind {
		case "ok":
			m := s.outMsg(sh)
			op.Handler = drv.HandlerCfg{Kind: "ok", RespType: string(m.Descriptor().FullName()), RespB64: base64.StdEncoding.EncodeToString(val.Det(m))}
		case "plain", "sebufError":
			op.Handler = drv.HandlerCfg{Kind: h.Kind, Msg: h.Msg}
		case "validationError":
			var vs [][2]string
			for _, f := range h.Viol {
				vs = append(vs, [2]string{f, "described"})
			}
			op.Handler = drv.HandlerCfg{Kind: h.Kind, Viol: vs}
		case "custom", "wrapped":
			m := s.customMsg(sh)
			op.Handler = drv.HandlerCfg{Kind: h.Kind, RespType: string(m.Descriptor().FullName()), RespB64: base64.StdEncoding.EncodeToString(val.Det(m))}
		}
		b, _ := json.Marshal(op)
		plan.Write(b)
		plan.WriteByte('\n')
	}
	pf := filepath.Join(w.Root, "plan.ndjson")
	if err := os.WriteFile(pf, plan.Bytes(), 0o644); err != nil {
		return nil, err
	}
	cmd := exec.Command(bin, pf)
	var so, se bytes.Buffer
	cmd.Stdout, cmd.Stderr = &so, &se
	if err := cmd.Run(); err != nil {
		return out, fmt.Errorf("driver died: %v\n%s", err, firstN(se.String(), 3000))
	}
	sc := bufio.NewScanner(&so)
	sc.Buffer(make([]byte, 1<<20), 1<<28)
	for sc.Scan() {
		var e drv.Event
		if err := json.Unmarshal(sc.Bytes(), &e); err != nil {
			return out, fmt.Errorf("bad event line: %v", err)
		}
		id := int(e["case"].(float64))
		out.Events[id] = append(out.Events[id], e)
	}
	return out, nil
}

func firstN(s string, n int) string {
	if len(s) > n {
		return s[:n]
	}
	return s
}

// ---- abstraction of events into trace lines ------------------------------------------------------

func unb64(v any) []byte {
	s, _ := v.(string)
	b, _ := base64.StdEncoding.DecodeString(s)
	return b
}

func ctypeClass(ct string) string {
	switch {
	case strings.HasPrefix(ct, "application/json"):
		return "json"
	case strings.HasPrefix(ct, "application/x-protobuf"):
		return "proto"
	}
	return "other"
}

func decodeAs(class string, body []byte, m proto.Message) bool {
	switch class {
	case "json":
		if err := protojson.Unmarshal(body, m); err != nil {
			return false
		}
		return true
	case "proto":
		if err := proto.Unmarshal(body, m); err != nil {
			return false
		}
		return len(m.ProtoReflect().GetUnknown()) == 0
	}
	return false
}

// AbstractResp turns a Resp event into the record RespMatches reads.
func (s *Suite) AbstractResp(sh *Shape, e drv.Event) map[string]any {
	body := unb64(e["bodyB64"])
	ct, _ := e["ctype"].(string)
	class := ctypeClass(ct)
	status := int(e["status"].(float64))
	raw := "<binary>"
	if utf8.Valid(body) && len(body) < 300 {
		raw = string(body)
	}
	hookHdr := false
	if hs, ok := e["headers"].([]any); ok {
		for _, h := range hs {
			if p, ok := h.([]any); ok && len(p) == 2 && strings.EqualFold(fmt.Sprint(p[0]), "X-Hook") && p[1] == "set" {
				hookHdr = true
			}
		}
	}
	rec := map[string]any{"event": "Resp", "status": status, "ctype": class, "hookHdr": hookHdr, "raw": raw}
	out, _ := val.New(s.Files, s.protoPkg(sh)+".Out")
	if decodeAs(class, body, out) {
		rec["asMsg"] = map[string]any{"ok": true, "val": val.Message(out)}
	} else {
		rec["asMsg"] = map[string]any{"ok": false, "val": ""}
	}
	ve := &sebufhttp.ValidationError{}
	if decodeAs(class, body, ve) {
		names := []string{}
		for _, v := range ve.GetViolations() {
			names = append(names, strings.ToLower(v.GetField()))
		}
		rec["asVE"] = map[string]any{"ok": true, "viol": names}
	} else {
		rec["asVE"] = map[string]any{"ok": false, "viol": []string{}}
	}
	er := &sebufhttp.Error{}
	if decodeAs(class, body, er) {
		rec["asErr"] = map[string]any{"ok": true, "msg": er.GetMessage()}
	} else {
		rec["asErr"] = map[string]any{"ok": false, "msg": ""}
	}
	cu, _ := val.New(s.Files, s.protoPkg(sh)+".CustomError")
	if decodeAs(class, body, cu) {
		rec["asCustom"] = map[string]any{"ok": true, "val": val.Message(cu)}
	} else {
		rec["asCustom"] = map[string]any{"ok": false, "val": ""}
	}
	return rec
}

// Trace builds the NDJSON trace for the given cases (in order) from recorded events.
func (s *Suite) Trace(out *Outcome, cases []*Case) ([]string, []int, error) {
	var lines []string
	var lineCase []int
	add := func(id int, rec any) {
		b, _ := json.Marshal(rec)
		lines = append(lines, string(b))
		lineCase = append(lineCase, id)
	}
	for _, c := range cases {
		sh := s.byKey[c.RpcKey]
		a := c.A
		// canonical tokens for RESP / CUSTOM
		switch a.Handler.Kind {
		case "ok":
			a.Handler.Val = val.Message(s.outMsg(sh))
		case "custom", "wrapped":
			a.Handler.Val = val.Message(s.customMsg(sh))
		}
		for i := range a.RuleViol {
			a.RuleViol[i] = strings.ToLower(a.RuleViol[i])
		}
		if a.Body.Framing == "" { // (a server the harness does not choose the framing for)
			a.Body.Framing = "sized"
			if c.C.NoBody {
				a.Body.Framing = "none"
			}
		}
		add(c.ID, map[string]any{"event": "Req", "case": c.ID, "req": a})
		if sh.Published != nil {
			ps := sh.Published.Params
			if ps == nil {
				ps = []PubParam{}
			}
			add(c.ID, map[string]any{"event": "Published", "found": sh.Published.Found, "params": ps})
		}
		evs := out.Events[c.ID]
		sort.SliceStable(evs, func(i, j int) bool { return evs[i]["seq"].(float64) < evs[j]["seq"].(float64) })
		if len(evs) == 0 {
			return nil, nil, fmt.Errorf("harness: no events for case %d", c.ID)
		}
		for _, e := range evs {
			switch e["event"] {
			case "BodyRead":
				add(c.ID, map[string]any{"event": "BodyRead"})
			case "HandlerSaw":
				m, err := val.Decode(s.Files, sh.In, unb64(e["valB64"]))
				saw := []KV{}
				if err == nil && e["type"] == sh.In && e["rpc"] == sh.Meth {
					for _, f := range sh.Rpc.Fields {
						saw = append(saw, KV{K: f, V: val.Field(m, m.Descriptor().Fields().ByName(protoreflect.Name(f)))})
					}
				} else {
					for _, f := range sh.Rpc.Fields {
						saw = append(saw, KV{K: f, V: "?wrong-rpc-or-type"})
					}
				}
				add(c.ID, map[string]any{"event": "HandlerSaw", "saw": saw})
			case "HookCalled":
				add(c.ID, map[string]any{"event": "HookCalled", "errKind": e["errKind"]})
			case "Resp":
				add(c.ID, s.AbstractResp(sh, e))
			case "ServerPanic":
				add(c.ID, map[string]any{"event": "ServerPanic"})
			case "Timeout":
				add(c.ID, map[string]any{"event": "Timeout"})
			case "DriverError":
				return nil, nil, fmt.Errorf("harness: driver error in case %d: %v", c.ID, e["detail"])
			}
		}
	}
	return lines, lineCase, nil
}

// Validation result of trace validation.
type Validation struct {
	Accepted     []*Case
	Rejected     []*Case
	RejectedLine map[int]string // case id -> the rejected trace line
	TLCRuns      int
	States       int64
}

// Validate runs TLC (Trace_Wire) over the cases; a rejected case is isolated, recorded, removed,
// and validation continues with the rest, so that every rejection is found.
func (s *Suite) Validate(out *Outcome, dev []string, maxReject int) (*Validation, error) {
	v := &Validation{RejectedLine: map[int]string{}}
	remaining := append([]*Case(nil), s.Cases...)
	for len(remaining) > 0 {
		lines, lineCase, err := s.Trace(out, remaining)
		if err != nil {
			return nil, err
		}
		res, err := runTrace(lines, dev)
		if err != nil {
			return nil, err
		}
		v.TLCRuns++
		v.States += res.Distinct
		if res.OK {
			v.Accepted = append(v.Accepted, remaining...)
			break
		}
		if res.RejectedAt == 0 {
			return nil, fmt.Errorf("harness: TLC failed on trace without a rejection line: %s", firstN(res.Error, 1500))
		}
		// TLCGet(1) is the highest l reached: lines 1..l-1 were consumed, line l could not be.
		at := res.RejectedAt
		if at < 1 || at > len(lineCase) {
			return nil, fmt.Errorf("harness: rejection line %d out of range", at)
		}
		badID := lineCase[at-1]
		var bad *Case
		var rest []*Case
		for _, c := range remaining {
			switch {
			case c.ID == badID:
				bad = c
			case c.ID < badID:
				v.Accepted = append(v.Accepted, c)
			default:
				rest = append(rest, c)
			}
		}
		v.Rejected = append(v.Rejected, bad)
		v.RejectedLine[badID] = lines[at-1]
		remaining = rest
		if len(v.Rejected) >= maxReject {
			break
		}
	}
	return v, nil
}

func devSet(dev []string) string {
	q := make([]string, len(dev))
	for i, d := range dev {
		q[i] = fmt.Sprintf("%q", d)
	}
	return "{" + strings.Join(q, ", ") + "}"
}

func runTrace(lines []string, dev []string) (*tlc.Result, error) {
	f, err := os.CreateTemp("", "vh-trace-*.ndjson")
	if err == nil {
		name := f.Name()
		chk.AtExit(func() { _ = os.Remove(name) })
	}
	if err != nil {
		return nil, err
	}
	defer os.Remove(f.Name())
	for _, l := range lines {
		fmt.Fprintln(f, l)
	}
	f.Close()
	return tlc.Exec(tlc.Run{Module: "Trace_Wire", Config: "Trace_Wire.cfg", Workers: 1,
		Constants: map[string]string{"Dev": devSet(dev)},
		Files:     map[string]string{"trace.ndjson": f.Name()}})
}

// TSView is the sub-suite of the JSON cases re-targeted at the emitted TypeScript server: same
// shapes, schema and concrete requests, abstract requests marked server = "ts".
// retarget = also the Go server's cases (C02 / C09: the statements speak of both servers).
func (s *Suite) TSView(retarget bool) *Suite {
	t := &Suite{Prefix: s.Prefix, Shapes: s.Shapes, byKey: s.byKey, Schema: s.Schema, Built: s.Built, Files: s.Files}
	fits := func(c *Case) bool {
		if c.A.Body.Ctype != "json" {
			return false // the TS server speaks JSON only
		}
		if c.A.Body.Cls == "malformed" {
			return false // what a server answers to an undecodable body is C11's statement, made for the Go server
		}
		switch c.A.Handler.Kind {
		case "ok", "plain", "validationError":
		default:
			return false // handlers of the TS server return a value or throw
		}
		// the TS hook (onError) returns a whole Response
		return !c.A.Hook.On || (c.A.Hook.Body && !c.A.Hook.Msg)
	}
	if retarget {
		for _, c := range s.Cases {
			if fits(c) {
				cp := *c
				cp.A.Server = "ts"
				t.Cases = append(t.Cases, &cp)
			}
		}
	}
	for _, c := range s.TSCases {
		if fits(c) {
			t.Cases = append(t.Cases, c)
		}
	}
	return t
}

// ShapeOf returns the RPC shape a case belongs to.
func (s *Suite) ShapeOf(c *Case) *Shape { return s.byKey[c.RpcKey] }

// PkgOf is the Go package directory ("gen/w0") of a shape; ProtoPkg its proto package.
func (s *Suite) PkgOf(sh *Shape) string    { return s.pkgOf(sh) }
func (s *Suite) ProtoPkg(sh *Shape) string { return s.protoPkg(sh) }

// OutMsg is the sample response of a shape.
func (s *Suite) OutMsg(sh *Shape) *dynamicpb.Message { return s.outMsg(sh) }

// AbstractRespBare is AbstractResp for an RPC outside a Suite (no response / custom error type to
// try): only the error renderings are decoded.
func AbstractRespBare(e drv.Event) map[string]any {
	body := unb64(e["bodyB64"])
	ct, _ := e["ctype"].(string)
	class := ctypeClass(ct)
	status := int(e["status"].(float64))
	raw := "<binary>"
	if utf8.Valid(body) && len(body) < 300 {
		raw = string(body)
	}
	// (the payload of a success answer is not looked at here - the JSON form is C05's business: a 200
	// counts as the handler's value)
	rec := map[string]any{"event": "Resp", "status": status, "ctype": class, "hookHdr": false, "raw": raw,
		"asMsg": map[string]any{"ok": status == 200, "val": map[bool]string{true: "RESP", false: ""}[status == 200]}, "asCustom": map[string]any{"ok": false, "val": ""}}
	ve := &sebufhttp.ValidationError{}
	if decodeAs(class, body, ve) {
		names := []string{}
		for _, v := range ve.GetViolations() {
			names = append(names, strings.ToLower(v.GetField()))
		}
		rec["asVE"] = map[string]any{"ok": true, "viol": names}
	} else {
		rec["asVE"] = map[string]any{"ok": false, "viol": []string{}}
	}
	er := &sebufhttp.Error{}
	if decodeAs(class, body, er) {
		rec["asErr"] = map[string]any{"ok": true, "msg": er.GetMessage()}
	} else {
		rec["asErr"] = map[string]any{"ok": false, "msg": ""}
	}
	return rec
}

// BareRequest is the abstract request of a POST to an RPC whose message is not modelled field by
// field (fields = <<>>): only the body class, the content type and the outcome are judged.
func BareRequest(bodyCls string, framing ...string) AReq {
	a := AReq{}
	a.Rpc = Rpc{Name: "M", Verb: "POST"}
	a.Body = Body{Cls: bodyCls, Ctype: "json", Framing: "sized"}
	if len(framing) > 0 {
		a.Body.Framing = framing[0]
	}
	a.Handler.Kind, a.Handler.Val = "ok", "RESP"
	a.Server = "go"
	a.normalize()
	return a
}

// ValidateSegments runs Trace_Wire over independent segments (each starting with a Req line); a
// rejected segment is isolated, recorded, removed, and validation continues with the rest.
func ValidateSegments(segs [][]string, dev []string, maxReject int) (accepted []int, rejected map[int]string, runs int, err error) {
	rejected = map[int]string{}
	remaining := make([]int, len(segs))
	for i := range segs {
		remaining[i] = i
	}
	for len(remaining) > 0 {
		var lines []string
		var owner []int
		for _, si := range remaining {
			for _, l := range segs[si] {
				lines = append(lines, l)
				owner = append(owner, si)
			}
		}
		res, e := runTrace(lines, dev)
		if e != nil {
			return nil, nil, runs, e
		}
		runs++
		if res.OK {
			accepted = append(accepted, remaining...)
			return
		}
		if res.RejectedAt < 1 || res.RejectedAt > len(owner) {
			return nil, nil, runs, fmt.Errorf("harness: TLC failed on trace without a usable rejection line: %s", firstN(res.Error, 1500))
		}
		bad := owner[res.RejectedAt-1]
		rejected[bad] = lines[res.RejectedAt-1]
		var rest []int
		for _, si := range remaining {
			switch {
			case si == bad:
			case si < bad:
				accepted = append(accepted, si)
			default:
				rest = append(rest, si)
			}
		}
		remaining = rest
		if len(rejected) >= maxReject {
			return
		}
	}
	return
}

// framingOf picks how a case's body travels: with its length announced, or chunked (a streaming
// client, a re-chunking proxy, HTTP/2 without content-length) - by a hash of the case and the seed,
// so that every class of body meets both over the cases of a run.
func framingOf(c *Case) string {
	if c.C.NoBody {
		return "none"
	}
	h := uint32(c.ID)*2654435761 + uint32(len(c.C.Body))*40503
	if s, err := strconv.Atoi(os.Getenv("VERIF_SEED")); err == nil {
		h += uint32(s) * 97
	}
	if (h>>9)&1 == 1 {
		return "chunked"
	}
	return "sized"
}
