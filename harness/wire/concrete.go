package wire

import (
	"encoding/json"
	"fmt"
	"math"
	"net/url"
	"sort"
	"strconv"
	"strings"

	"google.golang.org/protobuf/encoding/protojson"
	"google.golang.org/protobuf/proto"
	"google.golang.org/protobuf/reflect/protoreflect"
	"google.golang.org/protobuf/reflect/protoregistry"
	"google.golang.org/protobuf/types/dynamicpb"

	"verifharness/abs"
	"verifharness/val"
)

// ---- value table: concrete renderings of value classes per kind (independent three-line functions)

// urlGood returns the decoded text of the "U" (URL) and "B" (body) values of a kind.
func sampleText(kind, which string) string {
	u := which == "U"
	switch kind {
	case "string":
		if u {
			return "uval"
		}
		return "bval"
	case "int32", "sfixed32":
		if u {
			return "41"
		}
		return "42"
	case "sint32":
		if u {
			return "-41"
		}
		return "-42"
	case "int64":
		if u {
			return "9007199254740993"
		}
		return "9007199254740995"
	case "sint64", "sfixed64":
		if u {
			return "-9007199254740993"
		}
		return "-9007199254740995"
	case "uint32", "fixed32":
		if u {
			return "4294967295"
		}
		return "4294967294"
	case "uint64", "fixed64":
		if u {
			return "18446744073709551615"
		}
		return "18446744073709551614"
	case "bool":
		return "true"
	case "float":
		if u {
			return "1.5"
		}
		return "2.5"
	case "double":
		if u {
			return "1e-07"
		}
		return "2.25"
	}
	return ""
}

func malformedText(kind string) (string, bool) {
	switch kind {
	case "string":
		return "", false
	case "bool":
		return "maybe", true
	case "float", "double":
		return "1.2.3", true
	default:
		return "12x", true
	}
}

func oorText(kind string) (string, bool) {
	switch kind {
	case "int32", "sint32", "sfixed32":
		return "2147483648", true
	case "int64", "sint64", "sfixed64":
		return "9223372036854775808", true
	case "uint32", "fixed32":
		return "4294967296", true
	case "uint64", "fixed64":
		return "18446744073709551616", true
	case "float":
		return "1e39", true
	case "double":
		return "1e309", true
	}
	return "", false
}

func zeroText(kind string) string {
	switch kind {
	case "string":
		return ""
	case "bool":
		return "false"
	default:
		return "0"
	}
}

// parseScalar converts decoded URL text to a protoreflect.Value of the field's kind.
func parseScalar(fd protoreflect.FieldDescriptor, s string) (protoreflect.Value, error) {
	switch fd.Kind() {
	case protoreflect.StringKind:
		return protoreflect.ValueOfString(s), nil
	case protoreflect.BoolKind:
		b, err := strconv.ParseBool(s)
		return protoreflect.ValueOfBool(b), err
	case protoreflect.Int32Kind, protoreflect.Sint32Kind, protoreflect.Sfixed32Kind:
		v, err := strconv.ParseInt(s, 10, 32)
		return protoreflect.ValueOfInt32(int32(v)), err
	case protoreflect.Int64Kind, protoreflect.Sint64Kind, protoreflect.Sfixed64Kind:
		v, err := strconv.ParseInt(s, 10, 64)
		return protoreflect.ValueOfInt64(v), err
	case protoreflect.Uint32Kind, protoreflect.Fixed32Kind:
		v, err := strconv.ParseUint(s, 10, 32)
		return protoreflect.ValueOfUint32(uint32(v)), err
	case protoreflect.Uint64Kind, protoreflect.Fixed64Kind:
		v, err := strconv.ParseUint(s, 10, 64)
		return protoreflect.ValueOfUint64(v), err
	case protoreflect.FloatKind:
		v, err := strconv.ParseFloat(s, 32)
		if err == nil && math.IsInf(v, 0) {
			err = fmt.Errorf("inf")
		}
		return protoreflect.ValueOfFloat32(float32(v)), err
	case protoreflect.DoubleKind:
		v, err := strconv.ParseFloat(s, 64)
		return protoreflect.ValueOfFloat64(v), err
	}
	return protoreflect.Value{}, fmt.Errorf("kind %v not URL-bindable", fd.Kind())
}

// pctAll percent-encodes every byte (a legal, if unusual, URL encoding).
func pctAll(s string) string {
	var b strings.Builder
	for i := 0; i < len(s); i++ {
		fmt.Fprintf(&b, "%%%02X", s[i])
	}
	return b.String()
}

// header value classes generated FROM the published type/format.
func headerValue(typ, format, cls string) (string, bool) {
	switch cls {
	case "absent":
		return "", false
	case "empty":
		return "", true
	case "nonutf8":
		// not valid UTF-8, but with the byte shape of a well-formed value of the format (a validator that
		// only looks at the shape must not let it through)
		switch format {
		case "uuid":
			return "\xff\xfe3e4567-e89b-12d3-a456-426614174000", true
		case "email":
			return "j\xf6rg@example.com", true
		case "date-time":
			return "2024-03-01T12:30:00\xff", true
		}
		if typ == "string" || typ == "" {
			return "\xff\xfehello", true
		}
		if typ == "array" {
			return "", false // as for "bad": an array of strings has no clear-cut invalid form
		}
		return "\xff\xfe", true
	}
	if cls == "okalt" {
		// a second well-formed value of the published type / format, spelt another way: a validator must
		// not be narrower than what the document publishes (RFC 4122: upper-case hex digits are accepted on input)
		switch {
		case typ == "integer":
			return "0", true
		case typ == "boolean":
			return "false", true
		case (typ == "string" || typ == "") && format == "uuid":
			return "F47AC10B-58CC-4372-A567-0E02B2C3d479", true
		}
		return "", false // no second spelling: the request is not concretised
	}
	ok := cls == "ok"
	switch typ {
	case "integer":
		if ok {
			return "-7", true
		}
		return "seven", true
	case "number":
		if ok {
			return "3.5", true
		}
		return "pi", true
	case "boolean":
		if ok {
			return "true", true
		}
		return "yes-please", true
	case "array":
		if ok {
			return "a,b", true
		}
		return "", false // no clear-cut invalid form for an array of strings
	}
	switch format {
	case "uuid":
		if ok {
			return "123e4567-e89b-12d3-a456-426614174000", true
		}
		return "zzzzzzzz_zzzz_zzzz_zzzz_zzzzzzzzzzzz", true // 36 chars, no dashes at the right places, no hex
	case "email":
		if ok {
			return "a@b.example", true
		}
		return "not-an-email", true
	case "date-time":
		if ok {
			return "2024-03-01T12:30:00Z", true
		}
		return "2024-13-45T99:00:00Z", true
	case "date":
		if ok {
			return "2024-03-01", true
		}
		return "2024-13-45", true
	case "time":
		if ok {
			return "12:30:00", true
		}
		return "25:61:61", true
	}
	if ok {
		return "hello", true
	}
	return "", false // a plain string has no clear-cut invalid form
}

// HeaderClassExists tells whether the class has a clear-cut concrete form for (type, format).
func HeaderClassExists(typ, format, cls string) bool {
	if cls == "absent" {
		return true
	}
	_, ok := headerValue(typ, format, cls)
	return ok
}

// ---- schema for a set of RPC shapes -------------------------------------------------------------

// Shape is one emitted RPC.
type Shape struct {
	Idx  int
	Rpc  Rpc
	Pkg  int
	Key  string
	Svc  string
	Meth string
	In   string // full name of the request message
	// the header parameters the real OpenAPI document publishes for this operation (C09), nil = not looked up
	Published *Published
}

// PubParam is one "in: header" parameter of an OpenAPI operation.
type PubParam struct {
	Name     string `json:"name"`
	Lname    string `json:"lname"`
	Required bool   `json:"required"`
	Type     string `json:"type"`
	Format   string `json:"format"`
}

// Published is what the document says about one operation.
type Published struct {
	Found  bool       `json:"found"` // the operation exists in the document
	Params []PubParam `json:"params"`
}

// Path is the route of the shape as declared (with {var} segments).
func (sh *Shape) Path() string {
	path := fmt.Sprintf("/s%d", sh.Idx)
	for _, v := range sh.Rpc.PathVars {
		path += "/{" + v + "}"
	}
	return path
}

const shapesPerPkg = 40

func shapeKey(r Rpc) string {
	b, _ := json.Marshal(r)
	return string(b)
}

// BuildSchema creates one abstract schema hosting every shape: package wN per 40 shapes; one
// service and one request message per shape; shared Out / CustomError / N messages per file.
func BuildSchema(prefix string, shapes []*Shape) *abs.Schema {
	s := &abs.Schema{}
	files := map[int]*abs.File{}
	methOrd := map[*abs.Method]int{}
	groupPkg := map[string]int{}
	groupSvc := map[string]*abs.Service{}
	for _, sh := range shapes {
		sh.Pkg = sh.Idx / shapesPerPkg
		if g := sh.Rpc.Group; g != "" {
			// the methods of one service live in one file: that of the group's first shape
			if p, ok := groupPkg[g]; ok {
				sh.Pkg = p
			} else {
				groupPkg[g] = sh.Pkg
			}
		}
		f := files[sh.Pkg]
		if f == nil {
			pk := fmt.Sprintf("%s%d", prefix, sh.Pkg)
			f = &abs.File{Name: pk + "/svc.proto", Pkg: pk + ".v1", GoPkg: "scratch/gen/" + pk + ";" + pk, Generate: true}
			nrules := abs.NoRules()
			nrules.MinLen = 2
			f.Messages = append(f.Messages,
				&abs.Message{Name: "Out", Fields: []*abs.Field{
					{Name: "id", Num: 1, Kind: "string", Card: "one", Rules: abs.NoRules()},
					{Name: "n", Num: 2, Kind: "int64", Card: "one", Rules: abs.NoRules()},
					{Name: "tags", Num: 3, Kind: "string", Card: "rep", Rules: abs.NoRules()}}},
				&abs.Message{Name: "CustomError", Fields: []*abs.Field{
					{Name: "code", Num: 1, Kind: "string", Card: "one", Rules: abs.NoRules()},
					{Name: "num", Num: 2, Kind: "int32", Card: "one", Rules: abs.NoRules()},
					{Name: "details", Num: 3, Kind: "string", Card: "rep", Rules: abs.NoRules()}}},
				&abs.Message{Name: "N", Fields: []*abs.Field{{Name: "s", Num: 1, Kind: "string", Card: "one", Rules: nrules}}},
			)
			files[sh.Pkg] = f
			s.Files = append(s.Files, f)
		}
		pk := f.Pkg
		sh.Svc = fmt.Sprintf("S%d", sh.Idx)
		if sh.Rpc.Group != "" {
			sh.Svc = "G" + sh.Rpc.Group
		}
		sh.Meth = fmt.Sprintf("M%d", sh.Idx)
		sh.In = fmt.Sprintf("%s.Req%d", pk, sh.Idx)
		msg := &abs.Message{Name: fmt.Sprintf("Req%d", sh.Idx)}
		qp := map[string]QP{}
		for _, q := range sh.Rpc.Query {
			qp[q.Field] = q
		}
		for i, fdef := range sh.Rpc.Fdefs {
			fl := &abs.Field{Name: fdef.Name, Num: int32(i + 1), Kind: fdef.Kind, Card: fdef.Card, Rules: abs.NoRules(), Oneof: fdef.Oneof}
			if fdef.Oneof != "" {
				found := false
				for _, o := range msg.Oneofs {
					found = found || o.Name == fdef.Oneof
				}
				if !found {
					msg.Oneofs = append(msg.Oneofs, &abs.Oneof{Name: fdef.Oneof})
				}
			}
			if fdef.Kind == "N" {
				fl.Kind, fl.Ref = "message", pk+".N"
				if fdef.Card == "map" {
					fl.KeyKind = "string"
				}
			}
			if fdef.Rule == "max5" {
				fl.Rules.MaxLen = 5
			}
			if q, ok := qp[fdef.Name]; ok {
				fl.Ann.Query, fl.Ann.QueryName, fl.Ann.QueryReq = true, q.Name, q.Required
			}
			msg.Fields = append(msg.Fields, fl)
		}
		f.Messages = append(f.Messages, msg)
		path := fmt.Sprintf("/s%d", sh.Idx)
		for _, v := range sh.Rpc.PathVars {
			path += "/{" + v + "}"
		}
		sv := &abs.Service{Name: sh.Svc}
		first := true
		if g := sh.Rpc.Group; g != "" {
			if old, ok := groupSvc[g]; ok {
				sv, first = old, false
			} else {
				groupSvc[g] = sv
			}
		}
		me := &abs.Method{Name: sh.Meth, In: sh.In, Out: pk + ".Out", HasCfg: true, Path: path, Verb: sh.Rpc.Verb}
		for _, h := range sh.Rpc.Hdrs {
			ah := &abs.Header{Name: h.Name, Type: h.Type, Format: h.Format, Required: h.Required}
			if h.Level == "svc" {
				if first {
					sv.Headers = append(sv.Headers, ah)
				}
			} else {
				me.Headers = append(me.Headers, ah)
			}
		}
		methOrd[me] = sh.Rpc.Ord
		sv.Methods = append(sv.Methods, me)
		if first {
			f.Services = append(f.Services, sv)
		}
	}
	for _, sv := range groupSvc {
		ms := sv.Methods
		sort.SliceStable(ms, func(i, j int) bool { return methOrd[ms[i]] < methOrd[ms[j]] })
	}
	sort.Slice(s.Files, func(i, j int) bool { return s.Files[i].Name < s.Files[j].Name })
	return s
}

// ---- concretisation ----------------------------------------------------------------------------

func fdefOf(r Rpc, name string) *FDef {
	for i := range r.Fdefs {
		if r.Fdefs[i].Name == name {
			return &r.Fdefs[i]
		}
	}
	return nil
}

// bodyValue sets field fd of m to the body ("B") or rule-violating ("V") sample value.
func setSample(m *dynamicpb.Message, fd protoreflect.FieldDescriptor, fdef *FDef, class string) error {
	mkN := func(s string) protoreflect.Value {
		n := dynamicpb.NewMessage(fd.Message())
		if fd.IsMap() {
			n = dynamicpb.NewMessage(fd.MapValue().Message())
		}
		n.Set(n.Descriptor().Fields().ByName("s"), protoreflect.ValueOfString(s))
		return protoreflect.ValueOfMessage(n)
	}
	if fdef.Kind == "N" {
		s := "ok"
		if class == "V" {
			s = "x" // violates min_len 2
		}
		switch fdef.Card {
		case "rep":
			l := m.Mutable(fd).List()
			l.Append(mkN("ok"))
			l.Append(mkN(s))
		case "map":
			m.Mutable(fd).Map().Set(protoreflect.ValueOfString("k").MapKey(), mkN(s))
		default:
			m.Set(fd, mkN(s))
		}
		return nil
	}
	txt := sampleText(fdef.Kind, "B")
	if class == "V" {
		txt = "toolong!"
	}
	if class == "U" {
		txt = sampleText(fdef.Kind, "U")
	}
	v, err := parseScalar(fd, txt)
	if err != nil {
		return err
	}
	if fd.IsList() {
		m.Mutable(fd).List().Append(v)
		return nil
	}
	m.Set(fd, v)
	return nil
}

// Concretise turns a symbolic request (tokens "U_f", "B_f", "Z_f", "V_f", "RESP", "CUSTOM") into
// a concrete one; the returned AReq carries canonical tokens. ok=false when a class has no
// concrete form for the chosen kinds (the case is then not applicable and skipped).
func Concretise(files *protoregistry.Files, sh *Shape, sym AReq) (AReq, Concrete, string, bool, error) {
	a := sym
	a.normalize()
	a.Rpc = sh.Rpc
	var c Concrete
	in, err := val.New(files, sh.In)
	if err != nil {
		return a, c, "", false, err
	}
	md := in.Descriptor()
	tok := map[string]string{} // symbolic -> canonical
	// zero tokens
	for _, f := range sh.Rpc.Fields {
		fd := md.Fields().ByName(protoreflect.Name(f))
		if fd == nil {
			return a, c, "", false, fmt.Errorf("field %s not in %s", f, sh.In)
		}
		tok["Z_"+f] = val.Field(in, fd)
	}
	var notes []string
	// URL
	path := fmt.Sprintf("/s%d", sh.Idx)
	q := []string{}
	urlCls := map[string]UrlF{}
	for _, u := range a.Url {
		urlCls[u.Field] = u
	}
	qname := map[string]string{}
	for _, qp := range sh.Rpc.Query {
		qname[qp.Field] = qp.Name
	}
	emit := func(u UrlF, wire string) {
		if u.Loc == "path" {
			return
		}
		q = append(q, url.QueryEscape(qname[u.Field])+"="+wire)
	}
	for _, pv := range sh.Rpc.PathVars {
		u, ok := urlCls[pv]
		if !ok {
			return a, c, "", false, fmt.Errorf("path var %s has no url class", pv)
		}
		fdef := fdefOf(sh.Rpc, pv)
		wire, okc := urlWire(fdef.Kind, u.Cls, "path")
		if !okc {
			return a, c, "", false, nil
		}
		path += "/" + wire
	}
	for _, u := range a.Url {
		fdef := fdefOf(sh.Rpc, u.Field)
		fd := md.Fields().ByName(protoreflect.Name(u.Field))
		switch u.Cls {
		case "absent", "missing_required":
		default:
			wire, okc := urlWire(fdef.Kind, u.Cls, u.Loc)
			if !okc {
				return a, c, "", false, nil
			}
			emit(u, wire)
			if u.Cls == "repeated" {
				emit(u, wire)
			}
		}
		// canonical token of the expected converted value
		var txt string
		switch u.Cls {
		case "good", "pct", "repeated":
			txt = sampleText(fdef.Kind, "U")
			if u.Cls == "pct" && fdef.Kind == "string" {
				txt = "a b/c?d&e=f%+,g;h"
			}
		case "zero":
			txt = zeroText(fdef.Kind)
		}
		if u.Cls == "good" || u.Cls == "pct" || u.Cls == "repeated" || u.Cls == "zero" {
			v, err := parseScalar(fd, txt)
			if err != nil {
				return a, c, "", false, err
			}
			tmp := dynamicpb.NewMessage(md)
			if fd.IsList() {
				tmp.Mutable(fd).List().Append(v)
				if u.Cls == "repeated" {
					tmp.Mutable(fd).List().Append(v)
				}
			} else {
				tmp.Set(fd, v)
			}
			tok["U_"+u.Field] = val.Field(tmp, fd)
		} else {
			tok["U_"+u.Field] = "n/a"
		}
		notes = append(notes, fmt.Sprintf("%s:%s/%s", u.Field, fdef.Kind, u.Cls))
	}
	c.URL = path
	if len(q) > 0 {
		c.URL += "?" + strings.Join(q, "&")
	}
	// headers
	ct := map[string]string{"json": "application/json", "proto": "application/x-protobuf", "octet": "application/octet-stream",
		"other": "text/weird; charset=utf-8", "jsonparams": "application/json; charset=utf-8"}
	if v, ok := ct[a.Body.Ctype]; ok {
		c.Headers = append(c.Headers, [2]string{"Content-Type", v})
	}
	eff := map[string]Hdr{}
	for _, h := range sh.Rpc.Hdrs {
		if h.Level == "svc" {
			eff[h.Lname] = h
		}
	}
	for _, h := range sh.Rpc.Hdrs {
		if h.Level == "method" {
			eff[h.Lname] = h
		}
	}
	for _, hv := range a.HdrVals {
		h, ok := eff[hv.Lname]
		if !ok {
			continue
		}
		v, present := headerValue(h.Type, h.Format, hv.Cls)
		if hv.Cls != "absent" && !present {
			return a, c, "", false, nil // class has no clear-cut form for this declaration
		}
		if present {
			c.Headers = append(c.Headers, [2]string{h.Name, v})
		}
	}
	// body
	bodyMsg := dynamicpb.NewMessage(md)
	for _, kv := range a.Body.Vals {
		fd := md.Fields().ByName(protoreflect.Name(kv.K))
		fdef := fdefOf(sh.Rpc, kv.K)
		if fd == nil || fdef == nil {
			if sh.Rpc.Verb == "GET" || sh.Rpc.Verb == "DELETE" {
				continue // the body of a bodiless verb is ignored by contract; unknown members are dropped
			}
			return a, c, "", false, fmt.Errorf("body mentions unknown field %s", kv.K)
		}
		class := "B"
		if strings.HasPrefix(kv.V, "V_") {
			class = "V"
		}
		if err := setSample(bodyMsg, fd, fdef, class); err != nil {
			return a, c, "", false, err
		}
		tok[kv.V] = val.Field(bodyMsg, fd)
	}
	binary := a.Body.Ctype == "proto" || a.Body.Ctype == "octet"
	switch a.Body.Cls {
	case "absent":
		c.NoBody = true
	case "empty":
		c.Body = []byte{}
	case "valid":
		if binary {
			c.Body = val.Det(bodyMsg)
		} else {
			b, err := protojson.MarshalOptions{UseProtoNames: false}.Marshal(bodyMsg)
			if err != nil {
				return a, c, "", false, err
			}
			c.Body = b
		}
	case "malformed":
		if binary {
			c.Body = []byte{0xff, 0xff, 0xff, 0xff, 0x0f, 0x01}
		} else if a.Body.Ctype == "json" || a.Body.Ctype == "jsonparams" {
			c.Body = []byte(`{"b": "unterminated`)
		} else {
			// unknown / missing content type: undecodable under every documented interpretation
			c.Body = []byte{0xff, 0x7b, 0x22, 0xff}
		}
	default:
		return a, c, "", false, fmt.Errorf("body class %q has no concretisation here", a.Body.Cls)
	}
	notes = append(notes, "body:"+a.Body.Cls+"/"+a.Body.Ctype)
	// canonicalise tokens
	canon := func(s string) string {
		if v, ok := tok[s]; ok {
			return v
		}
		return s
	}
	for i := range a.Url {
		a.Url[i].Tok = canon(a.Url[i].Tok)
	}
	for i := range a.Body.Vals {
		a.Body.Vals[i].V = canon(a.Body.Vals[i].V)
	}
	a.Zero = nil
	for _, f := range sh.Rpc.Fields {
		a.Zero = append(a.Zero, KV{K: f, V: tok["Z_"+f]})
	}
	return a, c, strings.Join(notes, " "), true, nil
}

// urlWire renders the on-the-wire text of a URL value class.
func urlWire(kind, cls, loc string) (string, bool) {
	esc := url.QueryEscape
	if loc == "path" {
		esc = url.PathEscape
	}
	switch cls {
	case "good", "repeated":
		return esc(sampleText(kind, "U")), true
	case "pct":
		if kind == "string" {
			return pctAll("a b/c?d&e=f%+,g;h"), true
		}
		return pctAll(sampleText(kind, "U")), true
	case "zero":
		z := zeroText(kind)
		if z == "" && loc == "path" {
			return "", false
		}
		return esc(z), true
	case "malformed":
		t, ok := malformedText(kind)
		return esc(t), ok
	case "oor":
		t, ok := oorText(kind)
		return esc(t), ok
	}
	return "", false
}

var _ = proto.Marshal

// ParseScalar converts decoded URL text to a value of the field's kind (exported for other checks).
func ParseScalar(fd protoreflect.FieldDescriptor, s string) (protoreflect.Value, error) {
	return parseScalar(fd, s)
}
