// Package wire binds spec/SebufWire.tla to the real emitted Go server: it concretises abstract
// requests (exported by TLC or generated randomly), runs them through the real mux and abstracts
// the recorded events into the trace that Trace_Wire.tla validates.
package wire

// The abstract request, field for field as in SebufWire.tla (total records, no nulls).
type Hdr struct {
	Name     string `json:"name"`
	Lname    string `json:"lname"`
	Level    string `json:"level"` // svc | method
	Required bool   `json:"required"`
	Type     string `json:"type"`
	Format   string `json:"format"`
}

type QP struct {
	Field    string `json:"field"`
	Name     string `json:"name"`
	Required bool   `json:"required"`
}

// FDef: Kind is a scalar kind or "N" (the shared nested message with a validated string s).
type FDef struct {
	Name  string `json:"name"`
	Kind  string `json:"kind"`
	Card  string `json:"card"`
	Rule  string `json:"rule"`  // "" | "max5" (string max_len 5)
	Oneof string `json:"oneof"` // name of the containing oneof, "" = none
}

type Rpc struct {
	Name     string   `json:"name"`
	Verb     string   `json:"verb"`
	Fields   []string `json:"fields"`
	Fdefs    []FDef   `json:"fdefs"`
	PathVars []string `json:"pathVars"`
	Query    []QP     `json:"query"`
	Hdrs     []Hdr    `json:"hdrs"`
	// RPCs with the same non-empty Group are methods of ONE service, declared in Ord order (their
	// service-level headers are the same); "" = a service of its own
	Group string `json:"group"`
	Ord   int    `json:"ord"`
}

type KV struct {
	K string `json:"k"`
	V string `json:"v"`
}

type HV struct {
	Lname string `json:"lname"`
	Cls   string `json:"cls"`
}

type UrlF struct {
	Field string `json:"field"`
	Loc   string `json:"loc"`
	Cls   string `json:"cls"`
	Tok   string `json:"tok"`
}

type Body struct {
	Cls      string   `json:"cls"`
	Ctype    string   `json:"ctype"`
	Mentions []string `json:"mentions"`
	Vals     []KV     `json:"vals"`
	// how the body travels ("sized" | "chunked" | "none"): chosen by the harness per case, no part of
	// the specification reads it - the life cycle must not depend on it
	Framing string `json:"framing"`
}

type Handler struct {
	Kind string   `json:"kind"`
	Msg  string   `json:"msg"`
	Val  string   `json:"val"`
	Viol []string `json:"viol"`
}

type Hook struct {
	On      bool `json:"on"`
	Msg     bool `json:"msg"`
	Headers bool `json:"headers"`
	Status  bool `json:"status"`
	Body    bool `json:"body"`
}

type AReq struct {
	Rpc      Rpc      `json:"rpc"`
	HdrVals  []HV     `json:"hdrVals"`
	Url      []UrlF   `json:"url"`
	Body     Body     `json:"body"`
	Zero     []KV     `json:"zero"`
	RuleViol []string `json:"ruleViol"`
	Handler  Handler  `json:"handler"`
	Hook     Hook     `json:"hook"`
	Server   string   `json:"server"`
}

func (r *AReq) normalize() {
	if r.HdrVals == nil {
		r.HdrVals = []HV{}
	}
	if r.Url == nil {
		r.Url = []UrlF{}
	}
	if r.Body.Mentions == nil {
		r.Body.Mentions = []string{}
	}
	if r.Body.Vals == nil {
		r.Body.Vals = []KV{}
	}
	if r.Zero == nil {
		r.Zero = []KV{}
	}
	if r.RuleViol == nil {
		r.RuleViol = []string{}
	}
	if r.Handler.Viol == nil {
		r.Handler.Viol = []string{}
	}
	if r.Rpc.Fields == nil {
		r.Rpc.Fields = []string{}
	}
	if r.Rpc.Fdefs == nil {
		r.Rpc.Fdefs = []FDef{}
	}
	if r.Rpc.PathVars == nil {
		r.Rpc.PathVars = []string{}
	}
	if r.Rpc.Query == nil {
		r.Rpc.Query = []QP{}
	}
	if r.Rpc.Hdrs == nil {
		r.Rpc.Hdrs = []Hdr{}
	}
}

// Concrete is the real request derived from an abstract one.
type Concrete struct {
	URL     string
	Headers [][2]string
	Body    []byte
	NoBody  bool
}

// Case couples the abstract request (tokens already canonical) with its concretisation.
type Case struct {
	ID     int
	A      AReq
	C      Concrete
	RpcKey string // identifies the RPC shape (one emitted method per key)
	Origin string // "tlc:<family>" | "random"
	Note   string // human-readable concretisation choices (kind, classes)
}
