// Package val renders protobuf values as canonical text tokens (what TLC compares) and builds
// dynamic messages from the concrete descriptor set.
package val

import (
	"encoding/hex"
	"fmt"
	"sort"
	"strconv"
	"strings"

	"google.golang.org/protobuf/proto"
	"google.golang.org/protobuf/reflect/protoreflect"
	"google.golang.org/protobuf/reflect/protoregistry"
	"google.golang.org/protobuf/types/dynamicpb"
)

// Canon renders a singular (non-list, non-map) value.
func canonSingle(fd protoreflect.FieldDescriptor, v protoreflect.Value) string {
	switch fd.Kind() {
	case protoreflect.BoolKind:
		return strconv.FormatBool(v.Bool())
	case protoreflect.Int32Kind, protoreflect.Sint32Kind, protoreflect.Sfixed32Kind,
		protoreflect.Int64Kind, protoreflect.Sint64Kind, protoreflect.Sfixed64Kind:
		return strconv.FormatInt(v.Int(), 10)
	case protoreflect.Uint32Kind, protoreflect.Fixed32Kind, protoreflect.Uint64Kind, protoreflect.Fixed64Kind:
		return strconv.FormatUint(v.Uint(), 10)
	case protoreflect.FloatKind:
		return "f" + strconv.FormatFloat(v.Float(), 'g', -1, 32)
	case protoreflect.DoubleKind:
		return "d" + strconv.FormatFloat(v.Float(), 'g', -1, 64)
	case protoreflect.StringKind:
		return strconv.Quote(v.String())
	case protoreflect.BytesKind:
		return "x'" + hex.EncodeToString(v.Bytes()) + "'"
	case protoreflect.EnumKind:
		return "e" + strconv.Itoa(int(v.Enum()))
	case protoreflect.MessageKind, protoreflect.GroupKind:
		return Message(v.Message())
	}
	return "?"
}

// Field renders the value of one field of m ("-" for an unset message / unset optional).
func Field(m protoreflect.Message, fd protoreflect.FieldDescriptor) string {
	switch {
	case fd.IsMap():
		mp := m.Get(fd).Map()
		var keys []string
		vals := map[string]string{}
		mp.Range(func(k protoreflect.MapKey, v protoreflect.Value) bool {
			ks := canonSingle(fd.MapKey(), k.Value())
			keys = append(keys, ks)
			vals[ks] = canonSingle(fd.MapValue(), v)
			return true
		})
		sort.Strings(keys)
		var b strings.Builder
		b.WriteString("{")
		for i, k := range keys {
			if i > 0 {
				b.WriteString(",")
			}
			b.WriteString(k + "=" + vals[k])
		}
		b.WriteString("}")
		return b.String()
	case fd.IsList():
		l := m.Get(fd).List()
		var parts []string
		for i := 0; i < l.Len(); i++ {
			parts = append(parts, canonSingle(fd, l.Get(i)))
		}
		return "[" + strings.Join(parts, ",") + "]"
	default:
		if fd.HasPresence() && !m.Has(fd) {
			return "-"
		}
		return canonSingle(fd, m.Get(fd))
	}
}

// Message renders a whole message: populated fields in field-number order.
func Message(m protoreflect.Message) string {
	if !m.IsValid() {
		return "-"
	}
	fds := m.Descriptor().Fields()
	idx := make([]int, fds.Len())
	for i := range idx {
		idx[i] = i
	}
	sort.Slice(idx, func(a, b int) bool { return fds.Get(idx[a]).Number() < fds.Get(idx[b]).Number() })
	var parts []string
	for _, i := range idx {
		fd := fds.Get(i)
		if !m.Has(fd) {
			continue
		}
		parts = append(parts, string(fd.Name())+":"+Field(m, fd))
	}
	if u := m.GetUnknown(); len(u) > 0 {
		parts = append(parts, "?unknown:"+hex.EncodeToString(u))
	}
	return "{" + strings.Join(parts, ",") + "}"
}

// New creates a dynamic message of the named type from files.
func New(files *protoregistry.Files, full string) (*dynamicpb.Message, error) {
	d, err := files.FindDescriptorByName(protoreflect.FullName(full))
	if err != nil {
		return nil, err
	}
	md, ok := d.(protoreflect.MessageDescriptor)
	if !ok {
		return nil, fmt.Errorf("%s is not a message", full)
	}
	return dynamicpb.NewMessage(md), nil
}

// Decode unmarshals binary into a dynamic message of the named type.
func Decode(files *protoregistry.Files, full string, b []byte) (*dynamicpb.Message, error) {
	m, err := New(files, full)
	if err != nil {
		return nil, err
	}
	if err := proto.Unmarshal(b, m); err != nil {
		return nil, err
	}
	return m, nil
}

// Det marshals deterministically.
func Det(m proto.Message) []byte {
	b, _ := proto.MarshalOptions{Deterministic: true}.Marshal(m)
	return b
}
