// Package plug builds the real plugins from /repo's working tree and runs them as subprocesses
// (the true plugin boundary: stdin, stdout, stderr, exit status, wall time, peak RSS).
package plug

import (
	"bytes"
	"context"
	"crypto/sha256"
	"encoding/hex"
	"errors"
	"fmt"
	"os"
	"os/exec"
	"path/filepath"
	"strings"
	"sync"
	"syscall"
	"time"

	"google.golang.org/protobuf/proto"
	"google.golang.org/protobuf/types/pluginpb"
)

// Names of the five sebuf plugins (binary name = "protoc-gen-" + name).
var Names = []string{"go-http", "go-client", "ts-client", "ts-server", "openapiv3"}

// RepoDir is the repository the plugins are built from.
func RepoDir() string {
	if d := os.Getenv("VERIF_REPO"); d != "" {
		return d
	}
	return "/repo"
}

// VerifDir is the root of the verification tree.
func VerifDir() string {
	if d := os.Getenv("VERIF_DIR"); d != "" {
		return d
	}
	return "/verif"
}

// GoEnv returns the environment for every go command the harness runs.
func GoEnv() []string {
	env := os.Environ()
	env = append(env, "GOFLAGS=-mod=mod", "GOPROXY=off", "GOTOOLCHAIN=auto", "GOWORK=off")
	return env
}

// Set is a directory of freshly built plugin binaries.
type Set struct {
	Dir string
}

var (
	buildOnce sync.Once
	buildSet  *Set
	buildErr  error
)

// Build builds the five plugins (with -tags verif) and protoc-gen-go into dir. It always invokes the
// go tool, which rebuilds from /repo's current working tree (content-addressed by Go's own cache).
func Build(dir string) (*Set, error) {
	buildOnce.Do(func() {
		if err := os.MkdirAll(dir, 0o755); err != nil {
			buildErr = err
			return
		}
		cmd := exec.Command("go", "build", "-tags", "verif", "-o", dir+string(os.PathSeparator), "./cmd/...")
		cmd.Dir = RepoDir()
		cmd.Env = GoEnv()
		if out, err := cmd.CombinedOutput(); err != nil {
			buildErr = fmt.Errorf("building plugins from %s: %v\n%s", RepoDir(), err, out)
			return
		}
		cmd = exec.Command("go", "build", "-o", filepath.Join(dir, "protoc-gen-go"), "google.golang.org/protobuf/cmd/protoc-gen-go")
		cmd.Dir = filepath.Join(VerifDir(), "harness")
		cmd.Env = GoEnv()
		if out, err := cmd.CombinedOutput(); err != nil {
			buildErr = fmt.Errorf("building protoc-gen-go: %v\n%s", err, out)
			return
		}
		buildSet = &Set{Dir: dir}
	})
	return buildSet, buildErr
}

// OutFile is one emitted file.
type OutFile struct {
	Name    string
	Content string
}

func (f OutFile) SHA() string {
	h := sha256.Sum256([]byte(f.Content))
	return hex.EncodeToString(h[:])
}

// Result is the abstraction of one plugin run.
type Result struct {
	Plugin string
	Exit   string // files | error | crash | timeout | oom
	Error  string // CodeGeneratorResponse.error, or stderr for crash
	Files  []OutFile
	Ms     int64
	RSSMb  int64
	Stderr string
}

func (r *Result) OK() bool { return r.Exit == "files" }

// File returns the emitted file with the given name, or nil.
func (r *Result) File(name string) *OutFile {
	for i := range r.Files {
		if r.Files[i].Name == name {
			return &r.Files[i]
		}
	}
	return nil
}

// RunOpts tunes one run.
type RunOpts struct {
	Timeout time.Duration
	Env     []string // extra environment (e.g. GOMAXPROCS=1)
	RSSMb   int64    // RSS limit reported as oom (observed after the fact), 0 = 1024
}

// Run executes one plugin on a request.
func (s *Set) Run(plugin string, req *pluginpb.CodeGeneratorRequest, o RunOpts) *Result {
	res := &Result{Plugin: plugin}
	in, err := proto.Marshal(req)
	if err != nil {
		res.Exit, res.Error = "crash", "harness: marshal request: "+err.Error()
		return res
	}
	if o.Timeout == 0 {
		o.Timeout = 20 * time.Second
	}
	if o.RSSMb == 0 {
		o.RSSMb = 1024
	}
	bin := filepath.Join(s.Dir, "protoc-gen-"+plugin)
	ctx, cancel := context.WithTimeout(context.Background(), o.Timeout)
	defer cancel()
	cmd := exec.CommandContext(ctx, bin)
	cmd.Stdin = bytes.NewReader(in)
	var stdout, stderr bytes.Buffer
	cmd.Stdout, cmd.Stderr = &stdout, &stderr
	cmd.Env = append(os.Environ(), o.Env...)
	// address-space guard so that a runaway plugin cannot take the sandbox down
	start := time.Now()
	err = cmd.Start()
	oomKilled := false
	if err == nil {
		// RSS watch: a runaway plugin is killed as soon as it exceeds the limit
		stop := make(chan struct{})
		go func() {
			t := time.NewTicker(25 * time.Millisecond)
			defer t.Stop()
			for {
				select {
				case <-stop:
					return
				case <-t.C:
					if rssMbOf(cmd.Process.Pid) > o.RSSMb {
						oomKilled = true
						_ = cmd.Process.Kill()
						return
					}
				}
			}
		}()
		err = cmd.Wait()
		close(stop)
	}
	res.Ms = time.Since(start).Milliseconds()
	res.Stderr = stderr.String()
	if cmd.ProcessState != nil {
		if ru, ok := cmd.ProcessState.SysUsage().(*syscall.Rusage); ok {
			res.RSSMb = ru.Maxrss / 1024
		}
	}
	if errors.Is(ctx.Err(), context.DeadlineExceeded) {
		res.Exit = "timeout"
		return res
	}
	if oomKilled || res.RSSMb > o.RSSMb {
		res.Exit = "oom"
		return res
	}
	if err != nil {
		// A plugin may also answer through the conventional channel of protobuf-go plugins: a one-line
		// diagnostic on stderr and exit status 1 (protoc reports it as the plugin's error message).
		// A Go panic / runtime fatal error / death by signal is a crash.
		se := stderr.String()
		signalled := cmd.ProcessState != nil && !cmd.ProcessState.Exited()
		if signalled || strings.Contains(se, "panic:") || strings.Contains(se, "goroutine ") || strings.Contains(se, "fatal error:") || strings.TrimSpace(se) == "" {
			res.Exit = "crash"
			res.Error = firstLines(se, 6)
			return res
		}
		res.Exit = "error"
		res.Error = firstLines(se, 6)
		return res
	}
	var resp pluginpb.CodeGeneratorResponse
	if err := proto.Unmarshal(stdout.Bytes(), &resp); err != nil {
		res.Exit = "crash"
		res.Error = "unparsable response: " + err.Error()
		return res
	}
	if resp.Error != nil {
		res.Exit = "error"
		res.Error = resp.GetError()
		// a plugin that reports an error must not be trusted to have emitted files, but record them
		for _, f := range resp.File {
			res.Files = append(res.Files, OutFile{Name: f.GetName(), Content: f.GetContent()})
		}
		return res
	}
	res.Exit = "files"
	for _, f := range resp.File {
		res.Files = append(res.Files, OutFile{Name: f.GetName(), Content: f.GetContent()})
	}
	return res
}

// rssMbOf reads VmRSS of a process from /proc.
func rssMbOf(pid int) int64 {
	b, err := os.ReadFile(fmt.Sprintf("/proc/%d/status", pid))
	if err != nil {
		return 0
	}
	for _, line := range strings.Split(string(b), "\n") {
		if strings.HasPrefix(line, "VmRSS:") {
			var kb int64
			fmt.Sscanf(strings.TrimSpace(strings.TrimPrefix(line, "VmRSS:")), "%d", &kb)
			return kb / 1024
		}
	}
	return 0
}

func firstLines(s string, n int) string {
	ls := strings.Split(s, "\n")
	if len(ls) > n {
		ls = ls[:n]
	}
	return strings.Join(ls, "\n")
}
