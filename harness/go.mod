module verifharness

go 1.24.7

require (
	buf.build/gen/go/bufbuild/protovalidate/protocolbuffers/go v1.36.11-20260209202127-80ab13bee0bf.1
	github.com/SebastienMelki/sebuf v0.0.0
	go.yaml.in/yaml/v4 v4.0.0-rc.4
	google.golang.org/protobuf v1.36.11
	pgregory.net/rapid v1.3.0
)

replace github.com/SebastienMelki/sebuf => /repo
