// Package work manages the scratch Go module that hosts emitted code: it writes plugin output,
// runs protoc-gen-go, generates the per-package glue and builds / vets / runs driver binaries.
package work

import (
	"bytes"
	"fmt"
	"os"
	"os/exec"
	"path/filepath"
	"sort"
	"strings"
	"verifharness/chk"

	"verifharness/plug"
)

// Workspace is one scratch module ("scratch") under a temp directory outside /repo and /verif.
type Workspace struct {
	Root string // temp dir
	Src  string // Root/src : plugin output is written relative to this
	Mod  string // Root/src/scratch : the module root
}

// ModulePath is the module path of the scratch module; go_package options must start with it.
const ModulePath = "scratch"

// New creates a scratch module.
func New() (*Workspace, error) {
	base := os.Getenv("VERIF_TMP")
	if base == "" {
		base = os.TempDir()
	}
	root, err := os.MkdirTemp(base, "vh-work-")
	if err != nil {
		return nil, err
	}
	w := &Workspace{Root: root, Src: filepath.Join(root, "src"), Mod: filepath.Join(root, "src", ModulePath)}
	if err := os.MkdirAll(w.Mod, 0o755); err != nil {
		return nil, err
	}
	vd := plug.VerifDir()
	gomod := fmt.Sprintf(`module %s

go 1.24.7

require (
	buf.build/gen/go/bufbuild/protovalidate/protocolbuffers/go v1.36.11-20260209202127-80ab13bee0bf.1
	buf.build/go/protovalidate v0.0.0
	github.com/SebastienMelki/sebuf v0.0.0
	google.golang.org/protobuf v1.36.11
	verifharness v0.0.0
)

replace github.com/SebastienMelki/sebuf => %s

replace buf.build/go/protovalidate => %s

replace verifharness => %s
`, ModulePath, plug.RepoDir(), filepath.Join(vd, "harness", "stubs", "protovalidate"), filepath.Join(vd, "harness"))
	if err := os.WriteFile(filepath.Join(w.Mod, "go.mod"), []byte(gomod), 0o644); err != nil {
		return nil, err
	}
	sum, err := os.ReadFile(filepath.Join(plug.RepoDir(), "go.sum"))
	if err != nil {
		return nil, err
	}
	if err := os.WriteFile(filepath.Join(w.Mod, "go.sum"), sum, 0o644); err != nil {
		return nil, err
	}
	chk.AtExit(w.Close)
	return w, nil
}

// Close removes the scratch module.
func (w *Workspace) Close() {
	if os.Getenv("VERIF_KEEP") != "" {
		fmt.Fprintln(os.Stderr, "keeping workspace", w.Root)
		return
	}
	_ = os.RemoveAll(w.Root)
}

// Write writes emitted files relative to Src (plugins run with paths=import).
func (w *Workspace) Write(files []plug.OutFile) error {
	for _, f := range files {
		p := filepath.Join(w.Src, f.Name)
		if err := os.MkdirAll(filepath.Dir(p), 0o755); err != nil {
			return err
		}
		if err := os.WriteFile(p, []byte(f.Content), 0o644); err != nil {
			return err
		}
	}
	return nil
}

// WriteFile writes one file relative to the module root.
func (w *Workspace) WriteFile(rel, content string) error {
	p := filepath.Join(w.Mod, rel)
	if err := os.MkdirAll(filepath.Dir(p), 0o755); err != nil {
		return err
	}
	return os.WriteFile(p, []byte(content), 0o644)
}

// Go runs a go command in the module root and returns combined output.
func (w *Workspace) Go(args ...string) (string, error) {
	cmd := exec.Command("go", args...)
	cmd.Dir = w.Mod
	cmd.Env = plug.GoEnv()
	var buf bytes.Buffer
	cmd.Stdout, cmd.Stderr = &buf, &buf
	err := cmd.Run()
	return buf.String(), err
}

// BuildPkgs compiles the given package patterns ("./gen/...") and returns per-package failures:
// map from package directory (relative, slash-separated, e.g. "gen/c12") to first diagnostic lines.
// An error is returned only when the go tool itself could not run.
func (w *Workspace) BuildPkgs(extra []string, patterns ...string) (map[string]string, string, error) {
	args := append([]string{"build", "-trimpath"}, extra...)
	args = append(args, patterns...)
	out, err := w.Go(args...)
	fails := map[string]string{}
	if err == nil {
		return fails, out, nil
	}
	if toolchainFailure(out) {
		return nil, out, fmt.Errorf("the Go toolchain failed underneath the build (build cache removed while building?): %s", firstLines(out, 6))
	}
	parseDiag(out, fails)
	if len(fails) == 0 {
		return nil, out, fmt.Errorf("go build failed without package diagnostics: %v\n%s", err, out)
	}
	return fails, out, nil
}

// VetPkgs runs the analyzers that `go test` runs by default (atomic, bool, buildtags, directive,
// errorsas, ifaceassert, nilfunc, printf, stringintconv, tests) on the patterns.
func (w *Workspace) VetPkgs(patterns ...string) (map[string]string, string, error) {
	args := []string{"vet", "-atomic", "-bool", "-buildtags", "-directive", "-errorsas", "-ifaceassert", "-nilfunc", "-printf", "-stringintconv", "-tests"}
	args = append(args, patterns...)
	out, err := w.Go(args...)
	fails := map[string]string{}
	if err == nil {
		return fails, out, nil
	}
	if toolchainFailure(out) {
		return nil, out, fmt.Errorf("the Go toolchain failed underneath go vet: %s", firstLines(out, 6))
	}
	parseDiag(out, fails)
	if len(fails) == 0 {
		return nil, out, fmt.Errorf("go vet failed without package diagnostics: %v\n%s", err, out)
	}
	return fails, out, nil
}

// parseDiag attributes "path/file.go:line:col: msg" lines to package directories.
func parseDiag(out string, fails map[string]string) {
	for _, line := range strings.Split(out, "\n") {
		line = strings.TrimSpace(line)
		if line == "" || strings.HasPrefix(line, "#") {
			continue
		}
		i := strings.Index(line, ".go:")
		if i < 0 {
			continue
		}
		file := strings.TrimPrefix(line[:i+3], "./")
		file = strings.TrimPrefix(file, "vet: ")
		file = strings.TrimPrefix(file, "./")
		dir := filepath.ToSlash(filepath.Dir(file))
		if j := strings.Index(dir, ModulePath+"/"); j >= 0 && filepath.IsAbs(file) {
			dir = dir[j+len(ModulePath)+1:]
		}
		if _, ok := fails[dir]; !ok {
			fails[dir] = line
		}
	}
}

// BuildBinary builds the main package at rel (e.g. "./drv") into Root/bin/<name>.
func (w *Workspace) BuildBinary(rel, name string, extra ...string) (string, string, error) {
	bin := filepath.Join(w.Root, "bin", name)
	args := append([]string{"build", "-trimpath", "-o", bin}, extra...)
	args = append(args, rel)
	out, err := w.Go(args...)
	return bin, out, err
}

// SortedDirs lists immediate subdirectories of Mod/gen.
func (w *Workspace) SortedDirs() []string {
	es, _ := os.ReadDir(filepath.Join(w.Mod, "gen"))
	var ds []string
	for _, e := range es {
		if e.IsDir() {
			ds = append(ds, e.Name())
		}
	}
	sort.Strings(ds)
	return ds
}

// toolchainFailure: the build failed in the toolchain itself (its build cache removed under a running
// build, a standard-library package that cannot be imported, the linker unable to open its inputs),
// not in the code being built. Same test as chk.ToolchainFailure.
func toolchainFailure(out string) bool {
	if strings.Contains(out, "/.cache/go-build/") || strings.Contains(out, "cannot open file") {
		return true
	}
	return strings.Contains(out, "could not import") && strings.Contains(out, "no such file or directory")
}

func firstLines(s string, n int) string {
	l := strings.SplitN(s, "\n", n+1)
	if len(l) > n {
		l = l[:n]
	}
	return strings.Join(l, "\n")
}
