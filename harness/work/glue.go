package work

import (
	"fmt"
	"sort"
	"strings"

	"verifharness/abs"
)

// GoCamelCase is protobuf-go's internal/strs.GoCamelCase (the identifier spelling protoc-gen-go uses).
func GoCamelCase(s string) string {
	var b []byte
	for i := 0; i < len(s); i++ {
		c := s[i]
		switch {
		case c == '.' && i+1 < len(s) && isLower(s[i+1]):
			// skip over '.' in ".{{lowercase}}"
		case c == '.':
			b = append(b, '_')
		case c == '_' && (i == 0 || s[i-1] == '.'):
			b = append(b, 'X')
		case c == '_' && i+1 < len(s) && isLower(s[i+1]):
			// skip over '_' in "_{{lowercase}}"
		case isDigit(c):
			b = append(b, c)
		default:
			if isLower(c) {
				c -= 'a' - 'A'
			}
			b = append(b, c)
			for ; i+1 < len(s) && isLower(s[i+1]); i++ {
				b = append(b, s[i+1])
			}
		}
	}
	return string(b)
}

func isLower(c byte) bool { return 'a' <= c && c <= 'z' }
func isDigit(c byte) bool { return '0' <= c && c <= '9' }

// goIdent returns (import path, Go type name) of a message given by full proto name.
func goIdent(ix *abs.MsgIndex, full string) (string, string, bool) {
	f, ok := ix.MsgFile[full]
	if !ok {
		return "", "", false
	}
	rel := strings.TrimPrefix(full, f.Pkg+".")
	if f.Pkg == "" {
		rel = full
	}
	parts := strings.Split(rel, ".")
	for i := range parts {
		parts[i] = GoCamelCase(parts[i])
	}
	return f.GoImportPath(), strings.Join(parts, "_"), true
}

// GlueOpts selects what glue to emit for a package.
type GlueOpts struct {
	Server bool // go-http output present
	Client bool // go-client output present
	Mock   bool // mock file present
}

// Glue returns the glue source for one Go package (all abstract files sharing importPath), or ""
// when the package has no services. Glue never mentions field names; messages are handled through
// protoreflect by the driver.
func Glue(s *abs.Schema, importPath string, o GlueOpts) string {
	ix := s.Index()
	var files []*abs.File
	for _, f := range s.Files {
		if f.GoImportPath() == importPath && f.Generate {
			files = append(files, f)
		}
	}
	if len(files) == 0 {
		return ""
	}
	pkgName := files[0].GoPackageName()
	var svcs []*abs.Service
	for _, f := range files {
		svcs = append(svcs, f.Services...)
	}
	if len(svcs) == 0 {
		return ""
	}
	imports := map[string]string{} // import path -> alias
	typeOf := func(full string) string {
		ip, name, ok := goIdent(ix, full)
		if !ok {
			// well-known types
			switch full {
			case "google.protobuf.Empty":
				imports["google.golang.org/protobuf/types/known/emptypb"] = "emptypb"
				return "emptypb.Empty"
			case "google.protobuf.Timestamp":
				imports["google.golang.org/protobuf/types/known/timestamppb"] = "timestamppb"
				return "timestamppb.Timestamp"
			}
			return "UNKNOWN_" + strings.ReplaceAll(full, ".", "_")
		}
		if ip == importPath {
			return name
		}
		alias, ok := imports[ip]
		if !ok {
			alias = fmt.Sprintf("dep%d", len(imports))
			imports[ip] = alias
		}
		return alias + "." + name
	}
	var body strings.Builder
	p := func(format string, a ...any) { fmt.Fprintf(&body, format+"\n", a...) }

	if o.Server {
		p("// GlueFn is the single generic callback every RPC is forwarded to.")
		p("type GlueFn func(ctx context.Context, svc, rpc string, req proto.Message) (proto.Message, error)")
		p("")
		for _, sv := range svcs {
			sn := GoCamelCase(sv.Name)
			p("type glue%sServer struct{ fn GlueFn }", sn)
			for _, m := range sv.Methods {
				p("func (g glue%sServer) %s(ctx context.Context, req *%s) (*%s, error) {", sn, GoCamelCase(m.Name), typeOf(m.In), typeOf(m.Out))
				p("\tr, err := g.fn(ctx, %q, %q, req)", sv.Name, m.Name)
				p("\tif r == nil {\n\t\treturn nil, err\n\t}")
				p("\tout, ok := r.(*%s)", typeOf(m.Out))
				p("\tif !ok {\n\t\treturn nil, fmt.Errorf(\"glue: handler returned %%T\", r)\n\t}")
				p("\treturn out, err")
				p("}")
			}
			p("")
		}
		p("// GlueRegister registers every service of the package on mux.")
		p("func GlueRegister(mux *http.ServeMux, fn GlueFn, hook func(http.ResponseWriter, *http.Request, error) proto.Message) error {")
		p("\topts := []ServerOption{WithMux(mux)}")
		p("\tif hook != nil {\n\t\topts = append(opts, WithErrorHandler(ErrorHandler(hook)))\n\t}")
		for _, sv := range svcs {
			sn := GoCamelCase(sv.Name)
			p("\tif err := Register%sServer(glue%sServer{fn}, opts...); err != nil {\n\t\treturn err\n\t}", sn, sn)
		}
		p("\treturn nil")
		p("}")
		p("")
	}
	if o.Client {
		p("// GlueClientOpts / GlueCallOpts carry client configuration through the glue.")
		p("type GlueClientOpts struct {")
		p("\tHTTPClient     *http.Client")
		p("\tContentType    string")
		p("\tDefaultHeaders [][2]string")
		p("\tHelpers        [][2]string // typed service-header helper name, value")
		p("\tShared         string      // non-empty: reuse one client per (service, Shared)")
		p("}")
		p("var glueSharedMu sync.Mutex")
		p("var glueShared = map[string]any{}")
		p("type GlueCallOpts struct {")
		p("\tContentType string")
		p("\tHeaders     [][2]string")
		p("\tHelpers     [][2]string // typed call-header helper name, value")
		p("\tReuse       bool        // reuse one option value per (service, option, argument): a caller may keep an option and pass it to many calls")
		p("}")
		p("var glueOptMu sync.Mutex")
		p("var glueOpts = map[string]any{}")
		p("func glueOpt[T any](reuse bool, key string, mk func() T) T {")
		p("\tif !reuse {\n\t\treturn mk()\n\t}")
		p("\tglueOptMu.Lock()")
		p("\tdefer glueOptMu.Unlock()")
		p("\tif v, ok := glueOpts[key]; ok {\n\t\treturn v.(T)\n\t}")
		p("\tv := mk()")
		p("\tglueOpts[key] = v")
		p("\treturn v")
		p("}")
		p("")
		p("// GlueCall performs one RPC through the generated client.")
		p("func GlueCall(ctx context.Context, baseURL string, co GlueClientOpts, svc, rpc string, req proto.Message, call GlueCallOpts) (proto.Message, error) {")
		p("\tswitch svc {")
		for _, sv := range svcs {
			sn := GoCamelCase(sv.Name)
			p("\tcase %q:", sv.Name)
			p("\t\tvar opts []%sClientOption", sn)
			p("\t\tif co.HTTPClient != nil {\n\t\t\topts = append(opts, With%sHTTPClient(co.HTTPClient))\n\t\t}", sn)
			p("\t\tif co.ContentType != \"\" {\n\t\t\topts = append(opts, With%sContentType(co.ContentType))\n\t\t}", sn)
			p("\t\tfor _, h := range co.DefaultHeaders {\n\t\t\topts = append(opts, With%sDefaultHeader(h[0], h[1]))\n\t\t}", sn)
			// typed helpers: service-level headers give client options and call options; method-level give call options
			helperClient := map[string]string{}
			helperCall := map[string]string{}
			for _, h := range sv.Headers {
				fn := headerFuncName(h.Name)
				helperClient[h.Name] = fmt.Sprintf("With%s%s", sn, fn)
				helperCall[h.Name] = fmt.Sprintf("With%sCall%s", sn, fn)
			}
			for _, m := range sv.Methods {
				for _, h := range m.Headers {
					helperCall[h.Name] = fmt.Sprintf("With%sCall%s", sn, headerFuncName(h.Name))
				}
			}
			if len(helperClient) > 0 {
				p("\t\tfor _, h := range co.Helpers {\n\t\t\tswitch h[0] {")
				for _, hn := range sortedKeys(helperClient) {
					p("\t\t\tcase %q:\n\t\t\t\topts = append(opts, %s(h[1]))", hn, helperClient[hn])
				}
				p("\t\t\t}\n\t\t}")
			}
			p("\t\tvar c %sClient", sn)
			p("\t\tif co.Shared != \"\" {")
			p("\t\t\tglueSharedMu.Lock()")
			p("\t\t\tif v, ok := glueShared[svc+\"|\"+co.Shared]; ok {\n\t\t\t\tc = v.(%sClient)\n\t\t\t} else {\n\t\t\t\tc = New%sClient(baseURL, opts...)\n\t\t\t\tglueShared[svc+\"|\"+co.Shared] = c\n\t\t\t}", sn, sn)
			p("\t\t\tglueSharedMu.Unlock()")
			p("\t\t} else {\n\t\t\tc = New%sClient(baseURL, opts...)\n\t\t}", sn)
			p("\t\tvar copts []%sCallOption", sn)
			p("\t\tif call.ContentType != \"\" {\n\t\t\tcopts = append(copts, glueOpt(call.Reuse, svc+\"|ct|\"+call.ContentType, func() %sCallOption { return With%sCallContentType(call.ContentType) }))\n\t\t}", sn, sn)
			p("\t\tfor _, h := range call.Headers {\n\t\t\tcopts = append(copts, glueOpt(call.Reuse, svc+\"|h|\"+h[0]+\"|\"+h[1], func() %sCallOption { return With%sHeader(h[0], h[1]) }))\n\t\t}", sn, sn)
			if len(helperCall) > 0 {
				p("\t\tfor _, h := range call.Helpers {\n\t\t\tswitch h[0] {")
				for _, hn := range sortedKeys(helperCall) {
					p("\t\t\tcase %q:\n\t\t\t\tcopts = append(copts, glueOpt(call.Reuse, svc+\"|t|\"+h[0]+\"|\"+h[1], func() %sCallOption { return %s(h[1]) }))", hn, sn, helperCall[hn])
				}
				p("\t\t\t}\n\t\t}")
			}
			p("\t\tswitch rpc {")
			for _, m := range sv.Methods {
				p("\t\tcase %q:", m.Name)
				p("\t\t\tin, ok := req.(*%s)", typeOf(m.In))
				p("\t\t\tif !ok {\n\t\t\t\treturn nil, fmt.Errorf(\"glue: request is %%T\", req)\n\t\t\t}")
				p("\t\t\tr, err := c.%s(ctx, in, copts...)", GoCamelCase(m.Name))
				p("\t\t\tif r == nil {\n\t\t\t\treturn nil, err\n\t\t\t}")
				p("\t\t\treturn r, err")
			}
			p("\t\t}")
		}
		p("\t}")
		p("\treturn nil, fmt.Errorf(\"glue: unknown rpc %%s.%%s\", svc, rpc)")
		p("}")
		p("")
	}
	if o.Mock && o.Server {
		p("// GlueRegisterMock registers the generated mock implementations.")
		p("func GlueRegisterMock(mux *http.ServeMux) error {")
		for _, sv := range svcs {
			sn := GoCamelCase(sv.Name)
			p("\tif err := Register%sServer(NewMock%sServer(), WithMux(mux)); err != nil {\n\t\treturn err\n\t}", sn, sn)
		}
		p("\treturn nil")
		p("}")
	}

	var hdr strings.Builder
	fmt.Fprintf(&hdr, "// Harness glue (not emitted by sebuf).\n\npackage %s\n\nimport (\n\t\"context\"\n\t\"fmt\"\n\t\"net/http\"\n\t\"sync\"\n\n\t\"google.golang.org/protobuf/proto\"\n", pkgName)
	ips := make([]string, 0, len(imports))
	for ip := range imports {
		ips = append(ips, ip)
	}
	sort.Strings(ips)
	for _, ip := range ips {
		fmt.Fprintf(&hdr, "\t%s %q\n", imports[ip], ip)
	}
	hdr.WriteString(")\n\nvar _ = fmt.Sprint\nvar _ sync.Mutex\nvar _ context.Context\nvar _ http.Handler\nvar _ proto.Message\n\n")
	return hdr.String() + body.String()
}

func sortedKeys(m map[string]string) []string {
	ks := make([]string, 0, len(m))
	for k := range m {
		ks = append(ks, k)
	}
	sort.Strings(ks)
	return ks
}

// headerFuncName mirrors what a user of the generated client would look up: the generated option
// is named after the header with "X-" stripped and dashes removed (documented in docs/).
func headerFuncName(h string) string {
	n := strings.TrimPrefix(h, "X-")
	return strings.ReplaceAll(n, "-", "")
}
