package work

import (
	"fmt"
	"sort"
	"strings"

	"verifharness/abs"
	"verifharness/plug"
)

// EmitOpts selects plugins and parameters for one schema.
type EmitOpts struct {
	Plugins []string          // subset of plug.Names; protoc-gen-go is always run
	Params  map[string]string // plugin -> parameter string
	NoGlue  bool
	// PerFile: every plugin is invoked once per file to generate (file_to_generate = that file alone, the
	// others are imports only), the way per-file / per-package build rules invoke protoc; the outputs are
	// put together. What a plugin emits for a file must not depend on what else is generated in the run.
	PerFile bool
}

// Emitted is what one schema produced.
type Emitted struct {
	Built   *abs.Built
	Results map[string]*plug.Result // by plugin name, incl. "go"
	Pkgs    []string                // import paths with services (glue written)
}

// Emit runs protoc-gen-go and the selected plugins on the schema and writes all output into the
// workspace. Plugin errors are returned inside Results (they are observations, not harness errors).
func (w *Workspace) Emit(set *plug.Set, s *abs.Schema, o EmitOpts) (*Emitted, error) {
	b, err := abs.Build(s)
	if err != nil {
		return nil, err
	}
	em := &Emitted{Built: b, Results: map[string]*plug.Result{}}
	gores := set.Run("go", b.Request("", nil), plug.RunOpts{})
	em.Results["go"] = gores
	if !gores.OK() {
		return em, fmt.Errorf("protoc-gen-go failed on harness-built descriptors: %s %s", gores.Exit, gores.Error)
	}
	if err := w.Write(gores.Files); err != nil {
		return nil, err
	}
	has := map[string]bool{}
	for _, p := range o.Plugins {
		r := set.Run(p, b.Request(o.Params[p], nil), plug.RunOpts{})
		if gen := generateFiles(s); o.PerFile && len(gen) > 1 {
			r = &plug.Result{Plugin: p, Exit: "files"}
			for _, g := range gen {
				one := set.Run(p, b.Request(o.Params[p], []string{g}), plug.RunOpts{})
				if !one.OK() {
					r = one
					break
				}
				r.Files = append(r.Files, one.Files...)
				r.Ms += one.Ms
			}
		}
		em.Results[p] = r
		if r.OK() {
			has[p] = true
			if p == "go-http" || p == "go-client" {
				if err := w.Write(r.Files); err != nil {
					return nil, err
				}
			}
		}
	}
	if o.NoGlue {
		return em, nil
	}
	seen := map[string]bool{}
	for _, f := range s.Files {
		ip := f.GoImportPath()
		if !f.Generate || seen[ip] || !strings.HasPrefix(ip, ModulePath+"/") {
			continue
		}
		seen[ip] = true
		mock := strings.Contains(o.Params["go-http"], "generate_mock=true")
		src := Glue(s, ip, GlueOpts{Server: has["go-http"], Client: has["go-client"], Mock: mock})
		if src == "" {
			continue
		}
		rel := strings.TrimPrefix(ip, ModulePath+"/")
		if err := w.WriteFile(rel+"/zz_glue.go", src); err != nil {
			return nil, err
		}
		em.Pkgs = append(em.Pkgs, ip)
	}
	return em, nil
}

// PkgSpec describes one emitted package to be linked into a driver.
type PkgSpec struct {
	ImportPath string
	Server     bool
	Client     bool
	Mock       bool
	NoServices bool // link only for its message types
}

// WriteDriver writes ./drv/main.go linking the given packages; key = import path relative to module.
func (w *Workspace) WriteDriver(dir string, pkgs []PkgSpec) error {
	sort.Slice(pkgs, func(i, j int) bool { return pkgs[i].ImportPath < pkgs[j].ImportPath })
	var b strings.Builder
	b.WriteString("// Harness driver main (generated).\npackage main\n\nimport (\n\t\"context\"\n\t\"net/http\"\n\n\t\"google.golang.org/protobuf/proto\"\n\t\"verifharness/drv\"\n")
	for i, p := range pkgs {
		if p.NoServices {
			fmt.Fprintf(&b, "\t_ %q\n", p.ImportPath)
		} else {
			fmt.Fprintf(&b, "\tp%d %q\n", i, p.ImportPath)
		}
	}
	b.WriteString(")\n\nvar _ context.Context\nvar _ http.Handler\nvar _ proto.Message\n\nfunc main() {\n")
	for i, p := range pkgs {
		if p.NoServices {
			continue
		}
		key := strings.TrimPrefix(p.ImportPath, ModulePath+"/")
		fmt.Fprintf(&b, "\tdrv.Register(%q, &drv.Pkg{\n", key)
		if p.Server {
			fmt.Fprintf(&b, "\t\tRegister: func(mux *http.ServeMux, fn drv.Fn, hook drv.Hook) error {\n\t\t\tvar h func(http.ResponseWriter, *http.Request, error) proto.Message\n\t\t\tif hook != nil {\n\t\t\t\th = hook\n\t\t\t}\n\t\t\treturn p%d.GlueRegister(mux, p%d.GlueFn(fn), h)\n\t\t},\n", i, i)
		}
		if p.Client {
			fmt.Fprintf(&b, "\t\tCall: func(ctx context.Context, baseURL string, co drv.ClientOpts, svc, rpc string, req proto.Message, call drv.CallOpts) (proto.Message, error) {\n\t\t\treturn p%d.GlueCall(ctx, baseURL, p%d.GlueClientOpts(co), svc, rpc, req, p%d.GlueCallOpts(call))\n\t\t},\n", i, i, i)
		}
		if p.Mock && p.Server {
			fmt.Fprintf(&b, "\t\tRegisterMock: p%d.GlueRegisterMock,\n", i)
		}
		b.WriteString("\t})\n")
	}
	b.WriteString("\tdrv.Main()\n}\n")
	return w.WriteFile(dir+"/main.go", b.String())
}

func generateFiles(s *abs.Schema) []string {
	var out []string
	for _, f := range s.Files {
		if f.Generate {
			out = append(out, f.Name)
		}
	}
	return out
}
