package main

import (
	"encoding/base64"
	"encoding/json"
	"fmt"
	"net/url"
	"os"
	"path/filepath"
	"sort"
	"strings"

	"google.golang.org/protobuf/encoding/protojson"
	"google.golang.org/protobuf/reflect/protoreflect"
	"google.golang.org/protobuf/types/dynamicpb"

	"verifharness/abs"
	"verifharness/chk"
	"verifharness/drv"
	"verifharness/trace"
	"verifharness/val"
	"verifharness/work"
)

type ioCase struct {
	Pair  string `json:"pair"`
	Verb  string `json:"verb"`
	Route string `json:"route"`
	Kind  string `json:"kind"`
	Cls   string `json:"cls"`
	Hmode string `json:"hmode"`
	Hname string `json:"hname"`
}

// tsHeaderProp mirrors the documented naming of the typed TS header options: "X-" stripped, the
// dash-separated words camel-cased (X-API-Key -> apiKey).
func tsHeaderProp(h string) string {
	parts := strings.Split(strings.TrimPrefix(h, "X-"), "-")
	for i, p := range parts {
		if p == "" {
			continue
		}
		if i == 0 {
			parts[i] = strings.ToLower(p)
		} else {
			parts[i] = strings.ToUpper(p[:1]) + strings.ToLower(p[1:])
		}
	}
	return strings.Join(parts, "")
}

func hlevel(hmode string) string {
	switch hmode {
	case "none":
		return "none"
	case "call_plain", "call_typed_meth":
		return "meth"
	}
	return "svc"
}

// checkC08 : generated TS and Go clients / servers interoperate (three language pairs).
func checkC08(c *chk.Ctx) {
	set := pluginSet(c)
	res := runMC(c, "MC_Interop", "MC_Interop.cfg", nil, true)
	raws := make([]string, 0, len(res.Cases))
	for _, r := range res.Cases {
		raws = append(raws, string(r))
	}
	sort.Strings(raws)
	raws = uniqStrings(raws)
	var cases []ioCase
	for i, r := range raws {
		var cc ioCase
		if err := json.Unmarshal([]byte(r), &cc); err != nil {
			c.Broken("bad exported case: %v", err)
		}
		base := cc.Route == "pq" && cc.Kind == "string" && cc.Cls == "ord"
		if false && (i+int(c.Seed))%3 != 0 && !base { // (no sampling: both tiers run every case)
			continue
		}
		cases = append(cases, cc)
	}
	bodyVerb := func(v string) bool { return v == "POST" || v == "PUT" || v == "PATCH" }
	// ---- shapes
	type shape struct {
		idx    int
		pkg    int
		in     string
		meth   string
		svc    string
		fields []string
		pvars  []string
		query  []map[string]any
		path   string
	}
	shapes := map[string]*shape{}
	var order []*shape
	files := map[int]*abs.File{}
	schema := &abs.Schema{}
	skey := func(cc ioCase) string {
		return cc.Verb + "|" + cc.Route + "|" + cc.Kind + "|" + hlevel(cc.Hmode) + "|" + cc.Hname
	}
	for _, cc := range cases {
		k := skey(cc)
		if _, ok := shapes[k]; ok {
			continue
		}
		sh := &shape{idx: len(order)}
		sh.pkg = sh.idx / 30
		f := files[sh.pkg]
		if f == nil {
			pk := fmt.Sprintf("io%d", sh.pkg)
			f = &abs.File{Name: pk + "/svc.proto", Pkg: pk + ".v1", GoPkg: "scratch/gen/" + pk + ";" + pk, Generate: true}
			f.Messages = append(f.Messages, &abs.Message{Name: "Out", Fields: []*abs.Field{{Name: "id", Num: 1, Kind: "string", Card: "one", Rules: abs.NoRules()},
				{Name: "n", Num: 2, Kind: "int64", Card: "one", Rules: abs.NoRules()}}})
			files[sh.pkg] = f
			schema.Files = append(schema.Files, f)
		}
		pk := f.Pkg
		// service names repeat from package to package (S0 .. S29 in each): a versioned API has the same
		// service name in several proto packages, with other base paths and headers
		sh.svc, sh.meth, sh.in = fmt.Sprintf("S%d", sh.idx%30), fmt.Sprintf("M%d", sh.idx), fmt.Sprintf("%s.Req%d", pk, sh.idx)
		msg := &abs.Message{Name: fmt.Sprintf("Req%d", sh.idx)}
		fld := func(name string, num int, kind string, ann abs.Ann) {
			msg.Fields = append(msg.Fields, &abs.Field{Name: name, Num: int32(num), Kind: kind, Card: "one", Rules: abs.NoRules(), Ann: ann})
			sh.fields = append(sh.fields, name)
		}
		switch cc.Route {
		case "pq":
			fld("p", 1, cc.Kind, abs.Ann{})
			fld("q", 2, cc.Kind, abs.Ann{Query: true, QueryName: "query-q"})
			fld("rq", 3, cc.Kind, abs.Ann{Query: true, QueryReq: true})
			// rep: a repeated parameter of the case's kind (three elements: element position must not matter)
			msg.Fields = append(msg.Fields, &abs.Field{Name: "rep", Num: 5, Kind: cc.Kind, Card: "rep", Rules: abs.NoRules(), Ann: abs.Ann{Query: true}},
				&abs.Field{Name: "oq", Num: 6, Kind: "int32", Card: "opt", Rules: abs.NoRules(), Ann: abs.Ann{Query: true}},
				&abs.Field{Name: "rrep", Num: 7, Kind: "string", Card: "rep", Rules: abs.NoRules(), Ann: abs.Ann{Query: true, QueryName: "r_rep", QueryReq: true}},
				&abs.Field{Name: "ropt", Num: 8, Kind: "int32", Card: "opt", Rules: abs.NoRules(), Ann: abs.Ann{Query: true, QueryReq: true}})
			sh.fields = append(sh.fields, "rep", "oq", "rrep", "ropt")
			sh.pvars = []string{"p"}
			sh.query = []map[string]any{{"field": "q", "name": "query-q", "required": false}, {"field": "rq", "name": "rq", "required": true},
				{"field": "rep", "name": "rep", "required": false}, {"field": "oq", "name": "oq", "required": false},
				{"field": "rrep", "name": "r_rep", "required": true}, {"field": "ropt", "name": "ropt", "required": true}}
			sh.path = fmt.Sprintf("/s%d/{p}", sh.idx)
		case "p":
			fld("p", 1, cc.Kind, abs.Ann{})
			sh.pvars = []string{"p"}
			sh.path = fmt.Sprintf("/s%d/{p}", sh.idx)
		case "deep":
			fld("p", 1, cc.Kind, abs.Ann{})
			// (the second variable's name has an underscore before a digit: its JSON name, p2, is not its proto name)
			fld("p_2", 2, "string", abs.Ann{})
			sh.pvars = []string{"p", "p_2"}
			sh.path = fmt.Sprintf("/s%d/{p}/x/{p_2}", sh.idx)
		}
		if sh.query == nil {
			sh.query = []map[string]any{}
		}
		if sh.pvars == nil {
			sh.pvars = []string{}
		}
		if bodyVerb(cc.Verb) {
			fld("b", 4, "string", abs.Ann{})
		}
		f.Messages = append(f.Messages, msg)
		me := &abs.Method{Name: sh.meth, In: sh.in, Out: pk + ".Out"}
		sv := &abs.Service{Name: sh.svc, Methods: []*abs.Method{me}}
		if cc.Route != "default" {
			me.HasCfg, me.Path, me.Verb = true, sh.path, cc.Verb
			// every service has a base path of its own
			sv.HasBase, sv.BasePath = true, fmt.Sprintf("/b%d", sh.idx)
			sh.path = sv.BasePath + sh.path
		}
		hd := &abs.Header{Name: cc.Hname, Type: "string", Required: true}
		switch hlevel(cc.Hmode) {
		case "svc":
			sv.Headers = []*abs.Header{hd}
		case "meth":
			me.Headers = []*abs.Header{hd}
		}
		f.Services = append(f.Services, sv)
		shapes[k] = sh
		order = append(order, sh)
	}
	w, err := work.New()
	if err != nil {
		c.Broken("%v", err)
	}
	defer w.Close()
	em, err := w.Emit(set, schema, work.EmitOpts{Plugins: []string{"go-http", "go-client", "ts-client", "ts-server"}})
	if err != nil {
		c.Broken("%v", err)
	}
	for _, p := range []string{"go-http", "go-client", "ts-client", "ts-server"} {
		if r := em.Results[p]; !r.OK() {
			rp := c.WriteReplay(map[string]any{"property": c.ID, "stage": "generate", "plugin": p, "error": r.Error})
			c.Violation(rp, p+" refused the family schema: "+firstN(r.Error, 300))
			c.Done()
		}
	}
	tsC, tsS := map[int]string{}, map[int]string{}
	for _, side := range []string{"ts-client", "ts-server"} {
		for _, f := range em.Results[side].Files {
			p := filepath.Join(w.Root, "ts", side, f.Name)
			_ = os.MkdirAll(filepath.Dir(p), 0o755)
			_ = os.WriteFile(p, []byte(f.Content), 0o644)
			var n int
			if os.Getenv("VERIF_DEBUG") != "" {
				fmt.Fprintln(os.Stderr, "ts file", side, f.Name)
			}
			if _, err := fmt.Sscanf(filepath.Base(filepath.Dir(f.Name)), "io%d", &n); err == nil {
				if side == "ts-client" {
					tsC[n] = p
				} else {
					tsS[n] = p
				}
			}
		}
	}
	var specs []work.PkgSpec
	for _, ip := range em.Pkgs {
		specs = append(specs, work.PkgSpec{ImportPath: ip, Server: true, Client: true})
	}
	if err := w.WriteDriver("drv", specs); err != nil {
		c.Broken("%v", err)
	}
	bin, bout, err := w.BuildBinary("./drv", "drv")
	if err != nil {
		rp := c.WriteReplay(map[string]any{"property": c.ID, "stage": "build", "error": firstN(bout, 3000)})
		c.Violation(rp, "the emitted Go client + server of the family do not build: "+firstN(bout, 300))
		c.Done()
	}
	files2 := em.Built.Files
	svcsOf := map[int][]string{}
	for _, sh := range order {
		svcsOf[sh.pkg] = append(svcsOf[sh.pkg], sh.svc)
	}
	// ---- prepared calls
	type prepared struct {
		id     int
		cc     ioCase
		sh     *shape
		req    *dynamicpb.Message
		reqJS  json.RawMessage
		outJS  json.RawMessage
		outTok string
		outB64 string
		hv     string
		note   string
		goCO   drv.ClientOpts
		goCall drv.CallOpts
		tsCO   map[string]any
		tsCall map[string]any
	}
	var preps []*prepared
	skipped := 0
	for _, cc := range cases {
		sh := shapes[skey(cc)]
		m, err := val.New(files2, sh.in)
		if err != nil {
			c.Broken("%v", err)
		}
		fds := m.Descriptor().Fields()
		ok := true
		set1 := func(name, kind, cls string) {
			fd := fds.ByName(protoreflect.Name(name))
			if fd == nil {
				return
			}
			txt, exists := classText(kind, cls)
			if !exists || (name == "p" && txt == "") {
				ok = false
				return
			}
			v, err := wireParseScalar(fd, txt)
			if err != nil {
				ok = false
				return
			}
			m.Set(fd, v)
		}
		set1("p", cc.Kind, cc.Cls)
		set1("q", cc.Kind, cc.Cls)
		set1("rq", cc.Kind, cc.Cls)
		if fd := fds.ByName("rep"); fd != nil && cc.Cls != "zero" {
			l := m.Mutable(fd).List()
			texts := []string{}
			for _, cl := range []string{"ord", cc.Cls, "max", "ord"} {
				if t, exists := classText(cc.Kind, cl); exists {
					texts = append(texts, t)
				}
			}
			if cc.Kind == "string" {
				texts = append(texts, "r 2,x")
			}
			for _, t := range texts {
				if v, err := wireParseScalar(fd, t); err == nil {
					l.Append(v)
				}
			}
		}
		if fd := fds.ByName("oq"); fd != nil && cc.Cls != "zero" {
			m.Set(fd, protoreflect.ValueOfInt32(map[bool]int32{false: 7, true: 0}[cc.Cls == "max"])) // max: explicitly set to 0 (presence counts)
		}
		if fd := fds.ByName("rrep"); fd != nil {
			l := m.Mutable(fd).List()
			l.Append(protoreflect.ValueOfString("red"))
			l.Append(protoreflect.ValueOfString("a&b=c d"))
			m.Set(fds.ByName("ropt"), protoreflect.ValueOfInt32(map[bool]int32{false: 12, true: 0}[cc.Cls == "zero"]))
		}
		if fd := fds.ByName("p_2"); fd != nil {
			m.Set(fd, protoreflect.ValueOfString("second seg"))
		}
		if fd := fds.ByName("b"); fd != nil {
			m.Set(fd, protoreflect.ValueOfString("body text"))
		}
		if !ok {
			skipped++
			continue
		}
		p := &prepared{id: len(preps) + 1, cc: cc, sh: sh, req: m}
		js, err := protojson.MarshalOptions{EmitUnpopulated: true}.Marshal(m)
		if err != nil {
			c.Broken("%v", err)
		}
		p.reqJS = js
		out, _ := val.New(files2, fmt.Sprintf("io%d.v1.Out", sh.pkg))
		out.Set(out.Descriptor().Fields().ByName("id"), protoreflect.ValueOfString(fmt.Sprintf("resp-%d", p.id)))
		out.Set(out.Descriptor().Fields().ByName("n"), protoreflect.ValueOfInt64(int64(p.id)))
		p.outTok = val.Message(out)
		p.outB64 = base64.StdEncoding.EncodeToString(val.Det(out))
		p.outJS, _ = protojson.MarshalOptions{EmitUnpopulated: true}.Marshal(out)
		p.hv = fmt.Sprintf("tok-%d", p.id)
		p.tsCO, p.tsCall = map[string]any{}, map[string]any{}
		hn, prop := cc.Hname, tsHeaderProp(cc.Hname)
		switch cc.Hmode {
		case "client_default":
			p.goCO.DefaultHeaders = [][2]string{{hn, p.hv}}
			p.tsCO["defaultHeaders"] = map[string]string{hn: p.hv}
		case "client_typed":
			p.goCO.Helpers = [][2]string{{hn, p.hv}}
			p.tsCO[prop] = p.hv
		case "call_plain":
			p.goCall.Headers = [][2]string{{hn, p.hv}}
			p.tsCall["headers"] = map[string]string{hn: p.hv}
		case "call_typed_svc", "call_typed_meth":
			p.goCall.Helpers = [][2]string{{hn, p.hv}}
			p.tsCall[prop] = p.hv
		case "override":
			p.goCO.DefaultHeaders = [][2]string{{hn, "stale-" + p.hv}}
			p.tsCO["defaultHeaders"] = map[string]string{hn: "stale-" + p.hv}
			p.goCall.Helpers = [][2]string{{hn, p.hv}}
			p.tsCall[prop] = p.hv
		}
		p.note = fmt.Sprintf("%s %s route=%s kind=%s cls=%s hmode=%s hname=%s", cc.Pair, cc.Verb, cc.Route, cc.Kind, cc.Cls, cc.Hmode, cc.Hname)
		preps = append(preps, p)
	}
	c.Infof("%d calls over %d RPC shapes in %d packages (%d class/kind combinations do not exist and were skipped)", len(preps), len(order), len(files), skipped)

	// ---- phases
	tsEvents := map[string][]map[string]any{} // "id/call"
	addTS := func(evs []map[string]any) {
		for _, e := range evs {
			k := fmt.Sprintf("%v/%v", e["case"], e["call"])
			tsEvents[k] = append(tsEvents[k], e)
		}
	}
	find := func(evs []map[string]any, name string) map[string]any {
		for _, e := range evs {
			if e["event"] == name {
				return e
			}
		}
		return nil
	}
	findD := func(evs []drv.Event, name string) drv.Event {
		for _, e := range evs {
			if e["event"] == name {
				return e
			}
		}
		return nil
	}
	tsCallOp := func(p *prepared, call int, canned map[string]any) map[string]any {
		op := map[string]any{"op": "tscall", "case": p.id, "call": call, "module": tsC[p.sh.pkg], "service": p.sh.svc, "rpc": p.sh.meth,
			"req": p.reqJS, "clientOpts": p.tsCO, "callOpts": p.tsCall, "sibling": true}
		if canned != nil {
			op["canned"] = canned
		}
		return op
	}
	goCallOp := func(p *prepared, call int, canned *drv.Canned) drv.Op {
		return drv.Op{Op: "call", Case: p.id, Call: call, Pkg: fmt.Sprintf("gen/io%d", p.sh.pkg), Svc: p.sh.svc, Rpc: p.sh.meth, ReqType: p.sh.in,
			ReqB64: base64.StdEncoding.EncodeToString(val.Det(p.req)), ClientOpts: p.goCO, CallOpts: p.goCall, Canned: canned}
	}
	// node #1: ts_go phase 1, ts_ts complete
	var n1 []map[string]any
	for _, p := range preps {
		switch p.cc.Pair {
		case "ts_go":
			n1 = append(n1, tsCallOp(p, 1, nil))
		case "ts_ts":
			op := tsCallOp(p, 1, nil)
			op["op"], op["serverModule"], op["services"] = "tspair", tsS[p.sh.pkg], svcsOf[p.sh.pkg]
			op["handler"] = map[string]any{"kind": "ok", "value": p.outJS}
			n1 = append(n1, op)
		}
	}
	addTS(runTS(c, w.Root, n1))
	// go #1: go_ts phase 1 (canned dummy), ts_go phase 2 (the TS client's request served by the Go server)
	var g1 []drv.Op
	dummy := &drv.Canned{Status: 200, Headers: [][2]string{{"Content-Type", "application/json"}}, BodyB64: base64.StdEncoding.EncodeToString([]byte("{}"))}
	for _, p := range preps {
		switch p.cc.Pair {
		case "go_ts":
			g1 = append(g1, goCallOp(p, 1, dummy))
		case "ts_go":
			s := find(tsEvents[fmt.Sprintf("%d/1", p.id)], "Sent")
			if s == nil {
				continue
			}
			u := fmt.Sprint(s["path"])
			if q := fmt.Sprint(s["rawQuery"]); q != "" {
				u += "?" + q
			}
			op := drv.Op{Op: "raw", Case: p.id, Call: 2, Pkg: fmt.Sprintf("gen/io%d", p.sh.pkg), Verb: fmt.Sprint(s["verb"]), URL: u,
				BodyB64: fmt.Sprint(s["bodyB64"]), NoBody: s["hasBody"] != true,
				Handler: drv.HandlerCfg{Kind: "ok", RespType: fmt.Sprintf("io%d.v1.Out", p.sh.pkg), RespB64: p.outB64}}
			if hs, ok := s["headers"].([]any); ok {
				for _, h := range hs {
					if pr, ok := h.([]any); ok && len(pr) == 2 {
						op.Headers = append(op.Headers, [2]string{fmt.Sprint(pr[0]), fmt.Sprint(pr[1])})
					}
				}
			}
			g1 = append(g1, op)
		}
	}
	gev1 := runDrv(c, bin, w.Root, g1)
	// node #2: go_ts phase 2 (the Go client's request served by the TS server), ts_go phase 3
	var n2 []map[string]any
	for _, p := range preps {
		switch p.cc.Pair {
		case "go_ts":
			s := findD(gev1[fmt.Sprintf("%d/1", p.id)], "Sent")
			if s == nil {
				continue
			}
			u := fmt.Sprint(s["path"])
			if q := fmt.Sprint(s["rawQuery"]); q != "" {
				u += "?" + q
			}
			n2 = append(n2, map[string]any{"op": "tsserve", "case": p.id, "call": 2, "module": tsS[p.sh.pkg], "service": p.sh.svc, "services": svcsOf[p.sh.pkg],
				"verb": s["verb"], "url": u, "headers": s["headers"], "bodyB64": s["bodyB64"], "noBody": s["hasBody"] != true,
				"handler": map[string]any{"kind": "ok", "value": p.outJS}})
		case "ts_go":
			r := findD(gev1[fmt.Sprintf("%d/2", p.id)], "Resp")
			if r == nil {
				continue
			}
			n2 = append(n2, tsCallOp(p, 3, map[string]any{"status": r["status"], "headers": r["headers"], "bodyB64": r["bodyB64"]}))
		}
	}
	addTS(runTS(c, w.Root, n2))
	// go #2: go_ts phase 3
	var g2 []drv.Op
	for _, p := range preps {
		if p.cc.Pair != "go_ts" {
			continue
		}
		r := find(tsEvents[fmt.Sprintf("%d/2", p.id)], "Resp")
		if r == nil {
			continue
		}
		cn := &drv.Canned{Status: int(r["status"].(float64)), BodyB64: fmt.Sprint(r["bodyB64"])}
		if hs, ok := r["headers"].([]any); ok {
			for _, h := range hs {
				if pr, ok := h.([]any); ok && len(pr) == 2 {
					cn.Headers = append(cn.Headers, [2]string{fmt.Sprint(pr[0]), fmt.Sprint(pr[1])})
				}
			}
		}
		g2 = append(g2, goCallOp(p, 3, cn))
	}
	gev2 := runDrv(c, bin, w.Root, g2)

	// ---- events -> trace
	var segs []*trace.Segment
	evals := 0
	for i, p := range preps {
		md := p.req.Descriptor()
		toks := func(m protoreflect.Message, names []string) []map[string]string {
			out := []map[string]string{}
			for _, n := range names {
				if fd := m.Descriptor().Fields().ByName(protoreflect.Name(n)); fd != nil {
					out = append(out, map[string]string{"k": n, "v": val.Field(m, fd)})
				}
			}
			return out
		}
		tokOf := func(name, text string) string {
			fd := md.Fields().ByName(protoreflect.Name(name))
			v, err := wireParseScalar(fd, text)
			if err != nil {
				return "?unconvertible:" + text
			}
			tmp := dynamicpb.NewMessage(md)
			tmp.Set(fd, v)
			return val.Field(tmp, fd)
		}
		hdrs := []map[string]string{}
		if p.cc.Hmode != "none" {
			hdrs = append(hdrs, map[string]string{"k": strings.ToLower(p.cc.Hname), "v": p.hv})
		}
		zero := dynamicpb.NewMessage(md)
		rpc := map[string]any{"name": p.sh.meth, "verb": p.cc.Verb, "fields": p.sh.fields, "pathVars": p.sh.pvars, "query": p.sh.query}
		seg := &trace.Segment{ID: i, Meta: p}
		seg.Lines = append(seg.Lines, jsonLine(map[string]any{"event": "Call", "case": p.id, "note": p.note,
			"call": map[string]any{"rpc": rpc, "value": toks(p.req, p.sh.fields), "zero": toks(zero, p.sh.fields), "ctype": "json", "resp": p.outTok,
				"handler": "ok", "hdrs": hdrs}}))
		// sentLine: from a Sent event of either driver
		sentLine := func(e map[string]any) string {
			path, _ := e["path"].(string)
			parts := strings.Split(strings.TrimPrefix(path, "/"), "/")
			tparts := strings.Split(strings.TrimPrefix(p.sh.path, "/"), "/")
			litsOK := len(parts) == len(tparts)
			pathVals := []map[string]string{}
			if p.cc.Route == "default" {
				litsOK = path == fmt.Sprintf("/io%d/m%d", p.sh.pkg, p.sh.idx)
			} else if litsOK {
				for j, tp := range tparts {
					if strings.HasPrefix(tp, "{") {
						name := strings.Trim(tp, "{}")
						if dec, err := url.PathUnescape(parts[j]); err == nil {
							pathVals = append(pathVals, map[string]string{"k": name, "v": tokOf(name, dec)})
						}
					} else if tp != parts[j] {
						litsOK = false
					}
				}
			}
			queryVals := []map[string]string{}
			q, _ := url.ParseQuery(fmt.Sprint(e["rawQuery"]))
			for _, qd := range p.sh.query {
				// looked up in the URL under the declared parameter name, reported under the field
				n := fmt.Sprint(qd["field"])
				vs, ok := q[fmt.Sprint(qd["name"])]
				if !ok || len(vs) == 0 {
					continue
				}
				if fd := md.Fields().ByName(protoreflect.Name(n)); fd != nil && fd.IsList() {
					tmp := dynamicpb.NewMessage(md)
					for _, one := range vs {
						if v, err := wireParseScalar(fd, one); err == nil {
							tmp.Mutable(fd).List().Append(v)
						}
					}
					queryVals = append(queryVals, map[string]string{"k": n, "v": val.Field(tmp, fd)})
					continue
				}
				queryVals = append(queryVals, map[string]string{"k": n, "v": tokOf(n, vs[0])})
			}
			ct := "other"
			hdrVals := []map[string]string{}
			if hs, ok := e["headers"].([]any); ok {
				for _, h := range hs {
					pr, ok := h.([]any)
					if !ok || len(pr) != 2 {
						continue
					}
					name, v := strings.ToLower(fmt.Sprint(pr[0])), fmt.Sprint(pr[1])
					if name == "content-type" {
						switch {
						case strings.HasPrefix(v, "application/json"):
							ct = "json"
						case strings.HasPrefix(v, "application/x-protobuf"):
							ct = "proto"
						}
						continue
					}
					hdrVals = append(hdrVals, map[string]string{"k": name, "v": v})
				}
			}
			body := unb64s(e["bodyB64"])
			bm := dynamicpb.NewMessage(md)
			decodes := false
			if e["hasBody"] == true {
				decodes = protojson.Unmarshal(body, bm) == nil
			}
			if !bodyVerb(p.cc.Verb) {
				ct = "json" // no body: the content type of the request is immaterial
			}
			return jsonLine(map[string]any{"event": "Sent", "verb": e["verb"], "litsOK": litsOK, "pathVals": pathVals, "queryVals": queryVals, "hdrVals": hdrVals,
				"hasBody": e["hasBody"] == true && len(body) > 0, "bodyDecodes": decodes, "bodyVals": toks(bm, p.sh.fields), "ctype": ct,
				"raw": firstN(path+"?"+fmt.Sprint(e["rawQuery"]), 200)})
		}
		sawTS := func(e map[string]any) string {
			// The TS server hands path variables over as the raw (decoded) path segment; whether that
			// representation inhabits the declared type is C07's question. Here the segment is read with
			// the field's type, as the Go server does, and compared as a value.
			argObj, _ := e["arg"].(map[string]any)
			rawPath := map[string]string{}
			if argObj != nil {
				cp := map[string]any{}
				for k, v := range argObj {
					cp[k] = v
				}
				for _, pv := range p.sh.pvars {
					key := pv // the handler's argument is keyed by JSON names
					if fd := md.Fields().ByName(protoreflect.Name(pv)); fd != nil {
						key = fd.JSONName()
					}
					if sv, ok := cp[key].(string); ok {
						rawPath[pv] = sv
						delete(cp, key)
					}
				}
				argObj = cp
			}
			arg, _ := json.Marshal(argObj)
			m := dynamicpb.NewMessage(md)
			vals := []map[string]string{}
			note := ""
			if err := protojson.Unmarshal(arg, m); err == nil && e["arg"] != nil {
				for pv, sv := range rawPath {
					fd := md.Fields().ByName(protoreflect.Name(pv))
					if v, err := wireParseScalar(fd, sv); err == nil {
						m.Set(fd, v)
					} else {
						note = "path variable " + pv + " is not a value of its type: " + sv
					}
				}
				vals = toks(m, p.sh.fields)
			} else {
				note = "handler argument is not a value of the request type: " + firstN(fmt.Sprint(err), 120)
			}
			rpc := fmt.Sprint(e["rpc"])
			if strings.EqualFold(rpc, p.sh.meth) {
				rpc = p.sh.meth // the TS handler method is the lowerCamel spelling of the RPC name
			}
			full, _ := json.Marshal(e["arg"])
			return jsonLine(map[string]any{"event": "Saw", "rpc": rpc, "vals": vals, "note": note, "arg": firstN(string(full), 300)})
		}
		sawGo := func(e drv.Event) string {
			m, err := val.Decode(files2, p.sh.in, unb64s(e["valB64"]))
			vals := []map[string]string{}
			if err == nil && e["type"] == p.sh.in {
				vals = toks(m, p.sh.fields)
			}
			return jsonLine(map[string]any{"event": "Saw", "rpc": e["rpc"], "vals": vals})
		}
		retTS := func(e map[string]any) string {
			rv := ""
			if e["kind"] == "ok" {
				b, _ := json.Marshal(e["value"])
				out, _ := val.New(files2, fmt.Sprintf("io%d.v1.Out", p.sh.pkg))
				if protojson.Unmarshal(b, out) == nil {
					rv = val.Message(out)
				}
			}
			return jsonLine(map[string]any{"event": "Ret", "kind": e["kind"], "val": rv, "message": fmt.Sprint(e["message"]), "text": firstN(fmt.Sprint(e["text"])+fmt.Sprint(e["body"]), 200)})
		}
		retGo := func(e drv.Event) string {
			rv := ""
			if e["kind"] == "ok" {
				if m, err := val.Decode(files2, fmt.Sprint(e["type"]), unb64s(e["valB64"])); err == nil {
					rv = val.Message(m)
				}
			}
			msg, _ := e["message"].(string)
			return jsonLine(map[string]any{"event": "Ret", "kind": e["kind"], "val": rv, "message": msg, "text": firstN(fmt.Sprint(e["text"]), 200)})
		}
		asMap := func(e drv.Event) map[string]any { return map[string]any(e) }
		loadErr := ""
		for _, k := range []string{"1", "2", "3"} {
			if e := find(tsEvents[fmt.Sprintf("%d/%s", p.id, k)], "TsLoadError"); e != nil {
				loadErr = fmt.Sprint(e["detail"])
			}
			for _, e := range tsEvents[fmt.Sprintf("%d/%s", p.id, k)] {
				if e["event"] == "DriverError" {
					c.Broken("ts driver: %v", e["detail"])
				}
			}
		}
		seg.Lines = append(seg.Lines, jsonLine(map[string]any{"event": "Load", "ok": loadErr == "", "detail": firstN(loadErr, 300)}))
		switch p.cc.Pair {
		case "ts_ts":
			for _, e := range tsEvents[fmt.Sprintf("%d/1", p.id)] {
				switch e["event"] {
				case "Sent":
					seg.Lines = append(seg.Lines, sentLine(e))
				case "TsHandlerSaw":
					seg.Lines = append(seg.Lines, sawTS(e))
				case "ClientRet":
					seg.Lines = append(seg.Lines, retTS(e))
				}
			}
		case "ts_go":
			if e := find(tsEvents[fmt.Sprintf("%d/1", p.id)], "Sent"); e != nil {
				seg.Lines = append(seg.Lines, sentLine(e))
			}
			if e := findD(gev1[fmt.Sprintf("%d/2", p.id)], "HandlerSaw"); e != nil {
				seg.Lines = append(seg.Lines, sawGo(e))
			}
			if e := find(tsEvents[fmt.Sprintf("%d/3", p.id)], "ClientRet"); e != nil {
				seg.Lines = append(seg.Lines, retTS(e))
			} else if e := find(tsEvents[fmt.Sprintf("%d/1", p.id)], "ClientRet"); e != nil && findD(gev1[fmt.Sprintf("%d/2", p.id)], "Resp") == nil {
				seg.Lines = append(seg.Lines, retTS(e))
			}
		case "go_ts":
			if e := findD(gev1[fmt.Sprintf("%d/1", p.id)], "Sent"); e != nil {
				seg.Lines = append(seg.Lines, sentLine(asMap(e)))
			}
			if e := find(tsEvents[fmt.Sprintf("%d/2", p.id)], "TsHandlerSaw"); e != nil {
				seg.Lines = append(seg.Lines, sawTS(e))
			}
			if e := findD(gev2[fmt.Sprintf("%d/3", p.id)], "ClientRet"); e != nil {
				seg.Lines = append(seg.Lines, retGo(e))
			}
		}
		// a call that never returned to its caller is an incomplete behaviour: close it with the failure
		if !strings.Contains(seg.Lines[len(seg.Lines)-1], `"event":"Ret"`) {
			seg.Lines = append(seg.Lines, jsonLine(map[string]any{"event": "Ret", "kind": "lost", "val": "", "message": "", "text": "no result reached the caller"}))
		}
		evals += len(seg.Lines) - 1
		segs = append(segs, seg)
	}
	for i, p := range preps {
		if i%97 == 0 {
			c.AddSample(map[string]any{"case": p.cc, "note": p.note})
		}
	}
	c.Set("rule", "one evaluation = one Load / Sent / Saw / Ret event of a call through a real emitted client and a real emitted server of the pair, validated by TLC against SebufCall")
	judgeSegmentsN(c, "Trace_Call", "Trace_Call.cfg", segs, evals, 40)
	c.Done()
}
