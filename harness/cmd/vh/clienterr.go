package main

import (
	"encoding/base64"
	"encoding/json"
	"fmt"
	"math/rand"
	"os"
	"path/filepath"
	"regexp"
	"sort"
	"strconv"
	"strings"
	"unicode/utf8"

	"google.golang.org/protobuf/encoding/protojson"
	"google.golang.org/protobuf/proto"
	"google.golang.org/protobuf/reflect/protoreflect"

	sebufhttp "github.com/SebastienMelki/sebuf/http"

	"verifharness/abs"
	"verifharness/chk"
	"verifharness/drv"
	"verifharness/val"
	"verifharness/wire"
	"verifharness/work"
)

type ceCase struct {
	Status int    `json:"status"`
	Body   string `json:"body"`
	Ctype  string `json:"ctype"`
	Lang   string `json:"lang"`
}

type ceResp struct {
	status  int
	headers [][2]string
	body    []byte
	label   string
	judge   bool // the mapping clause of C10 applies (conventional content type, well-formed body class)
	lang    string
	class   string // json | proto
	rpc     string // Do (POST, response with fields) | Ack (POST, response without fields) | Get (GET with a path variable)
}

var goRawErrRe = regexp.MustCompile(`(?s)^request failed with status (\d+): (.*)$`)

// abstractResp: what the response is, decided with the protobuf runtime.
func abstractResp(r *ceResp) map[string]any {
	dec := func(m proto.Message) bool {
		if len(r.body) == 0 {
			return false
		}
		if r.class == "proto" {
			return proto.Unmarshal(r.body, m) == nil
		}
		return protojson.Unmarshal(r.body, m) == nil
	}
	viol := [][]string{}
	ve := &sebufhttp.ValidationError{}
	veOK := dec(ve)
	if veOK {
		for _, v := range ve.GetViolations() {
			viol = append(viol, []string{v.GetField(), v.GetDescription()})
		}
	}
	er := &sebufhttp.Error{}
	erOK := dec(er) && er.GetMessage() != ""
	raw := ""
	if utf8.Valid(r.body) && r.class != "proto" {
		raw = string(r.body)
	}
	return map[string]any{"status": r.status, "ve": map[string]any{"ok": veOK, "viol": viol}, "err": map[string]any{"ok": erOK, "msg": er.GetMessage()}, "raw": raw}
}

// clientSideCheck: the client halves of C10 (failures are carried to the caller) and C11 (the
// clients always return a value). enforce = `{"C10"}` or `{"C11"}`; realResponses are responses of
// the real emitted server recorded by the server-side part of the same check.
func clientSideCheck(c *chk.Ctx, enforce string, realResponses []*ceResp) {
	set := pluginSet(c)
	res := runMC(c, "MC_ClientErr", "MC_ClientErr.cfg", nil, true)
	raws := make([]string, 0, len(res.Cases))
	for _, r := range res.Cases {
		raws = append(raws, string(r))
	}
	sort.Strings(raws)
	raws = uniqStrings(raws)
	// ---- schema: one service, one RPC, a custom error message
	f := &abs.File{Name: "ce/svc.proto", Pkg: "ce.v1", GoPkg: "scratch/gen/ce;ce", Generate: true}
	f.Messages = []*abs.Message{
		{Name: "In", Fields: []*abs.Field{{Name: "id", Num: 1, Kind: "string", Card: "one", Rules: abs.NoRules()}}},
		{Name: "Out", Fields: []*abs.Field{{Name: "id", Num: 1, Kind: "string", Card: "one", Rules: abs.NoRules()}, {Name: "n", Num: 2, Kind: "int64", Card: "one", Rules: abs.NoRules()}}},
		{Name: "NotFoundError", Fields: []*abs.Field{{Name: "code", Num: 1, Kind: "string", Card: "one", Rules: abs.NoRules()}, {Name: "num", Num: 2, Kind: "int32", Card: "one", Rules: abs.NoRules()}}},
	}
	f.Messages = append(f.Messages, &abs.Message{Name: "Ack"})
	// the same responses reach RPCs of other shapes: a response message without fields, a GET with a path variable
	f.Services = []*abs.Service{{Name: "Svc", HasBase: true, BasePath: "/api", Methods: []*abs.Method{
		{Name: "Do", In: "ce.v1.In", Out: "ce.v1.Out", HasCfg: true, Path: "/do", Verb: "POST"},
		{Name: "Ack", In: "ce.v1.In", Out: "ce.v1.Ack", HasCfg: true, Path: "/ack", Verb: "POST"},
		{Name: "Get", In: "ce.v1.In", Out: "ce.v1.Out", HasCfg: true, Path: "/get/{id}", Verb: "GET"}}}}
	schema := &abs.Schema{Files: []*abs.File{f}}
	w, err := work.New()
	if err != nil {
		c.Broken("%v", err)
	}
	defer w.Close()
	em, err := w.Emit(set, schema, work.EmitOpts{Plugins: []string{"go-client", "ts-client"}})
	if err != nil {
		c.Broken("%v", err)
	}
	for _, p := range []string{"go-client", "ts-client"} {
		if r := em.Results[p]; !r.OK() {
			rp := c.WriteReplay(map[string]any{"property": c.ID, "stage": "generate", "plugin": p, "error": r.Error})
			c.Violation(rp, p+" refused the schema: "+firstN(r.Error, 300))
			return
		}
	}
	var tsCli string
	for _, tf := range em.Results["ts-client"].Files {
		p := filepath.Join(w.Root, "ts", tf.Name)
		_ = os.MkdirAll(filepath.Dir(p), 0o755)
		_ = os.WriteFile(p, []byte(tf.Content), 0o644)
		tsCli = p
	}
	if err := w.WriteDriver("drv", []work.PkgSpec{{ImportPath: "scratch/gen/ce", Client: true}}); err != nil {
		c.Broken("%v", err)
	}
	bin, bout, err := w.BuildBinary("./drv", "drv")
	if err != nil {
		rp := c.WriteReplay(map[string]any{"property": c.ID, "stage": "build", "error": firstN(bout, 3000)})
		c.Violation(rp, "the emitted Go client does not build: "+firstN(bout, 300))
		return
	}
	// ---- concretise the classes
	rnd := rand.New(rand.NewSource(c.Seed*31 + 5))
	enc := func(m proto.Message, class string) []byte {
		if class == "proto" {
			b, _ := proto.Marshal(m)
			return b
		}
		b, _ := protojson.Marshal(m)
		return b
	}
	custom, _ := val.New(em.Built.Files, "ce.v1.NotFoundError")
	custom.Set(custom.Descriptor().Fields().ByName("code"), protoreflect.ValueOfString("E42"))
	custom.Set(custom.Descriptor().Fields().ByName("num"), protoreflect.ValueOfInt32(7))
	var resps []*ceResp
	for i, rw := range raws {
		var cc ceCase
		if err := json.Unmarshal([]byte(rw), &cc); err != nil {
			c.Broken("bad exported case: %v", err)
		}
		if false && (i+int(c.Seed))%2 != 0 && cc.Body != "ve" && cc.Body != "err" && cc.Body != "custom" { // (no sampling: both tiers run every case)
			continue
		}
		class := "json"
		if cc.Ctype == "proto" {
			class = "proto"
		}
		r := &ceResp{status: cc.Status, lang: cc.Lang, class: class, label: fmt.Sprintf("%s %d %s %s", cc.Lang, cc.Status, cc.Body, cc.Ctype)}
		switch cc.Ctype {
		case "json":
			r.headers = [][2]string{{"Content-Type", "application/json"}}
		case "jsoncharset":
			r.headers = [][2]string{{"Content-Type", "application/json; charset=utf-8"}}
		case "proto":
			r.headers = [][2]string{{"Content-Type", "application/x-protobuf"}}
		case "texthtml":
			r.headers = [][2]string{{"Content-Type", "text/html"}}
		}
		switch cc.Body {
		case "ve":
			r.body = enc(&sebufhttp.ValidationError{Violations: []*sebufhttp.FieldViolation{{Field: "X-API-Key", Description: "required header is missing"},
				{Field: "user.email", Description: "must be a valid email"}, {Field: "items[2].tags", Description: "ü must be unique"}}}, class)
		case "ve0":
			r.body = enc(&sebufhttp.ValidationError{}, class)
			if class == "json" {
				r.body = []byte(`{"violations":[]}`)
			}
		case "err":
			r.body = enc(&sebufhttp.Error{Message: "boom: it broke"}, class)
		case "custom":
			r.body = enc(custom, class)
		case "text":
			r.body = []byte("plain text failure")
		case "html":
			r.body = []byte("<html><body><h1>502 Bad Gateway</h1></body></html>")
		case "empty":
			r.body = nil
		case "trunc":
			r.body = []byte(`{"violations":[{"field":"a","descr`)
		case "wrongtype":
			r.body = []byte(`{"violations":"notalist","message":5,"id":{},"n":[1]}`)
		case "deep":
			r.body = []byte(strings.Repeat("[", 20000) + strings.Repeat("]", 20000))
		case "badutf8":
			r.body = []byte("{\"message\":\"\xff\xfe\",\"id\":\"\xc3\x28\"}")
		case "null":
			r.body = []byte("null")
		case "array":
			r.body = []byte(`[1,2,{"message":"x"}]`)
		case "bignum":
			r.body = []byte(`{"id":"x","n":1e999,"message":123456789012345678901234567890}`)
		case "space":
			r.body = []byte(" ")
		case "newline":
			r.body = []byte("\n")
		case "crlf":
			r.body = []byte("\r\n\r\n")
		case "randombytes":
			r.body = make([]byte, 16+rnd.Intn(200))
			rnd.Read(r.body)
		}
		wellFormed := map[string]bool{"ve": true, "ve0": true, "err": true, "custom": true, "text": true, "html": true, "empty": true, "space": true, "newline": true, "crlf": true}
		r.judge = wellFormed[cc.Body] && (cc.Ctype == "json" || cc.Ctype == "proto" || cc.Ctype == "jsoncharset") &&
			!(class == "proto" && (cc.Body == "text" || cc.Body == "html")) && cc.Status != 301
		resps = append(resps, r)
	}
	// real server responses go to both clients (JSON) or the Go client (binary)
	for _, rr := range realResponses {
		for _, lang := range []string{"go", "ts"} {
			if lang == "ts" && rr.class == "proto" {
				continue
			}
			cp := *rr
			cp.lang = lang
			cp.label = lang + " real: " + rr.label
			resps = append(resps, &cp)
		}
	}
	// every failure also reaches the RPCs of the other shapes
	for _, r := range resps {
		if r.rpc == "" {
			r.rpc = "Do"
		}
	}
	for _, r := range append([]*ceResp{}, resps...) {
		if r.status >= 200 && r.status <= 299 {
			continue
		}
		for _, rpc := range []string{"Ack", "Get"} {
			cp := *r
			cp.rpc = rpc
			cp.label = r.label + " [" + rpc + "]"
			resps = append(resps, &cp)
		}
	}
	// ---- run
	in, _ := val.New(em.Built.Files, "ce.v1.In")
	in.Set(in.Descriptor().Fields().ByName("id"), protoreflect.ValueOfString("x"))
	var gops []drv.Op
	var tops []map[string]any
	for i, r := range resps {
		id := i + 1
		if r.lang == "go" {
			co := drv.ClientOpts{}
			if r.class == "proto" {
				co.ContentType = "application/x-protobuf"
			}
			gops = append(gops, drv.Op{Op: "call", Case: id, Call: 1, Pkg: "gen/ce", Svc: "Svc", Rpc: r.rpc, ReqType: "ce.v1.In", ReqB64: base64.StdEncoding.EncodeToString(val.Det(in)),
				ClientOpts: co, Canned: &drv.Canned{Status: r.status, Headers: r.headers, BodyB64: base64.StdEncoding.EncodeToString(r.body)}})
		} else {
			tops = append(tops, map[string]any{"op": "tscall", "case": id, "call": 1, "module": tsCli, "service": "Svc", "rpc": r.rpc, "req": map[string]any{"id": "x"},
				"canned": map[string]any{"status": r.status, "headers": r.headers, "bodyB64": base64.StdEncoding.EncodeToString(r.body)}})
		}
	}
	gev := runDrv(c, bin, w.Root, gops)
	tev := runTS(c, w.Root, tops)
	tsBy := map[int][]map[string]any{}
	for _, e := range tev {
		if id, ok := e["case"].(float64); ok {
			tsBy[int(id)] = append(tsBy[int(id)], e)
		}
	}
	// ---- events
	var lines []string
	for i, r := range resps {
		id := i + 1
		ret := map[string]any{"kind": "none", "viol": [][]string{}, "status": 0, "message": "", "body": ""}
		if r.lang == "go" {
			for _, e := range gev[fmt.Sprintf("%d/1", id)] {
				if e["event"] != "ClientRet" {
					continue
				}
				ret["kind"] = e["kind"]
				if vs, ok := e["viol"].([]any); ok {
					out := [][]string{}
					for _, v := range vs {
						if pr, ok := v.([]any); ok && len(pr) == 2 {
							out = append(out, []string{fmt.Sprint(pr[0]), fmt.Sprint(pr[1])})
						}
					}
					ret["viol"] = out
				}
				if m, ok := e["message"].(string); ok {
					ret["message"] = m
				}
				if m := goRawErrRe.FindStringSubmatch(fmt.Sprint(e["text"])); m != nil && e["kind"] == "rawError" {
					ret["status"], _ = strconv.Atoi(m[1])
					ret["body"] = m[2]
				}
			}
		} else {
			for _, e := range tsBy[id] {
				switch e["event"] {
				case "ClientRet":
					ret["kind"] = e["kind"]
					if vs, ok := e["viol"].([]any); ok {
						out := [][]string{}
						for _, v := range vs {
							if pr, ok := v.([]any); ok && len(pr) == 2 {
								out = append(out, []string{fmt.Sprint(pr[0]), fmt.Sprint(pr[1])})
							}
						}
						ret["viol"] = out
					}
					if st, ok := e["status"].(float64); ok {
						ret["status"] = int(st)
					}
					if b, ok := e["body"].(string); ok {
						ret["body"] = b
					}
					if m, ok := e["message"].(string); ok {
						ret["message"] = m
					}
				case "TsLoadError", "DriverError":
					c.Broken("ts driver: %v", e["detail"])
				}
			}
		}
		lines = append(lines, jsonLine(map[string]any{"event": "ClientMap", "lang": r.lang, "label": r.label, "judgeMapping": r.judge, "resp": abstractResp(r), "ret": ret}))
	}
	tr := runInventory(c, "Trace_ClientErr", "Trace_ClientErr.cfg", lines, map[string]string{"Enforce": enforce})
	accepted, bad := 0, 0
	table := map[string]int{}
	reported := map[string]bool{}
	for ln, v := range tr.Verdicts {
		r := resps[ln-1]
		table["client | "+r.lang+" | "+v.How]++
		if v.OK {
			accepted++
			if strings.HasPrefix(v.How, "D_") {
				c.Observe(v.How)
			}
			continue
		}
		bad++
		if !reported[r.label] && len(reported) < 20 {
			reported[r.label] = true
			rp := c.WriteReplay(map[string]any{"property": c.ID, "spec": "Trace_ClientErr", "verdict": v.How, "event": json.RawMessage(lines[ln-1]),
				"response_body_b64": base64.StdEncoding.EncodeToString(r.body), "seed": c.Seed})
			c.Violation(rp, fmt.Sprintf("client side, %s: %s: %s", r.label, v.How, firstN(lines[ln-1], 500)))
		}
	}
	dumpTable(table)
	c.AddInt("traces_validated_against_impl", int64(accepted))
	c.Set("client_side_evaluations", len(lines))
	c.Infof("client side: TLC judged %d responses handed to the real Go / TS clients: %d accepted, %d rejected", accepted+bad, accepted, bad)
}

// realErrorResponses extracts the distinct non-2xx responses of the real emitted server from a wire outcome.
func realErrorResponses(out *wire.Outcome) []*ceResp {
	seen := map[string]bool{}
	var rs []*ceResp
	ids := make([]int, 0, len(out.Events))
	for id := range out.Events {
		ids = append(ids, id)
	}
	sort.Ints(ids)
	for _, id := range ids {
		for _, e := range out.Events[id] {
			if e["event"] != "Resp" {
				continue
			}
			st := int(e["status"].(float64))
			if st >= 200 && st < 300 {
				continue
			}
			ct, _ := e["ctype"].(string)
			class := ""
			switch {
			case strings.HasPrefix(ct, "application/json"):
				class = "json"
			case strings.HasPrefix(ct, "application/x-protobuf"), strings.HasPrefix(ct, "application/octet-stream"):
				class = "proto"
			default:
				continue
			}
			body := unb64s(e["bodyB64"])
			k := fmt.Sprintf("%d|%s|%x", st, ct, body)
			if seen[k] {
				continue
			}
			seen[k] = true
			rs = append(rs, &ceResp{status: st, headers: [][2]string{{"Content-Type", ct}}, body: body, class: class, judge: true,
				label: fmt.Sprintf("%d %s %s", st, ct, firstN(string(body), 60))})
		}
	}
	return rs
}
