package main

import (
	"bufio"
	"bytes"
	"encoding/base64"
	"encoding/json"
	"fmt"
	"os"
	"os/exec"
	"path/filepath"
	"sort"
	"strings"

	yaml "go.yaml.in/yaml/v4"
	"google.golang.org/protobuf/reflect/protoreflect"

	"verifharness/abs"
	"verifharness/chk"
	"verifharness/drv"
	"verifharness/jsonv"
	"verifharness/pipe"
	"verifharness/plug"
	"verifharness/val"
	"verifharness/work"
)

// yamlTrees parses a YAML document with two independent parsers (go-yaml v4, PyYAML).
func yamlTrees(c *chk.Ctx, content string) (jsonv.M, jsonv.M, string) {
	var g any
	if err := yaml.Unmarshal([]byte(content), &g); err != nil {
		return nil, nil, "go-yaml: " + err.Error()
	}
	cmd := exec.Command("python3", filepath.Join(plug.VerifDir(), "tools", "yaml2json.py"))
	cmd.Stdin = strings.NewReader(content)
	var so, se bytes.Buffer
	cmd.Stdout, cmd.Stderr = &so, &se
	if err := cmd.Run(); err != nil {
		if strings.Contains(se.String(), "No module named") {
			c.Broken("PyYAML is not available to the system python3")
		}
		return nil, nil, "PyYAML: " + firstN(se.String(), 200)
	}
	pt, err := jsonv.ParseJSON(so.Bytes())
	if err != nil {
		return nil, nil, "PyYAML output: " + err.Error()
	}
	return jsonv.SortTree(jsonv.FromGeneric(g)), jsonv.SortTree(pt), ""
}

type svcDoc struct {
	svc   string
	tree  jsonv.M // JSON rendering, refs split
	raw   string  // the JSON rendering as emitted
	event map[string]any
}

// docsOf generates the OpenAPI documents of a schema in every format and builds the Doc / Files events.
func docsOf(c *chk.Ctx, set *plug.Set, b *abs.Built, s *abs.Schema, allFormats bool) ([]*svcDoc, []string, string) {
	rj := set.Run("openapiv3", b.Request("format=json", nil), plug.RunOpts{})
	if !rj.OK() {
		return nil, nil, "openapiv3 (format=json): " + rj.Exit + " " + firstN(rj.Error, 200)
	}
	formats := map[string]*plug.Result{}
	if allFormats {
		for _, f := range []string{"", "format=yaml", "format=yml"} {
			r := set.Run("openapiv3", b.Request(f, nil), plug.RunOpts{})
			if !r.OK() {
				return nil, nil, "openapiv3 (" + f + "): " + r.Exit + " " + firstN(r.Error, 200)
			}
			formats[f] = r
		}
	}
	var docs []*svcDoc
	var lines []string
	var names []string
	for _, f := range rj.Files {
		if !strings.HasSuffix(f.Name, ".openapi.json") {
			continue
		}
		svc := strings.TrimSuffix(f.Name, ".openapi.json")
		names = append(names, svc)
		if d := os.Getenv("VERIF_DUMP_DOCS"); d != "" {
			_ = os.MkdirAll(d, 0o755)
			_ = os.WriteFile(filepath.Join(d, fmt.Sprintf("%s-%d.json", svc, len(f.Content))), []byte(f.Content), 0o644)
		}
		tree, err := jsonv.DocTree([]byte(f.Content))
		if err != nil {
			return nil, nil, "emitted JSON document does not parse: " + err.Error()
		}
		plain, _ := jsonv.ParseJSON([]byte(f.Content))
		sorted := jsonv.SortTree(plain)
		sortedJSON, _ := json.Marshal(sorted)
		eq := true
		detail := ""
		for fm, r := range formats {
			yf := r.File(svc + ".openapi.yaml")
			if yf == nil {
				eq, detail = false, "no "+svc+".openapi.yaml for parameter '"+fm+"'"
				continue
			}
			t1, t2, perr := yamlTrees(c, yf.Content)
			if perr != "" {
				eq, detail = false, perr
				continue
			}
			j1, _ := json.Marshal(t1)
			if !bytes.Equal(j1, sortedJSON) {
				eq = false
				detail = "YAML ('" + fm + "', YAML 1.2 parser) and JSON renderings differ: " + firstDiff(string(j1), string(sortedJSON))
			} else if d := treeDiff(t2, sorted, ""); d != "" {
				// second parser (PyYAML, YAML 1.1): differences that are only YAML 1.1 booleans
				// (yes / no / on / off / y / n) are not judged - OpenAPI 3.1 prescribes YAML 1.2
				eq = false
				detail = "YAML ('" + fm + "', second parser) and JSON renderings differ at " + d
			}
		}
		tv := []map[string]any{}
		if paths := jsonv.Lookup(tree, "paths"); paths != nil && paths["t"] == "obj" {
			for _, m := range paths["m"].([]jsonv.M) {
				pp := abs.ParsePath(m["k"].(string))
				vars := []string{}
				for _, sg := range pp.Segs {
					if sg.Var {
						vars = append(vars, sg.Text)
					}
				}
				tv = append(tv, map[string]any{"path": m["k"], "vars": vars})
			}
		}
		ev := map[string]any{"event": "Doc", "svc": svc, "tree": tree, "tmplVars": tv, "yamlEqJson": eq, "detail": detail, "formats": len(formats) + 1}
		docs = append(docs, &svcDoc{svc: svc, tree: tree, raw: f.Content, event: ev})
		lines = append(lines, jsonLine(ev))
	}
	sort.Strings(names)
	if names == nil {
		names = []string{} // (no document at all: an empty list, not null)
	}
	lines = append(lines, jsonLine(map[string]any{"event": "Files", "docs": names}))
	return docs, lines, ""
}

func firstDiff(a, b string) string {
	n := len(a)
	if len(b) < n {
		n = len(b)
	}
	for i := 0; i < n; i++ {
		if a[i] != b[i] {
			lo := i - 40
			if lo < 0 {
				lo = 0
			}
			return "..." + firstN(a[lo:], 100) + " vs ..." + firstN(b[lo:], 100)
		}
	}
	return fmt.Sprintf("lengths %d vs %d", len(a), len(b))
}

// opSchema extracts the schema node the document gives for an operation / direction / status.
func opSchema(doc jsonv.M, rpc, dir, status string) jsonv.M {
	paths := jsonv.Lookup(doc, "paths")
	if paths == nil || paths["t"] != "obj" {
		return nil
	}
	for _, p := range paths["m"].([]jsonv.M) {
		item := p["v"].(jsonv.M)
		if item["t"] != "obj" {
			continue
		}
		for _, vm := range item["m"].([]jsonv.M) {
			op := vm["v"].(jsonv.M)
			id := jsonv.Lookup(op, "operationId")
			if id == nil || id["v"] != rpc {
				continue
			}
			if dir == "request" {
				return jsonv.Lookup(op, "requestBody", "content", "application/json", "schema")
			}
			return jsonv.Lookup(op, "responses", status, "content", "application/json", "schema")
		}
	}
	return nil
}

// rawOpSchema is opSchema on the document as emitted: the schema is wrapped together with the
// document's components so that "#/components/schemas/X" references resolve for the instrument.
func rawOpSchema(raw string, rpc, dir, status string) map[string]any {
	var doc map[string]any
	if json.Unmarshal([]byte(raw), &doc) != nil {
		return nil
	}
	paths, _ := doc["paths"].(map[string]any)
	for _, item := range paths {
		im, _ := item.(map[string]any)
		for _, o := range im {
			op, _ := o.(map[string]any)
			if op == nil || op["operationId"] != rpc {
				continue
			}
			var holder map[string]any
			if dir == "request" {
				holder, _ = op["requestBody"].(map[string]any)
			} else {
				rs, _ := op["responses"].(map[string]any)
				holder, _ = rs[status].(map[string]any)
			}
			ct, _ := holder["content"].(map[string]any)
			aj, _ := ct["application/json"].(map[string]any)
			sch, ok := aj["schema"]
			if !ok {
				return nil
			}
			return map[string]any{"$schema": "https://json-schema.org/draft/2020-12/schema", "components": doc["components"], "allOf": []any{sch}}
		}
	}
	return nil
}

// instrument runs jsonschema (Draft 2020-12, every keyword) over (schema, instance) pairs: the
// specification's own validator interprets the structural keywords only.
func instrument(c *chk.Ctx, jobs []map[string]any) map[int]bool {
	var in bytes.Buffer
	for _, j := range jobs {
		b, _ := json.Marshal(j)
		in.Write(b)
		in.WriteByte('\n')
	}
	cmd := exec.Command("python3-vt", filepath.Join(plug.VerifDir(), "tools", "schema_check.py"))
	cmd.Stdin = &in
	var so, se bytes.Buffer
	cmd.Stdout, cmd.Stderr = &so, &se
	if err := cmd.Run(); err != nil {
		c.Broken("schema_check.py (python3-vt with jsonschema) failed: %v %s", err, firstN(se.String(), 300))
	}
	valid := map[int]bool{}
	sc := bufio.NewScanner(&so)
	sc.Buffer(make([]byte, 1<<20), 1<<26)
	for sc.Scan() {
		var o struct {
			ID    int  `json:"id"`
			Valid bool `json:"valid"`
		}
		if json.Unmarshal(sc.Bytes(), &o) == nil {
			valid[o.ID] = o.Valid
		}
	}
	if len(valid) != len(jobs) {
		c.Broken("instrument answered %d of %d", len(valid), len(jobs))
	}
	return valid
}

// checkC06 : wire JSON bodies validate against the generated OpenAPI.
func checkC06(c *chk.Ctx) {
	set := pluginSet(c)
	res := runMC(c, "MC_Json", "MC_Json.cfg", nil, true)
	raws := make([]string, 0, len(res.Cases))
	for _, r := range res.Cases {
		raws = append(raws, string(r))
	}
	sort.Strings(raws)
	w, err := work.New()
	if err != nil {
		c.Broken("%v", err)
	}
	defer w.Close()
	stride := 1
	type ocase struct {
		ex      *pipe.Exported
		built   *abs.Built
		pkg     string
		top     string
		doc     *svcDoc
		docLine string
		skipped string
	}
	var cases []*ocase
	for i, raw := range raws {
		if (i+int(c.Seed))%stride != 0 {
			continue
		}
		e, err := pipe.ParseExported(json.RawMessage(raw), fmt.Sprintf("o%d", i))
		if err != nil {
			c.Broken("bad exported case: %v", err)
		}
		oc := &ocase{ex: e, pkg: fmt.Sprintf("gen/o%d", i), top: svcFile(e.Schema).Services[0].Methods[0].In}
		em, err := w.Emit(set, e.Schema, work.EmitOpts{Plugins: []string{"go-http"}, PerFile: true})
		if err != nil {
			c.Broken("%v", err)
		}
		oc.built = em.Built
		if !em.Results["go-http"].OK() {
			oc.skipped = "refused by go-http: " + firstN(em.Results["go-http"].Error, 200)
		}
		docs, lines, derr := docsOf(c, set, em.Built, e.Schema, false)
		if derr != "" {
			rp := c.WriteReplay(map[string]any{"property": c.ID, "stage": "openapi", "fv": e.Fv, "error": derr})
			c.Violation(rp, fmt.Sprintf("%v: %s", e.Fv, derr))
			continue
		}
		// the document of the service that has the RPC under test ("Do"): with several services in the file it
		// need not be the first one written
		for i, d := range docs {
			if opSchema(d.tree, "Do", "request", "") != nil {
				oc.doc, oc.docLine = d, lines[i]
			}
		}
		if oc.doc == nil {
			oc.skipped = "no document"
		}
		cases = append(cases, oc)
	}
	fails, _, err := w.BuildPkgs(nil, "./gen/...")
	if err != nil {
		c.Broken("go build: %v", err)
	}
	var specs []work.PkgSpec
	nSkipped := 0
	for _, oc := range cases {
		if d, bad := fails[oc.pkg]; bad && oc.skipped == "" {
			oc.skipped = "does not build (C13): " + firstN(d, 100)
		}
		if oc.skipped != "" {
			nSkipped++
			if os.Getenv("VERIF_DEBUG") != "" {
				fmt.Fprintln(os.Stderr, "skipped", oc.ex.Fv, oc.skipped)
			}
			continue
		}
		specs = append(specs, work.PkgSpec{ImportPath: "scratch/" + oc.pkg, Server: true})
	}
	if err := w.WriteDriver("drv", specs); err != nil {
		c.Broken("%v", err)
	}
	bin, bout, err := w.BuildBinary("./drv", "drv")
	if err != nil {
		c.Broken("driver does not build: %s", firstN(bout, 1500))
	}
	modes := []int{0, 1, 2, jsonv.ModeSparse}
	if c.Thorough() {
		modes = []int{0, 1, 2, 3, 4, 5, 6, 7, 8, jsonv.ModeSparse}
	}
	var ops []drv.Op
	type vkey struct{ ci, mode int }
	vts := map[vkey]jsonv.M{}
	for ci, oc := range cases {
		if oc.skipped != "" {
			continue
		}
		tr := jsonv.NewTree(oc.ex.Schema)
		md, _ := oc.built.Files.FindDescriptorByName(protoreflect.FullName(oc.top))
		for _, mode := range modes {
			v := jsonv.GenValue(md.(protoreflect.MessageDescriptor), mode, c.Seed, tr.Known)
			vts[vkey{ci, mode}] = tr.Msg(v.ProtoReflect())
			b64 := base64.StdEncoding.EncodeToString(val.Det(v))
			// request in binary (always decodable), response forced to JSON by a second, JSON request below
			ops = append(ops, drv.Op{Op: "codec", Case: ci, Call: mode*10 + 1, Type: oc.top, ValB64: b64})
		}
		// error responses: 400 (undecodable body) and the default error (handler failure)
		ops = append(ops, drv.Op{Op: "raw", Case: ci, Call: 901, Pkg: oc.pkg, Verb: "POST", URL: "/api/do", Headers: [][2]string{{"Content-Type", "application/json"}},
			BodyB64: base64.StdEncoding.EncodeToString([]byte(`{"unterminated`)), Handler: drv.HandlerCfg{Kind: "plain", Msg: "x"}})
	}
	ev := runDrv(c, bin, w.Root, ops)
	var ops2 []drv.Op
	for ci, oc := range cases {
		if oc.skipped != "" {
			continue
		}
		for _, mode := range modes {
			for _, e := range ev[fmt.Sprintf("%d/%d", ci, mode*10+1)] {
				if e["event"] == "Codec" && e["encOk"] == true {
					ops2 = append(ops2, drv.Op{Op: "raw", Case: ci, Call: mode*10 + 2, Pkg: oc.pkg, Verb: "POST", URL: "/api/do",
						Headers: [][2]string{{"Content-Type", "application/json"}}, BodyB64: fmt.Sprint(e["jsonB64"]),
						Handler: drv.HandlerCfg{Kind: "ok", RespType: oc.top, RespB64: base64.StdEncoding.EncodeToString(unb64s(e["backB64"]))}})
				}
			}
		}
		ops2 = append(ops2, drv.Op{Op: "raw", Case: ci, Call: 902, Pkg: oc.pkg, Verb: "POST", URL: "/api/do", Headers: [][2]string{{"Content-Type", "application/json"}},
			BodyB64: base64.StdEncoding.EncodeToString([]byte(`{}`)), Handler: drv.HandlerCfg{Kind: "plain", Msg: "boom"}})
	}
	ev2 := runDrv(c, bin, w.Root, ops2)
	// ---- trace
	type ref struct {
		ci   int
		line string
	}
	var lines []string
	var owner []int
	var jobs []map[string]any
	var jobLine []int
	pend := map[int]map[string]any{}
	evals := 0
	for ci, oc := range cases {
		if oc.skipped != "" {
			continue
		}
		lines = append(lines, schemaLine(oc.ex), oc.docLine)
		owner = append(owner, -1, -1)
		oneofCfg := false
		var hasCfg func(m *abs.Message)
		hasCfg = func(m *abs.Message) {
			for _, o := range m.Oneofs {
				oneofCfg = oneofCfg || o.HasCfg
			}
			for _, n := range m.Nested {
				hasCfg(n)
			}
		}
		for _, f := range oc.ex.Schema.Files {
			for _, m := range f.Messages {
				hasCfg(m)
			}
		}
		rawCache := map[string]map[string]any{}
		rawSch := func(dir, status string) map[string]any {
			k := dir + "/" + status
			if _, ok := rawCache[k]; !ok {
				rawCache[k] = rawOpSchema(oc.doc.raw, "Do", dir, status)
			}
			return rawCache[k]
		}
		// the line is written once the instrument has given its verdict on (schema as emitted, body as sent)
		add := func(e map[string]any, inst []byte) {
			e["oneofCfg"] = oneofCfg
			e["gap"] = ""
			e["instr"] = "n/a"
			var instance any
			if rs := rawSch(fmt.Sprint(e["dir"]), fmt.Sprint(e["status"])); rs != nil && inst != nil && json.Unmarshal(inst, &instance) == nil {
				jobs = append(jobs, map[string]any{"id": len(jobs), "schema": rs, "instance": instance})
				jobLine = append(jobLine, len(lines))
			}
			pend[len(lines)] = e
			lines = append(lines, "")
			owner = append(owner, ci)
			evals++
		}
		reqSch := opSchema(oc.doc.tree, "Do", "request", "")
		okSch := opSchema(oc.doc.tree, "Do", "response", "200")
		for _, mode := range modes {
			vt := vts[vkey{ci, mode}]
			for _, e := range ev[fmt.Sprintf("%d/%d", ci, mode*10+1)] {
				if e["event"] == "Codec" && e["encOk"] == true {
					jt, err := jsonv.ParseJSON(unb64s(e["jsonB64"]))
					if err == nil && reqSch != nil {
						add(map[string]any{"event": "Check", "rpc": "Do", "dir": "request", "status": "", "hasVal": true, "ok": true, "val": vt, "json": jt, "sch": reqSch}, unb64s(e["jsonB64"]))
					}
				}
			}
			for _, e := range ev2[fmt.Sprintf("%d/%d", ci, mode*10+2)] {
				if e["event"] == "Resp" && int(e["status"].(float64)) == 200 {
					jt, err := jsonv.ParseJSON(unb64s(e["bodyB64"]))
					if err == nil && okSch != nil {
						add(map[string]any{"event": "Check", "rpc": "Do", "dir": "response", "status": "200", "hasVal": true, "ok": true, "val": vt, "json": jt, "sch": okSch}, unb64s(e["bodyB64"]))
					}
				}
			}
		}
		for call, want := range map[int]string{901: "400", 902: "default"} {
			src := ev
			if call == 902 {
				src = ev2
			}
			for _, e := range src[fmt.Sprintf("%d/%d", ci, call)] {
				if e["event"] != "Resp" {
					continue
				}
				jt, err := jsonv.ParseJSON(unb64s(e["bodyB64"]))
				// the probe bodies are fixed texts: where the schema's rules reject them the answer is the
				// 400 of the validation step, and is judged as such
				if st, ok := e["status"].(float64); ok && int(st) == 400 {
					want = "400"
				}
				sch := opSchema(oc.doc.tree, "Do", "response", want)
				if sch == nil {
					add(map[string]any{"event": "Check", "rpc": "Do", "dir": "response", "status": want, "hasVal": false, "ok": false, "val": nullTree, "json": nullTree, "sch": nullTree}, nil)
					continue
				}
				if err != nil {
					jt = nullTree
				}
				add(map[string]any{"event": "Check", "rpc": "Do", "dir": "response", "status": want, "hasVal": false, "ok": err == nil, "val": nullTree, "json": jt, "sch": sch}, unb64s(e["bodyB64"]))
			}
		}
		if ci%16 == 0 {
			c.AddSample(map[string]any{"fv": oc.ex.Fv, "modes": modes})
		}
	}
	verdict := instrument(c, jobs)
	nInvalid := 0
	for id, ln := range jobLine {
		if verdict[id] {
			pend[ln]["instr"] = "valid"
		} else {
			pend[ln]["instr"] = "invalid"
			nInvalid++
		}
	}
	for ln, e := range pend {
		lines[ln] = jsonLine(e)
		if d := os.Getenv("VERIF_DEBUG_C06"); d != "" && fmt.Sprint(cases[owner[ln]].ex.Fv["construct"]) == d && e["hasVal"] == true {
			jb, _ := json.Marshal(e["json"])
			fmt.Fprintln(os.Stderr, "DEBUG", cases[owner[ln]].ex.Fv["context"], e["dir"], e["status"], e["instr"], firstN(string(jb), 600))
		}
	}
	c.Infof("instrument (jsonschema, Draft 2020-12, all keywords): %d bodies against the operation schemas as emitted, %d invalid", len(jobs), nInvalid)
	// ---- the parameter half: values the real clients put into URLs against the declared parameter schemas
	plines, plabels := paramValuesCheck(c, set)
	firstParam := len(lines)
	for range plines {
		owner = append(owner, -2)
	}
	lines = append(lines, plines...)
	evals += len(plines)
	r := runInventory(c, "Trace_OpenApi", "Trace_OpenApi.cfg", lines, map[string]string{"Enforce": `{"C06"}`})
	accepted, bad := 0, 0
	table := map[string]int{}
	for ln, v := range r.Verdicts {
		ci := owner[ln-1]
		if ci == -2 {
			if v.OK {
				accepted++
				continue
			}
			bad++
			if bad <= 25 {
				rp := c.WriteReplay(map[string]any{"property": c.ID, "spec": "Trace_OpenApi", "part": "parameters", "verdict": v.How, "param": json.RawMessage(lines[ln-1]), "seed": c.Seed})
				c.Violation(rp, fmt.Sprintf("%s: %s", plabels[ln-1-firstParam], v.How))
			}
			continue
		}
		if ci < 0 {
			continue
		}
		oc := cases[ci]
		var e map[string]any
		_ = json.Unmarshal([]byte(lines[ln-1]), &e)
		table[fmt.Sprintf("%v | %v | %v %v | %s", oc.ex.Fv["construct"], oc.ex.Fv["context"], e["dir"], e["status"], v.How)]++
		if v.OK {
			accepted++
			if strings.HasPrefix(v.How, "D_") {
				c.Observe(v.How)
			}
			continue
		}
		bad++
		if bad <= 25 {
			rp := c.WriteReplay(map[string]any{"property": c.ID, "spec": "Trace_OpenApi", "fv": oc.ex.Fv, "verdict": v.How, "check": json.RawMessage(lines[ln-1]), "seed": c.Seed})
			c.Violation(rp, fmt.Sprintf("%v %v %v: %s", oc.ex.Fv, e["dir"], e["status"], v.How))
		}
	}
	dumpTable(table)
	c.Set("evaluations", evals)
	c.Set("distinct_nontrivial", len(table))
	c.Set("rule", "one evaluation = one (schema, value class, direction/status) instance judged by TLC against the real document: Validates and Described on the contract form Enc(schema, value) and on the wire JSON")
	c.Set("cases_outside_domain", nSkipped)
	c.AddInt("traces_validated_against_impl", int64(accepted))
	c.Infof("TLC judged %d instances against the real documents: %d accepted, %d rejected (Dev = %v)", accepted+bad, accepted, bad, c.Dev())
	c.Done()
}

func dumpTable(table map[string]int) {
	tf := os.Getenv("VERIF_TABLE")
	if tf == "" {
		return
	}
	var rows []string
	for k, n := range table {
		rows = append(rows, fmt.Sprintf("%s | %d", k, n))
	}
	sort.Strings(rows)
	_ = os.WriteFile(tf, []byte(strings.Join(rows, "\n")+"\n"), 0o644)
}

// checkC18 : each OpenAPI document is well-formed, complete and format-independent.
func checkC18(c *chk.Ctx) {
	set := pluginSet(c)
	cases := exportedCases(c, "MC_Pipeline_C18.cfg", "d")
	var lines []string
	var owner []int
	evals := 0
	for ci, e := range cases {
		b, err := abs.Build(e.Schema)
		if err != nil {
			c.Broken("harness cannot express exported case %v: %v", e.Fv, err)
		}
		_, dl, derr := docsOf(c, set, b, e.Schema, true)
		if derr != "" {
			rp := c.WriteReplay(map[string]any{"property": c.ID, "stage": "openapi", "fv": e.Fv, "error": derr})
			c.Violation(rp, fmt.Sprintf("%v: %s", e.Fv, derr))
			continue
		}
		lines = append(lines, schemaLine(e))
		owner = append(owner, -1)
		for _, l := range dl {
			lines = append(lines, l)
			owner = append(owner, ci)
			evals++
		}
		if ci%8 == 0 {
			c.AddSample(map[string]any{"fv": e.Fv, "documents": len(dl) - 1, "formats": []string{"json", "default", "yaml", "yml"}})
		}
	}
	r := runInventory(c, "Trace_OpenApi", "Trace_OpenApi.cfg", lines, map[string]string{"Enforce": `{"C18"}`})
	accepted, bad := 0, 0
	table := map[string]int{}
	for ln, v := range r.Verdicts {
		ci := owner[ln-1]
		if ci < 0 {
			continue
		}
		table[fmt.Sprintf("%v | %v | %s", cases[ci].Fv["kind"], cases[ci].Fv["rule"], v.How)]++
		if v.OK {
			accepted++
			if strings.HasPrefix(v.How, "D_") {
				c.Observe(v.How)
			}
			continue
		}
		bad++
		if bad <= 25 {
			var e map[string]any
			_ = json.Unmarshal([]byte(lines[ln-1]), &e)
			delete(e, "tree")
			rp := c.WriteReplay(map[string]any{"property": c.ID, "spec": "Trace_OpenApi", "fv": cases[ci].Fv, "verdict": v.How, "event": e,
				"schema": cases[ci].Schema, "seed": c.Seed})
			c.Violation(rp, fmt.Sprintf("%v document %v: %s %v", cases[ci].Fv, e["svc"], v.How, firstN(fmt.Sprint(e["detail"]), 200)))
		}
	}
	dumpTable(table)
	c.Set("evaluations", evals)
	c.Set("distinct_nontrivial", len(table))
	c.Set("rule", "one evaluation = one emitted document (all four format parameters compared) or one per-file document set, judged by TLC with the C18 predicates")
	c.AddInt("traces_validated_against_impl", int64(accepted))
	c.Infof("TLC judged %d documents / document sets: %d accepted, %d rejected (Dev = %v)", accepted+bad, accepted, bad, c.Dev())
	c.Done()
}

var yaml11Bools = map[string]bool{"y": true, "n": true, "yes": true, "no": true, "on": true, "off": true, "true": true, "false": true}

// treeDiff returns the path of the first difference between two sorted tagged trees ("" = equal),
// ignoring scalars that differ only by YAML 1.1's extra boolean spellings.
func treeDiff(a, b jsonv.M, path string) string {
	if a["t"] != b["t"] {
		// plain scalars are typed differently by YAML 1.1 and 1.2 (yes / on / 1e3 / 0o7 ...): the
		// second parser only cross-checks structure and equal-typed scalars
		scalar := map[any]bool{"str": true, "num": true, "bool": true, "null": true}
		if scalar[a["t"]] && scalar[b["t"]] {
			return ""
		}
		return fmt.Sprintf("%s: %v vs %v", path, a["t"], b["t"])
	}
	switch a["t"] {
	case "obj":
		am, bm := a["m"].([]jsonv.M), b["m"].([]jsonv.M)
		if len(am) != len(bm) {
			// a key read as a boolean by YAML 1.1 sorts elsewhere: compare as maps
			idx := map[string]jsonv.M{}
			for _, m := range bm {
				idx[strings.ToLower(fmt.Sprint(m["k"]))] = m["v"].(jsonv.M)
			}
			return fmt.Sprintf("%s: %d vs %d members", path, len(am), len(bm))
		}
		bidx := map[string]jsonv.M{}
		for _, m := range bm {
			bidx[fmt.Sprint(m["k"])] = m["v"].(jsonv.M)
		}
		for _, m := range am {
			k := fmt.Sprint(m["k"])
			bv, ok := bidx[k]
			if !ok {
				// YAML 1.1 may have turned the key itself into a boolean
				for bk, v := range bidx {
					if yaml11Bools[strings.ToLower(bk)] && (k == "true" || k == "false" || k == "True" || k == "False") {
						bv, ok = v, true
					}
				}
			}
			if !ok {
				return path + "/" + k + ": missing"
			}
			if d := treeDiff(m["v"].(jsonv.M), bv, path+"/"+k); d != "" {
				return d
			}
		}
	case "arr":
		ae, be := a["e"].([]jsonv.M), b["e"].([]jsonv.M)
		if len(ae) != len(be) {
			return fmt.Sprintf("%s: %d vs %d elements", path, len(ae), len(be))
		}
		for i := range ae {
			if d := treeDiff(ae[i], be[i], fmt.Sprintf("%s/%d", path, i)); d != "" {
				return d
			}
		}
	default:
		if fmt.Sprint(a["v"]) != fmt.Sprint(b["v"]) {
			return fmt.Sprintf("%s: %v vs %v", path, a["v"], b["v"])
		}
	}
	return ""
}
