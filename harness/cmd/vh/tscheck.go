package main

import (
	"encoding/base64"
	"encoding/json"
	"fmt"
	"os"
	"path/filepath"
	"sort"
	"strings"

	"google.golang.org/protobuf/encoding/protojson"
	"google.golang.org/protobuf/reflect/protoreflect"

	"verifharness/abs"
	"verifharness/chk"
	"verifharness/drv"
	"verifharness/jsonv"
	"verifharness/pipe"
	"verifharness/tsdecl"
	"verifharness/val"
	"verifharness/work"
)

func declsTLA(ds []*tsdecl.Decl) []any {
	out := make([]any, 0, len(ds))
	for _, d := range ds {
		out = append(out, map[string]any{"name": d.Name, "ty": d.Ty.TLA()})
	}
	return out
}

// tsModules parses the client and server module of one file; msgs = names both must declare alike.
func tsDeclsEvent(client, server string, msgNames []string) (map[string]any, *tsdecl.Module, *tsdecl.Module) {
	cm, err1 := tsdecl.Parse(client)
	sm, err2 := tsdecl.Parse(server)
	ev := map[string]any{"event": "TsDecls", "parsed": err1 == nil && err2 == nil, "client": []any{}, "server": []any{}, "msgs": msgNames, "detail": ""}
	if err1 != nil || err2 != nil {
		ev["detail"] = firstN(fmt.Sprint(err1, " / ", err2), 300)
		return ev, nil, nil
	}
	ev["client"], ev["server"] = declsTLA(cm.Decls), declsTLA(sm.Decls)
	return ev, cm, sm
}

func findMethod(m *tsdecl.Module, ownerSuffix, name string) *tsdecl.Method {
	for _, x := range m.Methods {
		if strings.HasSuffix(x.Owner, ownerSuffix) && strings.EqualFold(x.Name, name) {
			return x
		}
	}
	return nil
}

// allMsgNames: the short names of every message of the schema (what the TS modules name types after).
func allMsgNames(s *abs.Schema) []string {
	var out []string
	var walk func(ms []*abs.Message)
	walk = func(ms []*abs.Message) {
		for _, m := range ms {
			out = append(out, m.Name)
		}
	}
	for _, f := range s.Files {
		walk(f.Messages)
	}
	sort.Strings(out)
	return out
}

// checkC07 : wire JSON and handler inputs inhabit the generated TypeScript types.
func checkC07(c *chk.Ctx) {
	set := pluginSet(c)
	w, err := work.New()
	if err != nil {
		c.Broken("%v", err)
	}
	defer w.Close()
	var lines []string
	var owner []string // per line: "" or a label for the verdict table
	evals := 0
	add := func(label string, e map[string]any) {
		lines = append(lines, jsonLine(e))
		owner = append(owner, label)
		evals++
	}
	raw := func(l string) {
		lines = append(lines, l)
		owner = append(owner, "")
	}

	// ---------------- part A: the JSON-mapping family, Go server wire JSON vs TS client types
	res := runMC(c, "MC_Json", "MC_Json.cfg", nil, true)
	raws := make([]string, 0, len(res.Cases))
	for _, r := range res.Cases {
		raws = append(raws, string(r))
	}
	sort.Strings(raws)
	type acase struct {
		ex      *pipe.Exported
		built   *abs.Built
		pkg     string
		top     string
		skipped string
		client  string
		server  string
	}
	var cases []*acase
	for i, rw := range raws {
		e, err := pipe.ParseExported(json.RawMessage(rw), fmt.Sprintf("t%d", i))
		if err != nil {
			c.Broken("bad exported case: %v", err)
		}
		ac := &acase{ex: e, pkg: fmt.Sprintf("gen/t%d", i), top: svcFile(e.Schema).Services[0].Methods[0].In}
		em, err := w.Emit(set, e.Schema, work.EmitOpts{Plugins: []string{"go-http", "ts-client", "ts-server"}, PerFile: true})
		if err != nil {
			c.Broken("%v", err)
		}
		ac.built = em.Built
		switch {
		case !em.Results["go-http"].OK():
			ac.skipped = "refused by go-http"
		case !em.Results["ts-client"].OK() || !em.Results["ts-server"].OK():
			ac.skipped = "refused by a ts plugin"
		default:
			for _, f := range em.Results["ts-client"].Files {
				ac.client = f.Content
			}
			for _, f := range em.Results["ts-server"].Files {
				ac.server = f.Content
			}
		}
		cases = append(cases, ac)
	}
	fails, _, err := w.BuildPkgs(nil, "./gen/...")
	if err != nil {
		c.Broken("go build: %v", err)
	}
	var specs []work.PkgSpec
	nSkipped := 0
	for _, ac := range cases {
		if d, bad := fails[ac.pkg]; bad && ac.skipped == "" {
			ac.skipped = "does not build (C13): " + firstN(d, 100)
		}
		if ac.skipped != "" {
			nSkipped++
			if os.Getenv("VERIF_DEBUG") != "" {
				fmt.Fprintln(os.Stderr, "skipped", ac.ex.Fv, ac.skipped)
			}
			continue
		}
		specs = append(specs, work.PkgSpec{ImportPath: "scratch/" + ac.pkg, Server: true})
	}
	if err := w.WriteDriver("drv", specs); err != nil {
		c.Broken("%v", err)
	}
	bin, bout, err := w.BuildBinary("./drv", "drv")
	if err != nil {
		c.Broken("driver does not build: %s", firstN(bout, 1500))
	}
	modes := []int{0, 1, 2, jsonv.ModeSparse}
	if c.Thorough() {
		modes = []int{0, 1, 2, 3, 4, 5, 6, 7, 8, jsonv.ModeSparse}
	}
	type vkey struct{ ci, mode int }
	vts := map[vkey]jsonv.M{}
	var ops []drv.Op
	for ci, ac := range cases {
		if ac.skipped != "" {
			continue
		}
		tr := jsonv.NewTree(ac.ex.Schema)
		md, _ := ac.built.Files.FindDescriptorByName(protoreflect.FullName(ac.top))
		for _, mode := range modes {
			v := jsonv.GenValue(md.(protoreflect.MessageDescriptor), mode, c.Seed, tr.Known)
			vts[vkey{ci, mode}] = tr.Msg(v.ProtoReflect())
			ops = append(ops, drv.Op{Op: "codec", Case: ci, Call: mode*10 + 1, Type: ac.top, ValB64: base64.StdEncoding.EncodeToString(val.Det(v))})
		}
	}
	ev := runDrv(c, bin, w.Root, ops)
	var ops2 []drv.Op
	for ci, ac := range cases {
		if ac.skipped != "" {
			continue
		}
		for _, mode := range modes {
			for _, e := range ev[fmt.Sprintf("%d/%d", ci, mode*10+1)] {
				if e["event"] == "Codec" && e["encOk"] == true {
					ops2 = append(ops2, drv.Op{Op: "raw", Case: ci, Call: mode*10 + 2, Pkg: ac.pkg, Verb: "POST", URL: "/api/do",
						Headers: [][2]string{{"Content-Type", "application/json"}}, BodyB64: fmt.Sprint(e["jsonB64"]),
						Handler: drv.HandlerCfg{Kind: "ok", RespType: ac.top, RespB64: base64.StdEncoding.EncodeToString(unb64s(e["backB64"]))}})
				}
			}
		}
	}
	ev2 := runDrv(c, bin, w.Root, ops2)
	for ci, ac := range cases {
		if ac.skipped != "" {
			continue
		}
		raw(schemaLine(ac.ex))
		de, cm, _ := tsDeclsEvent(ac.client, ac.server, allMsgNames(ac.ex.Schema))
		label := fmt.Sprintf("A %v | %v", ac.ex.Fv["construct"], ac.ex.Fv["context"])
		add(label+" | decls", de)
		if cm == nil {
			continue
		}
		me := findMethod(cm, "Client", "Do")
		if me == nil || me.Req == nil || me.Result == nil {
			add(label+" | decls", map[string]any{"event": "TsDecls", "parsed": false, "client": []any{}, "server": []any{}, "msgs": []string{}, "detail": "client class has no method do(req: T): Promise<R>"})
			continue
		}
		for _, mode := range modes {
			vt := vts[vkey{ci, mode}]
			// request: contract form of a value the Go server accepts, against the declared request interface
			add(label+" | request", map[string]any{"event": "TsCheck", "what": "request", "hasVal": true, "val": vt, "hasJson": false, "json": nullTree,
				"ty": me.Req.TLA(), "msg": ac.top, "pathVars": []string{}})
			for _, e := range ev2[fmt.Sprintf("%d/%d", ci, mode*10+2)] {
				if e["event"] == "Resp" && int(e["status"].(float64)) == 200 {
					if jt, err := jsonv.ParseJSON(unb64s(e["bodyB64"])); err == nil {
						add(label+" | result", map[string]any{"event": "TsCheck", "what": "result", "hasVal": true, "val": vt, "hasJson": true, "json": jt,
							"ty": me.Result.TLA(), "msg": ac.top, "pathVars": []string{}})
					}
				}
			}
		}
		if ci%16 == 0 {
			c.AddSample(map[string]any{"part": "A", "fv": ac.ex.Fv, "modes": modes})
		}
	}

	// ---------------- part B: URL-bound request fields, the argument the TS server hands to the handler
	resB := runMC(c, "MC_Ts", "MC_Ts.cfg", nil, true)
	type bcase struct {
		Verb  string `json:"verb"`
		Kind  string `json:"kind"`
		Enc   string `json:"enc"`
		Place string `json:"place"`
		Cls   string `json:"cls"`
	}
	rawsB := make([]string, 0, len(resB.Cases))
	for _, r := range resB.Cases {
		rawsB = append(rawsB, string(r))
	}
	sort.Strings(rawsB)
	rawsB = uniqStrings(rawsB)
	type bshape struct {
		idx  int
		in   string
		meth string
		svc  string
		pv   []string
	}
	shapes := map[string]*bshape{}
	var order []*bshape
	fileB := &abs.File{Name: "tb/svc.proto", Pkg: "tb.v1", GoPkg: "scratch/gen/tb;tb", Generate: true}
	fileB.Messages = append(fileB.Messages, &abs.Message{Name: "Out", Fields: []*abs.Field{{Name: "id", Num: 1, Kind: "string", Card: "one", Rules: abs.NoRules()}}})
	fileB.Enums = append(fileB.Enums, &abs.Enum{Name: "Color", Values: []*abs.EnumValue{{Name: "COLOR_UNSPECIFIED", Num: 0}, {Name: "COLOR_RED", Num: 1}, {Name: "COLOR_BLUE", Num: 2}}})
	var bcases []bcase
	for _, r := range rawsB {
		var bc bcase
		if err := json.Unmarshal([]byte(r), &bc); err != nil {
			c.Broken("bad exported case: %v", err)
		}
		bcases = append(bcases, bc)
		k := bc.Verb + "|" + bc.Kind + "|" + bc.Enc + "|" + bc.Place
		if _, ok := shapes[k]; ok {
			continue
		}
		sh := &bshape{idx: len(order)}
		sh.svc, sh.meth, sh.in = fmt.Sprintf("T%d", sh.idx), fmt.Sprintf("M%d", sh.idx), fmt.Sprintf("tb.v1.Rq%d", sh.idx)
		f := &abs.Field{Name: "v", Num: 1, Kind: bc.Kind, Card: "one", Rules: abs.NoRules()}
		if bc.Kind == "enum" {
			f.Ref = "tb.v1.Color"
		}
		if bc.Enc == "int64num" {
			f.Ann.Int64 = "NUMBER"
		}
		path := fmt.Sprintf("/t%d", sh.idx)
		switch bc.Place {
		case "path":
			path += "/{v}"
			sh.pv = []string{"v"}
		case "query":
			f.Ann.Query = true
		case "query_req":
			f.Ann.Query, f.Ann.QueryReq = true, true
		}
		if sh.pv == nil {
			sh.pv = []string{}
		}
		flds := []*abs.Field{f}
		if bc.Verb == "POST" {
			flds = append(flds, &abs.Field{Name: "note", Num: 2, Kind: "string", Card: "one", Rules: abs.NoRules()})
		}
		fileB.Messages = append(fileB.Messages, &abs.Message{Name: fmt.Sprintf("Rq%d", sh.idx), Fields: flds})
		fileB.Services = append(fileB.Services, &abs.Service{Name: sh.svc, Methods: []*abs.Method{{Name: sh.meth, In: sh.in, Out: "tb.v1.Out", HasCfg: true, Path: path, Verb: bc.Verb}}})
		shapes[k] = sh
		order = append(order, sh)
	}
	schemaB := &abs.Schema{Files: []*abs.File{fileB}}
	emB, err := w.Emit(set, schemaB, work.EmitOpts{Plugins: []string{"ts-client", "ts-server"}, NoGlue: true})
	if err != nil {
		c.Broken("%v", err)
	}
	if !emB.Results["ts-client"].OK() || !emB.Results["ts-server"].OK() {
		rp := c.WriteReplay(map[string]any{"property": c.ID, "stage": "generate", "error": emB.Results["ts-client"].Error + " / " + emB.Results["ts-server"].Error})
		c.Violation(rp, "a TS plugin refused the URL-field family: "+firstN(emB.Results["ts-client"].Error+emB.Results["ts-server"].Error, 300))
		c.Done()
	}
	var tsCli, tsSrv, cliSrc, srvSrc string
	for side, dst := range map[string]*string{"ts-client": &tsCli, "ts-server": &tsSrv} {
		for _, f := range emB.Results[side].Files {
			p := filepath.Join(w.Root, "ts", side, f.Name)
			_ = os.MkdirAll(filepath.Dir(p), 0o755)
			_ = os.WriteFile(p, []byte(f.Content), 0o644)
			*dst = p
			if side == "ts-client" {
				cliSrc = f.Content
			} else {
				srvSrc = f.Content
			}
		}
	}
	var svcNames []string
	for _, sh := range order {
		svcNames = append(svcNames, sh.svc)
	}
	var tops []map[string]any
	type bprep struct {
		bc bcase
		sh *bshape
	}
	var bpreps []*bprep
	for _, bc := range bcases {
		sh := shapes[bc.Verb+"|"+bc.Kind+"|"+bc.Enc+"|"+bc.Place]
		m, err := val.New(emB.Built.Files, sh.in)
		if err != nil {
			c.Broken("%v", err)
		}
		fd := m.Descriptor().Fields().ByName("v")
		if bc.Kind == "enum" {
			m.Set(fd, protoreflect.ValueOfEnum(map[string]protoreflect.EnumNumber{"ord": 1, "zero": 0, "max": 2}[bc.Cls]))
		} else {
			txt, ok := classText(bc.Kind, bc.Cls)
			if !ok || (bc.Place == "path" && txt == "") {
				continue
			}
			v, err := wireParseScalar(fd, txt)
			if err != nil {
				continue
			}
			m.Set(fd, v)
		}
		if nf := m.Descriptor().Fields().ByName("note"); nf != nil {
			m.Set(nf, protoreflect.ValueOfString("n"))
		}
		js, _ := protojson.MarshalOptions{EmitUnpopulated: true}.Marshal(m)
		if bc.Enc == "int64num" {
			// contract form of a NUMBER-encoded 64-bit field is a JSON number
			var o map[string]any
			_ = json.Unmarshal(js, &o)
			if s, ok := o["v"].(string); ok {
				o["v"] = json.Number(s)
			}
			js, _ = json.Marshal(o)
		}
		id := len(bpreps) + 1
		tops = append(tops, map[string]any{"op": "tspair", "case": id, "call": 1, "module": tsCli, "serverModule": tsSrv, "service": sh.svc, "services": svcNames,
			"rpc": sh.meth, "req": json.RawMessage(js), "handler": map[string]any{"kind": "ok", "value": map[string]any{"id": "x"}}})
		bpreps = append(bpreps, &bprep{bc: bc, sh: sh})
	}
	tev := runTS(c, w.Root, tops)
	byCase := map[int][]map[string]any{}
	for _, e := range tev {
		if id, ok := e["case"].(float64); ok {
			byCase[int(id)] = append(byCase[int(id)], e)
		}
	}
	raw(jsonLine(map[string]any{"event": "Schema", "schema": schemaB, "domain": "valid", "fv": map[string]any{"family": "url_fields"}}))
	deB, _, smB := tsDeclsEvent(cliSrc, srvSrc, allMsgNames(schemaB))
	add("B decls", deB)
	if smB != nil {
		for i, bp := range bpreps {
			id := i + 1
			label := fmt.Sprintf("B %s %s %s %s", bp.bc.Verb, bp.bc.Kind, bp.bc.Enc, bp.bc.Place)
			hm := findMethod(smB, "Handler", bp.sh.meth)
			if hm == nil || hm.Req == nil {
				c.Broken("handler interface of %s has no method for %s", bp.sh.svc, bp.sh.meth)
			}
			saw := false
			for _, e := range byCase[id] {
				switch e["event"] {
				case "TsHandlerSaw":
					saw = true
					b, _ := json.Marshal(e["arg"])
					jt, err := jsonv.ParseJSON(b)
					if err != nil {
						jt = nullTree
					}
					add(label, map[string]any{"event": "TsCheck", "what": "handler", "hasVal": false, "val": nullTree, "hasJson": true, "json": jt,
						"ty": hm.Req.TLA(), "msg": bp.sh.in, "pathVars": bp.sh.pv, "arg": firstN(string(b), 200)})
				case "TsLoadError", "DriverError":
					c.Broken("ts driver: %v", e["detail"])
				}
			}
			if !saw {
				add(label, map[string]any{"event": "TsCheck", "what": "handler", "hasVal": false, "val": nullTree, "hasJson": true, "json": nullTree,
					"ty": hm.Req.TLA(), "msg": bp.sh.in, "pathVars": bp.sh.pv, "arg": "the handler was not reached"})
			}
			if i%40 == 0 {
				c.AddSample(map[string]any{"part": "B", "case": bp.bc})
			}
		}
	}

	// ---------------- judgement
	r := runInventory(c, "Trace_Ts", "Trace_Ts.cfg", lines, nil)
	accepted, bad := 0, 0
	table := map[string]int{}
	reported := map[string]bool{}
	for ln, v := range r.Verdicts {
		lb := owner[ln-1]
		if lb == "" {
			continue
		}
		table[lb+" | "+v.How]++
		if v.OK {
			accepted++
			if strings.HasPrefix(v.How, "D_") {
				c.Observe(v.How)
			}
			continue
		}
		bad++
		key := lb + v.How
		if !reported[key] && len(reported) < 25 {
			reported[key] = true
			var e map[string]any
			_ = json.Unmarshal([]byte(lines[ln-1]), &e)
			delete(e, "client")
			delete(e, "server")
			var decls any
			for k := ln - 1; k >= 1; k-- {
				if strings.HasPrefix(lines[k-1], `{"client"`) || strings.Contains(lines[k-1][:min(len(lines[k-1]), 4000)], `"event":"TsDecls"`) {
					var de map[string]any
					_ = json.Unmarshal([]byte(lines[k-1]), &de)
					decls = de["client"]
					break
				}
			}
			rp := c.WriteReplay(map[string]any{"property": c.ID, "spec": "Trace_Ts", "label": lb, "verdict": v.How, "event": e, "contract_form": r.Expects[ln], "client_decls": decls, "seed": c.Seed})
			c.Violation(rp, fmt.Sprintf("%s: %s %s", lb, v.How, firstN(fmt.Sprint(e["arg"])+fmt.Sprint(e["detail"]), 200)))
		}
	}
	dumpTable(table)
	c.Set("evaluations", evals)
	c.Set("distinct_nontrivial", len(table))
	c.Set("cases_outside_domain", nSkipped)
	c.Set("rule", "one evaluation = one TsDecls / TsCheck event judged by TLC: Inhabits(value, declared type) on the real emitted declarations, for the contract form of requests, the wire JSON of the real Go server and the argument the real TS server hands to a handler")
	c.AddInt("traces_validated_against_impl", int64(accepted))
	c.Infof("TLC judged %d instances against the real TypeScript declarations: %d accepted, %d rejected (Dev = %v)", accepted+bad, accepted, bad, c.Dev())
	c.Done()
}
