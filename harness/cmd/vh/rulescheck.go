package main

import (
	"bufio"
	"bytes"
	"encoding/json"
	"fmt"
	"math"
	"math/big"
	"os/exec"
	"path/filepath"
	"sort"
	"strconv"
	"strings"

	"verifharness/abs"
	"verifharness/chk"
	"verifharness/jsonv"
	"verifharness/plug"
)

type ruleCase struct {
	Group  string `json:"group"`
	Rule   string `json:"rule"`
	Kind   string `json:"kind"`
	Bclass string `json:"bclass"`
	Enc    string `json:"enc"`
}

type probe struct {
	inst any            // JSON instance
	pos  map[string]any // positions record
	note string
}

func kindRange(kind string) (lo, hi *big.Int) {
	p := func(s string) *big.Int { v, _ := new(big.Int).SetString(s, 10); return v }
	switch kind {
	case "int32", "sint32", "sfixed32":
		return p("-2147483648"), p("2147483647")
	case "uint32", "fixed32":
		return p("0"), p("4294967295")
	case "int64", "sint64", "sfixed64":
		return p("-9223372036854775808"), p("9223372036854775807")
	case "uint64", "fixed64":
		return p("0"), p("18446744073709551615")
	}
	return nil, nil
}

func isFloatKind(k string) bool { return k == "float" || k == "double" }
func is64(k string) bool {
	return k == "int64" || k == "sint64" || k == "sfixed64" || k == "uint64" || k == "fixed64"
}

// intBound picks the bound of a class for an integer kind.
func intBound(kind, class string) *big.Int {
	lo, hi := kindRange(kind)
	switch class {
	case "neg":
		return big.NewInt(-5)
	case "zero":
		return big.NewInt(0)
	case "small":
		return big.NewInt(7)
	case "big53":
		v, _ := new(big.Int).SetString("9007199254740993", 10)
		return v
	case "extreme":
		// one inside the top of the range so that "above" still exists
		return new(big.Int).Sub(hi, big.NewInt(1))
	}
	_ = lo
	return big.NewInt(1)
}

func floatBound(kind, class string) float64 {
	switch class {
	case "neg":
		return -2.5
	case "zero":
		return 0
	case "small":
		return 7.5
	case "inexact":
		return 0.1
	case "big53":
		return 9007199254740992 // 2^53 (exactly representable)
	case "extreme":
		if kind == "float" {
			return float64(math.MaxFloat32) / 2
		}
		return math.MaxFloat64 / 2
	}
	return 1
}

func basePos() map[string]any {
	return map[string]any{"gt": "at", "gte": "at", "lt": "at", "lte": "at", "inSet": false, "eqConst": false, "minLen": "at", "maxLen": "at",
		"matches": false, "minItems": "at", "maxItems": "at", "dups": false, "minPairs": "at", "maxPairs": "at"}
}

func rel(c int) string {
	switch {
	case c < 0:
		return "below"
	case c > 0:
		return "above"
	}
	return "at"
}

// checkC19 : OpenAPI constraints accept exactly what the declared validation rules accept.
func checkC19(c *chk.Ctx) {
	set := pluginSet(c)
	res := runMC(c, "MC_Rules", "MC_Rules.cfg", nil, true)
	var cases []ruleCase
	raws := make([]string, 0, len(res.Cases))
	for _, r := range res.Cases {
		raws = append(raws, string(r))
	}
	sort.Strings(raws)
	for _, r := range raws {
		var rc ruleCase
		if err := json.Unmarshal([]byte(r), &rc); err != nil {
			c.Broken("bad exported case: %v", err)
		}
		cases = append(cases, rc)
	}
	if len(cases) == 0 {
		c.Broken("TLC exported no cases")
	}
	// ---- concretise: one field per case, 40 fields per message
	type fcase struct {
		rc     ruleCase
		field  *abs.Field
		msg    string
		probes []probe
		bigB   bool
	}
	var fcs []*fcase
	file := &abs.File{Name: "rules/svc.proto", Pkg: "rules.v1", GoPkg: "scratch/gen/rules;rules", Generate: true}
	top := &abs.Message{Name: "Top"}
	var cur *abs.Message
	for i, rc := range cases {
		if i%40 == 0 {
			cur = &abs.Message{Name: fmt.Sprintf("R%d", i/40)}
			file.Messages = append(file.Messages, cur)
			top.Fields = append(top.Fields, &abs.Field{Name: fmt.Sprintf("r%d", i/40), Num: int32(i/40 + 1), Kind: "message", Card: "one", Ref: "rules.v1." + cur.Name, Rules: abs.NoRules()})
		}
		f := &abs.Field{Name: fmt.Sprintf("f%d", i), Num: int32(i%40 + 1), Kind: rc.Kind, Card: "one", Rules: abs.NoRules()}
		fc := &fcase{rc: rc, field: f, msg: cur.Name}
		if rc.Enc == "int64_number" {
			f.Ann.Int64 = "NUMBER"
		}
		asString := is64(rc.Kind) && rc.Enc != "int64_number"
		inst := func(v *big.Int) any {
			if asString {
				return v.String()
			}
			return json.Number(v.String())
		}
		switch rc.Group {
		case "num":
			if isFloatKind(rc.Kind) {
				b := floatBound(rc.Kind, rc.Bclass)
				bits := 64
				if rc.Kind == "float" {
					bits = 32
					b = float64(float32(b))
				}
				fs := func(x float64) string { return strconv.FormatFloat(x, 'g', -1, bits) }
				next := func(x float64, up bool) float64 {
					dir := math.Inf(-1)
					if up {
						dir = math.Inf(1)
					}
					if bits == 32 {
						return float64(math.Nextafter32(float32(x), float32(dir)))
					}
					return math.Nextafter(x, dir)
				}
				hi := b * 1.5
				if b == 0 {
					hi = 3
				}
				if b < 0 {
					hi = b / 2
				}
				if bits == 32 {
					hi = float64(float32(hi))
				}
				vals := []float64{next(b, false), b, next(b, true), hi}
				setRules(f, rc.Rule, fs(b), fs(hi), fs(next(hi, true)))
				for _, v := range vals {
					p := basePos()
					for _, k := range []string{"gt", "gte"} {
						p[k] = rel(cmpF(v, b))
					}
					for _, k := range []string{"lt", "lte"} {
						p[k] = rel(cmpF(v, b))
					}
					if rc.Rule == "gt_lt" || rc.Rule == "gte_lte" {
						p["lt"], p["lte"] = rel(cmpF(v, hi)), rel(cmpF(v, hi))
					}
					if rc.Rule == "gte_lte_eq" {
						p["lt"], p["lte"] = rel(cmpF(v, b)), rel(cmpF(v, b))
					}
					p["inSet"] = v == b || v == hi
					p["eqConst"] = v == b
					fc.probes = append(fc.probes, probe{inst: json.Number(fs(v)), pos: p, note: fs(v)})
				}
				fc.bigB = rc.Bclass == "big53" || rc.Bclass == "extreme"
			} else {
				b := intBound(rc.Kind, rc.Bclass)
				lo, hiR := kindRange(rc.Kind)
				hi := new(big.Int).Add(b, big.NewInt(2))
				if hi.Cmp(hiR) > 0 {
					hi = new(big.Int).Set(hiR)
				}
				setRules(f, rc.Rule, b.String(), hi.String(), new(big.Int).Add(hi, big.NewInt(0)).String())
				cands := []*big.Int{new(big.Int).Sub(b, big.NewInt(1)), b, new(big.Int).Add(b, big.NewInt(1)), hi, new(big.Int).Add(hi, big.NewInt(1))}
				for _, v := range cands {
					if v.Cmp(lo) < 0 || v.Cmp(hiR) > 0 {
						continue
					}
					p := basePos()
					for _, k := range []string{"gt", "gte", "lt", "lte"} {
						p[k] = rel(v.Cmp(b))
					}
					if rc.Rule == "gt_lt" || rc.Rule == "gte_lte" {
						p["lt"], p["lte"] = rel(v.Cmp(hi)), rel(v.Cmp(hi))
					}
					if rc.Rule == "gte_lte_eq" {
						p["lt"], p["lte"] = rel(v.Cmp(b)), rel(v.Cmp(b))
					}
					p["inSet"] = v.Cmp(b) == 0 || v.Cmp(hi) == 0
					p["eqConst"] = v.Cmp(b) == 0
					fc.probes = append(fc.probes, probe{inst: inst(v), pos: p, note: v.String()})
				}
				two53, _ := new(big.Int).SetString("9007199254740992", 10)
				fc.bigB = new(big.Int).Abs(b).Cmp(two53) > 0
			}
		case "str":
			strs := func(n int) string { return strings.Repeat("é", n) }
			switch rc.Rule {
			case "minLen":
				f.Rules.MinLen = 3
			case "maxLen":
				f.Rules.MaxLen = 5
			case "len_range":
				f.Rules.MinLen, f.Rules.MaxLen = 3, 5
			case "pattern":
				f.Rules.Pattern = "^[a-z]+[0-9]{2}$"
			case "in":
				f.Rules.In = []string{"alpha", "beta"}
			case "const":
				f.Rules.HasConst, f.Rules.Const = true, "alpha"
			case "in_numeric_looking":
				f.Rules.In = []string{"123", "true", "1e3"}
			case "required":
				f.Rules.Required = true
			default:
				f.Rules.Format = rc.Rule
			}
			for _, s := range []string{strs(2), strs(3), strs(4), strs(5), strs(6), "ab12", "AB12", "alpha", "gamma", "123", "true"} {
				p := basePos()
				n := len([]rune(s))
				p["minLen"], p["maxLen"] = rel(n-3), rel(n-5)
				p["matches"] = s == "ab12"
				p["inSet"] = contains1(f.Rules.In, s)
				p["eqConst"] = s == "alpha"
				fc.probes = append(fc.probes, probe{inst: s, pos: p, note: s})
			}
			if strings.HasPrefix(rc.Rule, "in") {
				// the JSON-typed twins of numeric-looking members must not be accepted in their place
				for _, v := range []any{json.Number("123"), true} {
					p := basePos()
					fc.probes = append(fc.probes, probe{inst: v, pos: p, note: fmt.Sprint(v) + " (non-string)"})
				}
			}
		case "rep":
			f.Card = "rep"
			switch rc.Rule {
			case "minItems":
				f.Rules.MinItems = 2
			case "maxItems":
				f.Rules.MaxItems = 3
			case "items_range":
				f.Rules.MinItems, f.Rules.MaxItems = 2, 3
			case "unique":
				f.Rules.Unique = true
			}
			mk := func(n int, dup bool) []any {
				var out []any
				for k := 0; k < n; k++ {
					idx := k
					if dup && k == n-1 && n > 1 {
						idx = 0
					}
					if rc.Kind == "string" {
						out = append(out, fmt.Sprintf("v%d", idx))
					} else {
						out = append(out, json.Number(strconv.Itoa(idx)))
					}
				}
				if out == nil {
					out = []any{}
				}
				return out
			}
			for _, n := range []int{1, 2, 3, 4} {
				for _, dup := range []bool{false, true} {
					if dup && n < 2 {
						continue
					}
					p := basePos()
					p["minItems"], p["maxItems"], p["dups"] = rel(n-2), rel(n-3), dup
					fc.probes = append(fc.probes, probe{inst: mk(n, dup), pos: p, note: fmt.Sprintf("%d items dup=%v", n, dup)})
				}
			}
		case "req", "notreq":
			// the rule "required" (or its absence) on a field of the given shape; no value probes: what is
			// judged is whether the field is listed under "required"
			f.Rules.Required = rc.Group == "req"
			switch rc.Kind {
			case "message":
				f.Ref = "rules.v1.Out"
			case "enum":
				f.Ref = "rules.v1.Level"
			}
			switch rc.Rule {
			case "opt":
				f.Card = "opt"
			case "rep":
				f.Card = "rep"
			case "map":
				f.Card, f.KeyKind = "map", "string"
			case "oneof_member":
				f.Oneof = fmt.Sprintf("pick%d", i)
				cur.Oneofs = append(cur.Oneofs, &abs.Oneof{Name: f.Oneof})
			}
		case "map":
			f.Card, f.KeyKind = "map", "string"
			switch rc.Rule {
			case "minPairs":
				f.Rules.MinPairs = 2
			case "maxPairs":
				f.Rules.MaxPairs = 3
			}
			for _, n := range []int{1, 2, 3, 4} {
				m := map[string]any{}
				for k := 0; k < n; k++ {
					m[fmt.Sprintf("k%d", k)] = "v"
				}
				p := basePos()
				p["minPairs"], p["maxPairs"] = rel(n-2), rel(n-3)
				fc.probes = append(fc.probes, probe{inst: m, pos: p, note: fmt.Sprintf("%d pairs", n)})
			}
		}
		cur.Fields = append(cur.Fields, f)
		fcs = append(fcs, fc)
	}
	file.Messages = append(file.Messages, top, &abs.Message{Name: "Out", Fields: []*abs.Field{{Name: "ok", Num: 1, Kind: "bool", Card: "one", Rules: abs.NoRules()}}})
	file.Enums = append(file.Enums, &abs.Enum{Name: "Level", Values: []*abs.EnumValue{{Name: "LEVEL_UNSPECIFIED", Num: 0}, {Name: "LEVEL_HIGH", Num: 1}}})
	file.Services = []*abs.Service{{Name: "RuleService", Methods: []*abs.Method{{Name: "Do", In: "rules.v1.Top", Out: "rules.v1.Out", HasCfg: true, Path: "/do", Verb: "POST"}}}}
	schema := &abs.Schema{Files: []*abs.File{file}}
	b, err := abs.Build(schema)
	if err != nil {
		c.Broken("harness cannot express the rules schema: %v", err)
	}
	r := set.Run("openapiv3", b.Request("format=json", nil), plug.RunOpts{})
	if !r.OK() || len(r.Files) == 0 {
		rp := c.WriteReplay(map[string]any{"property": c.ID, "stage": "openapi", "error": r.Error})
		c.Violation(rp, "protoc-gen-openapiv3 failed on the rules family: "+firstN(r.Error, 300))
		c.Done()
	}
	var doc map[string]any
	dec := json.NewDecoder(strings.NewReader(r.Files[0].Content))
	dec.UseNumber()
	if err := dec.Decode(&doc); err != nil {
		c.Broken("emitted JSON document does not parse: %v", err)
	}
	schemas, _ := doc["components"].(map[string]any)["schemas"].(map[string]any)
	// ---- instrument: jsonschema on (field schema, probe)
	type q struct {
		ID       int `json:"id"`
		Schema   any `json:"schema"`
		Instance any `json:"instance"`
	}
	var in bytes.Buffer
	type pref struct{ fi, pi int }
	var refs []pref
	fieldSchema := func(fc *fcase) (map[string]any, map[string]any) {
		ms, _ := schemas[fc.msg].(map[string]any)
		props, _ := ms["properties"].(map[string]any)
		fs, _ := props[abs.JSONName(fc.field.Name)].(map[string]any)
		return ms, fs
	}
	for fi, fc := range fcs {
		_, fs := fieldSchema(fc)
		if fs == nil {
			continue
		}
		for pi, p := range fc.probes {
			bq, _ := json.Marshal(q{ID: len(refs), Schema: fs, Instance: p.inst})
			in.Write(bq)
			in.WriteByte('\n')
			refs = append(refs, pref{fi, pi})
		}
	}
	cmd := exec.Command("python3-vt", filepath.Join(plug.VerifDir(), "tools", "schema_check.py"))
	cmd.Stdin = &in
	var so, se bytes.Buffer
	cmd.Stdout, cmd.Stderr = &so, &se
	if err := cmd.Run(); err != nil {
		c.Broken("schema_check.py (python3-vt with jsonschema) failed: %v %s", err, firstN(se.String(), 300))
	}
	valid := map[int]bool{}
	sc := bufio.NewScanner(&so)
	sc.Buffer(make([]byte, 1<<20), 1<<26)
	for sc.Scan() {
		var o struct {
			ID    int  `json:"id"`
			Valid bool `json:"valid"`
		}
		if json.Unmarshal(sc.Bytes(), &o) == nil {
			valid[o.ID] = o.Valid
		}
	}
	if len(valid) != len(refs) {
		c.Broken("instrument answered %d of %d probes", len(valid), len(refs))
	}
	// ---- trace
	lines := []string{jsonLine(map[string]any{"event": "Schema", "schema": map[string]any{"files": []any{}}})}
	owner := []int{-1}
	note := []string{""}
	evals := 0
	add := func(fi int, n string, e map[string]any) {
		lines = append(lines, jsonLine(e))
		owner = append(owner, fi)
		note = append(note, n)
		evals++
	}
	for id, pr := range refs {
		fc := fcs[pr.fi]
		p := fc.probes[pr.pi]
		rules := rulesRecord(fc.field.Rules, fc.rc.Kind == "string")
		add(pr.fi, p.note, map[string]any{"event": "Probe", "what": "value", "kind": fc.rc.Kind, "card": fc.field.Card, "rules": rules, "pos": p.pos,
			"schemaAccepts": valid[id], "int64AsString": is64(fc.rc.Kind) && fc.rc.Enc != "int64_number", "bigBound": fc.bigB, "format": "json",
			"numericLooking": fc.rc.Rule == "in_numeric_looking",
			"required":       false, "listed": false, "published": ""})
	}
	for fi, fc := range fcs {
		ms, fs := fieldSchema(fc)
		if fs == nil {
			rp := c.WriteReplay(map[string]any{"property": c.ID, "case": fc.rc, "error": "no schema for the field in the emitted document"})
			c.Violation(rp, fmt.Sprintf("%v: the emitted document has no schema for field %s of %s", fc.rc, fc.field.Name, fc.msg))
			continue
		}
		listed := false
		if req, ok := ms["required"].([]any); ok {
			for _, x := range req {
				listed = listed || x == abs.JSONName(fc.field.Name)
			}
		}
		rules := rulesRecord(fc.field.Rules, fc.rc.Kind == "string")
		add(fi, "required", map[string]any{"event": "Probe", "what": "required", "kind": fc.rc.Kind, "card": fc.field.Card, "rules": rules, "pos": basePos(),
			"schemaAccepts": false, "int64AsString": false, "bigBound": false, "format": "", "required": fc.field.Rules.Required, "listed": listed, "published": "",
			"numericLooking": false})
		if fc.field.Rules.Format != "" {
			add(fi, "format", map[string]any{"event": "Probe", "what": "format", "kind": fc.rc.Kind, "card": fc.field.Card, "rules": rules, "pos": basePos(),
				"schemaAccepts": false, "int64AsString": false, "bigBound": false, "format": fc.field.Rules.Format, "required": false, "listed": false,
				"published": fmt.Sprint(fs["format"]), "numericLooking": false})
		}
	}
	rv := runInventory(c, "Trace_OpenApi", "Trace_OpenApi.cfg", lines, map[string]string{"Enforce": `{"C19"}`})
	accepted, bad := 0, 0
	table := map[string]int{}
	reported := map[string]bool{}
	for ln, v := range rv.Verdicts {
		fi := owner[ln-1]
		if fi < 0 {
			continue
		}
		fc := fcs[fi]
		table[fmt.Sprintf("%s | %s | %s | %s | %s | %s", fc.rc.Group, fc.rc.Rule, fc.rc.Kind, fc.rc.Bclass, fc.rc.Enc, v.How)]++
		if v.OK {
			accepted++
			if strings.HasPrefix(v.How, "D_") {
				c.Observe(v.How)
			}
			continue
		}
		bad++
		key := fmt.Sprintf("%v", fc.rc)
		if !reported[key] && len(reported) < 25 {
			reported[key] = true
			_, fs := fieldSchema(fc)
			rp := c.WriteReplay(map[string]any{"property": c.ID, "spec": "Trace_OpenApi", "case": fc.rc, "rules": fc.field.Rules, "field_schema": fs,
				"probe": note[ln-1], "event": json.RawMessage(lines[ln-1]), "verdict": v.How})
			fsj, _ := json.Marshal(fs)
			c.Violation(rp, fmt.Sprintf("%v probe %s: %s (emitted field schema %s)", fc.rc, note[ln-1], v.How, firstN(string(fsj), 200)))
		}
	}
	dumpTable(table)
	c.AddSample(map[string]any{"case": fcs[0].rc, "probes": len(fcs[0].probes)})
	c.AddSample(map[string]any{"case": fcs[len(fcs)/2].rc, "probes": len(fcs[len(fcs)/2].probes)})
	c.Set("evaluations", evals)
	c.Set("distinct_nontrivial", len(table))
	c.Set("rule", "one evaluation = one probe value at a known position relative to the rule's bounds (or one required / format probe), judged by TLC: RuleAccepts(position) must equal the instrument's verdict on the real emitted field schema")
	c.AddInt("traces_validated_against_impl", int64(accepted))
	c.Infof("TLC judged %d probes over %d fields: %d accepted, %d rejected (Dev = %v)", accepted+bad, len(fcs), accepted, bad, c.Dev())
	c.Done()
}

func cmpF(a, b float64) int {
	switch {
	case a < b:
		return -1
	case a > b:
		return 1
	}
	return 0
}

func contains1(xs []string, s string) bool {
	for _, x := range xs {
		if x == s {
			return true
		}
	}
	return false
}

func setRules(f *abs.Field, rule, b, hi, _ string) {
	switch rule {
	case "gt":
		f.Rules.Gt = b
	case "gte":
		f.Rules.Gte = b
	case "lt":
		f.Rules.Lt = b
	case "lte":
		f.Rules.Lte = b
	case "gt_lt":
		f.Rules.Gt, f.Rules.Lt = b, hi
	case "gte_lte":
		f.Rules.Gte, f.Rules.Lte = b, hi
	case "gte_lte_eq":
		f.Rules.Gte, f.Rules.Lte = b, b // a closed interval pinning exactly one value
	case "in":
		f.Rules.In = []string{b, hi}
	case "const":
		f.Rules.HasConst, f.Rules.Const = true, b
	}
}

func rulesRecord(r abs.Rules, isString bool) map[string]any {
	b, _ := json.Marshal(r)
	var m map[string]any
	_ = json.Unmarshal(b, &m)
	if m["in"] == nil {
		m["in"] = []string{}
	}
	m["isString"] = isString
	return m
}

var _ = jsonv.J
