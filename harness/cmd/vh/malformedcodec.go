package main

import (
	"bytes"
	"encoding/base64"
	"encoding/json"
	"fmt"
	"math/rand"
	"sort"
	"strings"

	"google.golang.org/protobuf/reflect/protoreflect"

	"verifharness/abs"
	"verifharness/chk"
	"verifharness/drv"
	"verifharness/jsonv"
	"verifharness/pipe"
	"verifharness/val"
	"verifharness/wire"
	"verifharness/work"
)

// malformedCodecShapes is the part of C11 quantified over "every message shape with custom
// decoders": for every construct x context of the JSON families (flatten, discriminated oneofs,
// unwrap, nullable, the encodings ...) the real go-http codec writes the contract form of a
// populated value, the document is made undecodable in one place (a member or element replaced by
// a value of a JSON type the field can never take, or the text truncated), and the real emitted
// server is asked with it.  Each exchange is one Trace_Wire segment with body class "malformed":
// the specification allows a 400 with a well-formed validation error naming the body, and
// nothing else (no dispatch, no 5xx, no panic).
func malformedCodecShapes(c *chk.Ctx) {
	set := pluginSet(c)
	res := runMC(c, "MC_Json", "MC_Json.cfg", nil, true)
	raws := make([]string, 0, len(res.Cases))
	for _, r := range res.Cases {
		raws = append(raws, string(r))
	}
	sort.Strings(raws)
	w, err := work.New()
	if err != nil {
		c.Broken("%v", err)
	}
	defer w.Close()
	type mcase struct {
		ex      *pipe.Exported
		built   *abs.Built
		pkg     string
		top     string
		skipped bool
	}
	var cases []*mcase
	for i, raw := range raws {
		ex, err := pipe.ParseExported(json.RawMessage(raw), fmt.Sprintf("m%dh", i))
		if err != nil {
			c.Broken("bad exported case: %v", err)
		}
		mc := &mcase{ex: ex, pkg: fmt.Sprintf("gen/m%dh", i), top: svcFile(ex.Schema).Services[0].Methods[0].In}
		em, err := w.Emit(set, ex.Schema, work.EmitOpts{Plugins: []string{"go-http"}, PerFile: true})
		if err != nil {
			c.Broken("%v", err)
		}
		mc.skipped = !em.Results["go-http"].OK()
		mc.built = em.Built
		cases = append(cases, mc)
	}
	fails, _, err := w.BuildPkgs(nil, "./gen/...")
	if err != nil {
		c.Broken("go build: %v", err)
	}
	var specs []work.PkgSpec
	for _, mc := range cases {
		if _, bad := fails[mc.pkg]; bad {
			mc.skipped = true // C13's business
		}
		if !mc.skipped {
			specs = append(specs, work.PkgSpec{ImportPath: "scratch/" + mc.pkg, Server: true})
		}
	}
	if err := w.WriteDriver("drv", specs); err != nil {
		c.Broken("%v", err)
	}
	bin, bout, err := w.BuildBinary("./drv", "drv")
	if err != nil {
		c.Broken("driver does not build: %s", firstN(bout, 1500))
	}
	// phase 1: the contract form of a populated and of a boundary value, from the real codec
	modes := []int{1, 2}
	var ops []drv.Op
	zero := map[int]string{}
	for ci, mc := range cases {
		if mc.skipped {
			continue
		}
		tr := jsonv.NewTree(mc.ex.Schema)
		md, err := mc.built.Files.FindDescriptorByName(protoreflect.FullName(mc.top))
		if err != nil {
			c.Broken("%v", err)
		}
		for _, mode := range modes {
			v := jsonv.GenValue(md.(protoreflect.MessageDescriptor), mode, c.Seed, tr.Known)
			ops = append(ops, drv.Op{Op: "codec", Case: ci, Call: mode, Type: mc.top, ValB64: base64.StdEncoding.EncodeToString(val.Det(v))})
		}
		zero[ci] = base64.StdEncoding.EncodeToString(nil)
	}
	ev1 := runDrv(c, bin, w.Root, ops)
	hasRules := map[int]bool{}
	for ci, mc := range cases {
		var walk func(ms []*abs.Message)
		walk = func(ms []*abs.Message) {
			for _, m := range ms {
				for _, f := range m.Fields {
					if !f.Rules.IsZero() {
						hasRules[ci] = true
					}
				}
				walk(m.Nested)
			}
		}
		for _, f := range mc.ex.Schema.Files {
			walk(f.Messages)
		}
	}
	// phase 2: the mutants
	per := 10
	if c.Thorough() {
		per = 0
	}
	rnd := rand.New(rand.NewSource(c.Seed))
	type mutant struct {
		ci    int
		valid []byte
		body  []byte
		how   string
		cls   string // malformed: no decoder may accept it | lenient: accepted or refused, but answered
	}
	var muts []*mutant
	var ops2 []drv.Op
	for ci, mc := range cases {
		if mc.skipped {
			continue
		}
		for _, mode := range modes {
			for _, e := range ev1[fmt.Sprintf("%d/%d", ci, mode)] {
				if e["event"] != "Codec" || e["encOk"] != true {
					continue
				}
				valid := unb64s(e["jsonB64"])
				ms := undecodable(valid, freeFormNames(mc.ex.Schema))
				ms = append(ms, twoSpellings(valid, mc.ex.Schema.Index().Msgs[mc.top])...)
				if per > 0 && len(ms) > per {
					rnd.Shuffle(len(ms), func(i, j int) { ms[i], ms[j] = ms[j], ms[i] })
					ms = ms[:per]
				}
				// (where the schema carries validation rules a decodable document may be refused for a rule
				// instead: those answers are C10's / C19's business, the doubtful class is left out there)
				var us []mutBody
				if !hasRules[ci] {
					us = doubtful(valid)
				}
				if per > 0 && len(us) > per {
					rnd.Shuffle(len(us), func(i, j int) { us[i], us[j] = us[j], us[i] })
					us = us[:per]
				}
				for i := range ms {
					ms[i].cls = "malformed"
				}
				for i := range us {
					us[i].cls = "lenient"
				}
				for _, m := range append(ms, us...) {
					id := len(muts)
					muts = append(muts, &mutant{ci: ci, valid: valid, body: m.body, how: m.how, cls: m.cls})
					ops2 = append(ops2, drv.Op{Op: "raw", Case: id, Call: 1, Pkg: mc.pkg, Verb: "POST", URL: "/api/do", Framing: mutFraming(id),
						Headers: [][2]string{{"Content-Type", "application/json"}}, BodyB64: base64.StdEncoding.EncodeToString(m.body),
						Handler: drv.HandlerCfg{Kind: "ok", RespType: mc.top, RespB64: zero[ci]}})
				}
			}
		}
	}
	ev2 := runDrv(c, bin, w.Root, ops2)
	segs := make([][]string, len(muts))
	for id := range muts {
		lines := []string{jsonLine(map[string]any{"event": "Req", "case": id, "req": wire.BareRequest(muts[id].cls, mutFraming(id))})}
		evs := ev2[fmt.Sprintf("%d/1", id)]
		sort.SliceStable(evs, func(i, j int) bool { return evs[i]["seq"].(float64) < evs[j]["seq"].(float64) })
		if len(evs) == 0 {
			c.Broken("no events for mutant %d", id)
		}
		for _, e := range evs {
			switch e["event"] {
			case "BodyRead":
				lines = append(lines, jsonLine(map[string]any{"event": "BodyRead"}))
			case "HandlerSaw":
				lines = append(lines, jsonLine(map[string]any{"event": "HandlerSaw", "saw": []any{}}))
			case "HookCalled":
				lines = append(lines, jsonLine(map[string]any{"event": "HookCalled", "errKind": e["errKind"]}))
			case "Resp":
				lines = append(lines, jsonLine(wire.AbstractRespBare(e)))
			case "ServerPanic":
				lines = append(lines, jsonLine(map[string]any{"event": "ServerPanic"}))
			case "Timeout":
				lines = append(lines, jsonLine(map[string]any{"event": "Timeout"}))
			case "DriverError":
				c.Broken("driver: %v", e["detail"])
			}
		}
		segs[id] = lines
	}
	acc, rej, runs, err := wire.ValidateSegments(segs, c.Dev(), 25)
	if err != nil {
		c.Broken("%v", err)
	}
	shapes := map[string]bool{}
	for _, m := range muts {
		shapes[fmt.Sprint(cases[m.ci].ex.Fv)] = true
	}
	c.Infof("custom decoders: %d undecodable / doubtful bodies over %d message shapes: %d accepted by Trace_Wire, %d rejected (%d TLC runs)", len(muts), len(shapes), len(acc), len(rej), runs)
	c.Set("codec_shape_bodies", len(muts))
	c.Set("codec_shapes", len(shapes))
	c.AddInt("traces_validated_against_impl", int64(len(acc)))
	ids := make([]int, 0, len(rej))
	for id := range rej {
		ids = append(ids, id)
	}
	sort.Ints(ids)
	for _, id := range ids {
		m := muts[id]
		var evs []any
		for _, e := range ev2[fmt.Sprintf("%d/1", id)] {
			evs = append(evs, e)
		}
		rp := c.WriteReplay(map[string]any{"property": c.ID, "part": "custom decoders", "fv": cases[m.ci].ex.Fv, "validBody": string(m.valid),
			"body": string(m.body), "mutation": m.how, "observed": evs, "rejected": rej[id], "seed": c.Seed})
		c.Violation(rp, fmt.Sprintf("%v: body %q (%s) rejected by Trace_Wire at: %s", cases[m.ci].ex.Fv, firstN(string(m.body), 200), m.how, firstN(rej[id], 300)))
	}
}

type mutBody struct {
	body []byte
	how  string
	cls  string
}

// wrongType returns a JSON value of a type that no field whose contract form is v can take.
func wrongType(v any) (any, bool) {
	switch v.(type) {
	case map[string]any:
		return json.Number("7"), true
	case []any:
		return map[string]any{"zz": json.Number("1")}, true
	case string, json.Number, bool:
		return map[string]any{"zz": json.Number("1")}, true
	}
	return nil, false // null: whether another value is acceptable depends on the field
}

// undecodable lists documents derived from a decodable one that no decoder of the message may accept.
func undecodable(valid []byte, free map[string]bool) []mutBody {
	var out []mutBody
	dec := json.NewDecoder(bytes.NewReader(valid))
	dec.UseNumber()
	var doc any
	if err := dec.Decode(&doc); err != nil {
		return nil
	}
	emit := func(how string) {
		b, err := json.Marshal(doc)
		if err == nil && !bytes.Equal(b, valid) {
			out = append(out, mutBody{body: b, how: how})
		}
	}
	// replace, emit, restore - at every position down to depth 3
	var walk func(v any, path string, depth int)
	walk = func(v any, path string, depth int) {
		switch t := v.(type) {
		case map[string]any:
			keys := make([]string, 0, len(t))
			for k := range t {
				keys = append(keys, k)
			}
			sort.Strings(keys)
			for _, k := range keys {
				old := t[k]
				if free[k] {
					continue // any JSON value is a value of this member (Struct, Value, ListValue, Any)
				}
				if w, ok := wrongType(old); ok {
					t[k] = w
					emit(fmt.Sprintf("%s.%s: %T replaced by %T", path, k, old, w))
					t[k] = old
				}
				if depth < 3 {
					walk(old, path+"."+k, depth+1)
				}
			}
		case []any:
			if len(t) == 0 {
				return
			}
			i := len(t) - 1
			old := t[i]
			if w, ok := wrongType(old); ok {
				t[i] = w
				emit(fmt.Sprintf("%s[%d]: %T replaced by %T", path, i, old, w))
				t[i] = old
			}
			if depth < 3 {
				walk(old, fmt.Sprintf("%s[%d]", path, i), depth+1)
			}
		}
	}
	walk(doc, "$", 1)
	// a complete document followed by more bytes is not a JSON text
	for _, tail := range []string{"xyz", "]", "}", string(valid), " {\"trunc", ",", "\x00"} {
		out = append(out, mutBody{body: append(append([]byte{}, valid...), tail...), how: "trailing bytes " + fmt.Sprintf("%q", firstN(tail, 12))})
	}
	// truncations (a proper prefix of a JSON object / array text is never a JSON text)
	if len(valid) > 2 {
		for _, cut := range []int{len(valid) - 1, len(valid) / 2, 1} {
			out = append(out, mutBody{body: append([]byte{}, valid[:cut]...), how: fmt.Sprintf("truncated at %d", cut)})
		}
	}
	return out
}

// doubtful lists documents derived from a decodable one whose members keep their JSON type but get
// another content: a short or empty string where a date, a number, an enum name or base64 text may be
// expected, a number far out of every range, a null element in a list.  Whether a decoder accepts
// such a document depends on the field; what C11 demands either way is an ANSWER (a dispatch of a
// decoded request or a well-formed 400) - body class "lenient" of SebufWire.
func doubtful(valid []byte) []mutBody {
	var out []mutBody
	dec := json.NewDecoder(bytes.NewReader(valid))
	dec.UseNumber()
	var doc any
	if err := dec.Decode(&doc); err != nil {
		return nil
	}
	emit := func(how string) {
		b, err := json.Marshal(doc)
		if err == nil && !bytes.Equal(b, valid) {
			out = append(out, mutBody{body: b, how: how})
		}
	}
	variants := func(v any) []any {
		switch v.(type) {
		case string:
			return []any{"", "x", "2024", "-", strings.Repeat("9", 40)}
		case json.Number:
			return []any{json.Number("1e400"), json.Number("-1"), json.Number("0.5"), json.Number("99999999999999999999999")}
		case []any:
			return []any{[]any{nil}, append(append([]any{}, v.([]any)...), nil)}
		}
		return nil
	}
	var walk func(v any, path string, depth int)
	walk = func(v any, path string, depth int) {
		switch t := v.(type) {
		case map[string]any:
			keys := make([]string, 0, len(t))
			for k := range t {
				keys = append(keys, k)
			}
			sort.Strings(keys)
			for _, k := range keys {
				old := t[k]
				for _, nv := range variants(old) {
					t[k] = nv
					emit(fmt.Sprintf("%s.%s: content %v", path, k, firstN(fmt.Sprint(nv), 20)))
				}
				t[k] = old
				if depth < 3 {
					walk(old, path+"."+k, depth+1)
				}
			}
		case []any:
			if len(t) == 0 {
				return
			}
			i := len(t) - 1
			old := t[i]
			for _, nv := range variants(old) {
				t[i] = nv
				emit(fmt.Sprintf("%s[%d]: content %v", path, i, firstN(fmt.Sprint(nv), 20)))
			}
			t[i] = old
			if depth < 3 {
				walk(old, fmt.Sprintf("%s[%d]", path, i), depth+1)
			}
		}
	}
	walk(doc, "$", 1)
	return out
}

// mutFraming: every other mutant travels chunked (no announced length)
func mutFraming(id int) string {
	if id%2 == 1 {
		return "chunked"
	}
	return "sized"
}

// freeFormNames: the JSON names of the fields whose type takes arbitrary JSON (google.protobuf.Struct,
// Value, ListValue) or whose members depend on a type URL (Any): no replacement of a value below such a
// member is "a type no field can take".
func freeFormNames(s *abs.Schema) map[string]bool {
	out := map[string]bool{}
	var walk func(ms []*abs.Message)
	walk = func(ms []*abs.Message) {
		for _, m := range ms {
			for _, f := range m.Fields {
				switch f.Ref {
				case "google.protobuf.Struct", "google.protobuf.Value", "google.protobuf.ListValue", "google.protobuf.Any":
					out[f.JSON] = true
					out[f.Name] = true
				}
			}
			walk(m.Nested)
		}
	}
	for _, f := range s.Files {
		walk(f.Messages)
	}
	return out
}

// twoSpellings: a field of the request message given twice - under its JSON name with its value and under
// its proto name with a value of a type it cannot take. proto3 JSON knows a field under both names, so the
// document names one field twice and half of it is undecodable: no decoder of the message may accept it.
func twoSpellings(valid []byte, top *abs.Message) []mutBody {
	if top == nil {
		return nil
	}
	dec := json.NewDecoder(bytes.NewReader(valid))
	dec.UseNumber()
	var doc any
	if err := dec.Decode(&doc); err != nil {
		return nil
	}
	obj, ok := doc.(map[string]any)
	if !ok {
		return nil
	}
	var out []mutBody
	for _, f := range top.Fields {
		if f.JSON == "" || f.JSON == f.Name {
			continue
		}
		old, present := obj[f.JSON]
		if _, clash := obj[f.Name]; !present || clash {
			continue
		}
		w, ok := wrongType(old)
		if !ok {
			continue
		}
		obj[f.Name] = w
		if b, err := json.Marshal(obj); err == nil {
			out = append(out, mutBody{body: b, how: fmt.Sprintf("$.%s next to $.%s: the field twice, once with %T", f.Name, f.JSON, w)})
		}
		delete(obj, f.Name)
	}
	return out
}
