package main

import (
	"encoding/base64"
	"encoding/json"
	"fmt"
	"net/url"
	"sort"
	"strings"

	"google.golang.org/protobuf/encoding/protojson"
	"google.golang.org/protobuf/proto"
	"google.golang.org/protobuf/reflect/protoreflect"
	"google.golang.org/protobuf/types/dynamicpb"

	"verifharness/abs"
	"verifharness/chk"
	"verifharness/drv"
	"verifharness/trace"
	"verifharness/val"
	"verifharness/work"
)

type callCase struct {
	Verb    string `json:"verb"`
	Kind    string `json:"kind"`
	Pcls    string `json:"pcls"`
	Qcls    string `json:"qcls"`
	Bshape  string `json:"bshape"`
	Bcls    string `json:"bcls"`
	Ctype   string `json:"ctype"`
	Handler string `json:"handler"`
	Route   string `json:"route"`
}

// classText: the text of a value class for a scalar kind ("" + false = the class does not exist).
func classText(kind, cls string) (string, bool) {
	switch cls {
	case "ord":
		m := map[string]string{"string": "hello", "int32": "41", "int64": "1234567", "uint32": "42", "uint64": "7654321", "sint32": "-41",
			"sfixed64": "-1234567", "fixed32": "43", "bool": "true", "float": "1.5", "double": "2.25"}
		return m[kind], true
	case "zero":
		m := map[string]string{"string": "", "bool": "false"}
		if v, ok := m[kind]; ok {
			return v, true
		}
		return "0", true
	case "min":
		m := map[string]string{"int32": "-2147483648", "int64": "-9223372036854775808", "sint32": "-2147483648", "sfixed64": "-9223372036854775808",
			"float": "-3.4028235e+38", "double": "-1.7976931348623157e+308"}
		v, ok := m[kind]
		return v, ok
	case "max":
		m := map[string]string{"int32": "2147483647", "int64": "9223372036854775807", "uint32": "4294967295", "uint64": "18446744073709551615",
			"sint32": "2147483647", "sfixed64": "9223372036854775807", "fixed32": "4294967295", "float": "3.4028235e+38", "double": "1.7976931348623157e+308",
			"string": strings.Repeat("long-", 60)}
		v, ok := m[kind]
		return v, ok
	case "big53":
		m := map[string]string{"int64": "9007199254740993", "uint64": "9007199254740993", "sfixed64": "-9007199254740993", "double": "9007199254740993"}
		v, ok := m[kind]
		return v, ok
	case "nonascii":
		if kind == "string" {
			return "héllo wörld ✓ 漢字", true
		}
	case "urlreserved":
		if kind == "string" {
			return "a b/c?d&e=f%25+g#h;i", true
		}
	case "padded":
		if kind == "string" {
			return "  padded value \t\u00a0", true
		}
	}
	return "", false
}

func parseScalarText(fd protoreflect.FieldDescriptor, s string) (protoreflect.Value, error) {
	return wireParseScalar(fd, s)
}

// checkC01 : Go client to Go server, every RPC delivers the exact request and response.
func checkC01(c *chk.Ctx) {
	set := pluginSet(c)
	// design level: the client contract (SentMatches) composed with the server life cycle (SebufWire) and the
	// client's mapping of the answer - every allowed encoding x every schedule delivers the caller's value
	runMC(c, "MC_EndToEnd", "MC_EndToEnd.cfg", nil, false)
	if c.Thorough() {
		runMC(c, "MC_EndToEnd", "MC_EndToEnd_findings.cfg", nil, false)
	}
	res := runMC(c, "MC_Call", "MC_Call.cfg", nil, true)
	var cases []callCase
	raws := make([]string, 0, len(res.Cases))
	for _, r := range res.Cases {
		raws = append(raws, string(r))
	}
	sort.Strings(raws)
	raws = uniqStrings(raws)
	for i, r := range raws {
		var cc callCase
		if err := json.Unmarshal([]byte(r), &cc); err != nil {
			c.Broken("bad exported case: %v", err)
		}
		if false && (i+int(c.Seed))%3 != 0 && !(cc.Pcls == "ord" && cc.Qcls == "ord" && cc.Bcls == "ord") { // (no sampling: both tiers run every case)
			continue
		}
		cases = append(cases, cc)
	}
	// ---- shapes: one RPC per (verb, kind, bshape)
	type shape struct {
		idx  int
		key  string
		pkg  int
		in   string
		meth string
		svc  string
	}
	shapes := map[string]*shape{}
	var order []*shape
	files := map[int]*abs.File{}
	schema := &abs.Schema{}
	bodyVerb := func(v string) bool { return v == "POST" || v == "PUT" || v == "PATCH" }
	for _, cc := range cases {
		k := cc.Verb + "|" + cc.Kind + "|" + cc.Bshape + "|" + cc.Route
		if _, ok := shapes[k]; ok {
			continue
		}
		sh := &shape{idx: len(order), key: k}
		sh.pkg = sh.idx / 40
		f := files[sh.pkg]
		if f == nil {
			pk := fmt.Sprintf("cl%d", sh.pkg)
			f = &abs.File{Name: pk + "/svc.proto", Pkg: pk + ".v1", GoPkg: "scratch/gen/" + pk + ";" + pk, Generate: true}
			f.Messages = append(f.Messages,
				&abs.Message{Name: "Out", Fields: []*abs.Field{{Name: "id", Num: 1, Kind: "string", Card: "one", Rules: abs.NoRules()}, {Name: "n", Num: 2, Kind: "int64", Card: "one", Rules: abs.NoRules()}}},
				&abs.Message{Name: "N", Fields: []*abs.Field{{Name: "s", Num: 1, Kind: "string", Card: "one", Rules: abs.NoRules()}, {Name: "big_n", Num: 2, Kind: "uint64", Card: "one", Rules: abs.NoRules()}}})
			f.Enums = append(f.Enums, &abs.Enum{Name: "Color", Values: []*abs.EnumValue{{Name: "COLOR_UNSPECIFIED", Num: 0}, {Name: "COLOR_RED", Num: 1}, {Name: "COLOR_BLUE", Num: 2}}})
			files[sh.pkg] = f
			schema.Files = append(schema.Files, f)
		}
		pk := f.Pkg
		// service names repeat from package to package (S0 .. S39 in each), each service has a base path of its own
		sh.svc, sh.meth, sh.in = fmt.Sprintf("S%d", sh.idx%40), fmt.Sprintf("M%d", sh.idx), fmt.Sprintf("%s.Req%d", pk, sh.idx)
		msg := &abs.Message{Name: fmt.Sprintf("Req%d", sh.idx)}
		if cc.Route != "default" {
			msg.Fields = append(msg.Fields,
				&abs.Field{Name: "p", Num: 1, Kind: cc.Kind, Card: "one", Rules: abs.NoRules()},
				&abs.Field{Name: "q", Num: 2, Kind: cc.Kind, Card: "one", Rules: abs.NoRules(), Ann: abs.Ann{Query: true, QueryName: "query-q"}},
				&abs.Field{Name: "rq", Num: 3, Kind: cc.Kind, Card: "one", Rules: abs.NoRules(), Ann: abs.Ann{Query: true, QueryReq: true}},
				// rep: a repeated parameter of the case's kind (several elements: element position must not matter)
				&abs.Field{Name: "rep", Num: 6, Kind: cc.Kind, Card: "rep", Rules: abs.NoRules(), Ann: abs.Ann{Query: true}},
				&abs.Field{Name: "oq", Num: 7, Kind: "int32", Card: "opt", Rules: abs.NoRules(), Ann: abs.Ann{Query: true}},
				&abs.Field{Name: "rrep", Num: 8, Kind: "string", Card: "rep", Rules: abs.NoRules(), Ann: abs.Ann{Query: true, QueryName: "r_rep", QueryReq: true}},
				&abs.Field{Name: "ropt", Num: 9, Kind: "int32", Card: "opt", Rules: abs.NoRules(), Ann: abs.Ann{Query: true, QueryReq: true}})
		}
		if bodyVerb(cc.Verb) {
			b := &abs.Field{Name: "b", Num: 4, Kind: "string", Card: "one", Rules: abs.NoRules()}
			switch cc.Bshape {
			case "int64":
				b.Kind = "int64"
			case "msg":
				b.Kind, b.Ref = "message", pk+".N"
			case "rep":
				b.Card = "rep"
			case "map":
				b.Card, b.KeyKind = "map", "string"
			case "opt":
				b.Kind, b.Card = "int32", "opt"
			case "enum":
				b.Kind, b.Ref = "enum", pk+".Color"
			case "bytes":
				b.Kind = "bytes"
			case "double":
				b.Kind = "double"
			case "oneof":
				b.Oneof = "choice"
				msg.Oneofs = []*abs.Oneof{{Name: "choice"}}
				msg.Fields = append(msg.Fields, &abs.Field{Name: "b2", Num: 5, Kind: "int32", Card: "one", Oneof: "choice", Rules: abs.NoRules()})
			case "ts":
				b.Kind, b.Ref = "message", "google.protobuf.Timestamp"
			case "int64num":
				b.Kind, b.Ann.Int64 = "int64", "NUMBER"
			case "uint64num":
				b.Kind, b.Ann.Int64 = "uint64", "NUMBER"
			case "byteshex":
				b.Kind, b.Ann.Bytes = "bytes", "HEX"
			case "tsms":
				b.Kind, b.Ref, b.Ann.Ts = "message", "google.protobuf.Timestamp", "UNIX_MILLIS"
			case "nullable":
				b.Card, b.Ann.Nullable = "opt", true
			}
			msg.Fields = append(msg.Fields, b)
		}
		f.Messages = append(f.Messages, msg)
		if cc.Route == "default" {
			// no http config at all: the route is the documented default one
			f.Services = append(f.Services, &abs.Service{Name: sh.svc, Methods: []*abs.Method{{Name: sh.meth, In: sh.in, Out: pk + ".Out"}}})
		} else {
			f.Services = append(f.Services, &abs.Service{Name: sh.svc, HasBase: true, BasePath: fmt.Sprintf("/b%d", sh.idx),
				Methods: []*abs.Method{{Name: sh.meth, In: sh.in, Out: pk + ".Out", HasCfg: true, Path: fmt.Sprintf("/s%d/{p}", sh.idx), Verb: cc.Verb}}})
		}
		shapes[k] = sh
		order = append(order, sh)
	}
	w, err := work.New()
	if err != nil {
		c.Broken("%v", err)
	}
	defer w.Close()
	em, err := w.Emit(set, schema, work.EmitOpts{Plugins: []string{"go-http", "go-client"}})
	if err != nil {
		c.Broken("%v", err)
	}
	for _, p := range []string{"go-http", "go-client"} {
		if r := em.Results[p]; !r.OK() {
			rp := c.WriteReplay(map[string]any{"property": c.ID, "stage": "generate", "plugin": p, "error": r.Error})
			c.Violation(rp, p+" refused the family schema: "+firstN(r.Error, 300))
			c.Done()
		}
	}
	var specs []work.PkgSpec
	for _, ip := range em.Pkgs {
		specs = append(specs, work.PkgSpec{ImportPath: ip, Server: true, Client: true})
	}
	if err := w.WriteDriver("drv", specs); err != nil {
		c.Broken("%v", err)
	}
	bin, bout, err := w.BuildBinary("./drv", "drv")
	if err != nil {
		rp := c.WriteReplay(map[string]any{"property": c.ID, "stage": "build", "error": firstN(bout, 3000)})
		c.Violation(rp, "the emitted Go client + server of the family do not build: "+firstN(bout, 300))
		c.Done()
	}
	files2 := em.Built.Files
	// ---- ops
	type prepared struct {
		cc   callCase
		sh   *shape
		req  *dynamicpb.Message
		note string
	}
	var preps []*prepared
	var ops []drv.Op
	ctHeader := map[string]string{"json": "", "proto": "application/x-protobuf", "octet": "application/octet-stream"}
	skipped := 0
	for _, cc := range cases {
		sh := shapes[cc.Verb+"|"+cc.Kind+"|"+cc.Bshape+"|"+cc.Route]
		m, err := val.New(files2, sh.in)
		if err != nil {
			c.Broken("%v", err)
		}
		fds := m.Descriptor().Fields()
		ok := true
		set1 := func(name, cls string) {
			fd := fds.ByName(protoreflect.Name(name))
			txt, exists := classText(cc.Kind, cls)
			if !exists {
				ok = false
				return
			}
			if name == "p" && txt == "" {
				ok = false // path-bound values are non-empty
				return
			}
			v, err := parseScalarText(fd, txt)
			if err != nil {
				ok = false
				return
			}
			m.Set(fd, v)
		}
		if cc.Route != "default" {
			set1("p", cc.Pcls)
			set1("q", cc.Qcls)
			set1("rq", cc.Qcls)
			if cc.Qcls != "zero" {
				l := m.Mutable(fds.ByName("rep")).List()
				texts := []string{}
				for _, cl := range []string{"ord", cc.Qcls, "max", "ord"} {
					if t, exists := classText(cc.Kind, cl); exists {
						texts = append(texts, t)
					}
				}
				if cc.Kind == "string" {
					texts = append(texts, "r 2,x&y")
				}
				for _, t := range texts {
					if v, err := parseScalarText(fds.ByName("rep"), t); err == nil {
						l.Append(v)
					}
				}
				m.Set(fds.ByName("oq"), protoreflect.ValueOfInt32(map[bool]int32{false: 7, true: 0}[cc.Qcls == "max"])) // max: set to 0, presence counts
			}
			// required parameters are always supplied (an absent one is the server's 400, not a call)
			rl := m.Mutable(fds.ByName("rrep")).List()
			rl.Append(protoreflect.ValueOfString("red"))
			rl.Append(protoreflect.ValueOfString("a&b=c d"))
			m.Set(fds.ByName("ropt"), protoreflect.ValueOfInt32(map[bool]int32{false: 12, true: 0}[cc.Qcls == "zero"]))
		}
		if bodyVerb(cc.Verb) && ok {
			fd := fds.ByName("b")
			big := cc.Bcls == "max"
			if cc.Bcls != "zero" {
				switch cc.Bshape {
				case "string":
					m.Set(fd, protoreflect.ValueOfString(map[bool]string{false: "body text", true: "héllo \"wörld\" \\ ✓  "}[big]))
				case "int64":
					m.Set(fd, protoreflect.ValueOfInt64(map[bool]int64{false: 1234567, true: 9223372036854775807}[big]))
				case "msg":
					n := dynamicpb.NewMessage(fd.Message())
					n.Set(fd.Message().Fields().ByName("s"), protoreflect.ValueOfString("nested"))
					n.Set(fd.Message().Fields().ByName("big_n"), protoreflect.ValueOfUint64(map[bool]uint64{false: 5, true: 18446744073709551615}[big]))
					m.Set(fd, protoreflect.ValueOfMessage(n))
				case "rep":
					l := m.Mutable(fd).List()
					l.Append(protoreflect.ValueOfString("a"))
					l.Append(protoreflect.ValueOfString(""))
					l.Append(protoreflect.ValueOfString("ü"))
				case "map":
					mp := m.Mutable(fd).Map()
					mp.Set(protoreflect.ValueOfString("k").MapKey(), protoreflect.ValueOfString("v"))
					mp.Set(protoreflect.ValueOfString("").MapKey(), protoreflect.ValueOfString(""))
				case "opt":
					m.Set(fd, protoreflect.ValueOfInt32(map[bool]int32{false: 0, true: 2147483647}[big])) // optional set to zero keeps presence
				case "enum":
					m.Set(fd, protoreflect.ValueOfEnum(map[bool]protoreflect.EnumNumber{false: 1, true: 2}[big]))
				case "bytes":
					m.Set(fd, protoreflect.ValueOfBytes(map[bool][]byte{false: []byte("bin"), true: {0xff, 0x00, 0xfe, 0x3e, 0x3f}}[big]))
				case "double":
					m.Set(fd, protoreflect.ValueOfFloat64(map[bool]float64{false: 0.1, true: 1.7976931348623157e308}[big]))
				case "oneof":
					if big {
						m.Set(fds.ByName("b2"), protoreflect.ValueOfInt32(0)) // oneof member set to its zero value
					} else {
						m.Set(fd, protoreflect.ValueOfString("chosen"))
					}
				case "int64num":
					m.Set(fd, protoreflect.ValueOfInt64(map[bool]int64{false: 9007199254740993, true: 9223372036854775807}[big]))
				case "uint64num":
					m.Set(fd, protoreflect.ValueOfUint64(map[bool]uint64{false: 9223372036854775809, true: 18446744073709551615}[big]))
				case "byteshex":
					m.Set(fd, protoreflect.ValueOfBytes(map[bool][]byte{false: []byte("bin"), true: {0xff, 0x00, 0xfe, 0x3e, 0x3f}}[big]))
				case "tsms":
					ts := dynamicpb.NewMessage(fd.Message())
					ts.Set(fd.Message().Fields().ByName("seconds"), protoreflect.ValueOfInt64(map[bool]int64{false: 1705312200, true: 253402300799}[big]))
					ts.Set(fd.Message().Fields().ByName("nanos"), protoreflect.ValueOfInt32(map[bool]int32{false: 123000000, true: 999000000}[big]))
					m.Set(fd, protoreflect.ValueOfMessage(ts))
				case "nullable":
					if !big { // (max: left unset - the wire says null)
						m.Set(fd, protoreflect.ValueOfString("present"))
					}
				case "ts":
					ts := dynamicpb.NewMessage(fd.Message())
					ts.Set(fd.Message().Fields().ByName("seconds"), protoreflect.ValueOfInt64(map[bool]int64{false: 1705312200, true: 253402300799}[big]))
					ts.Set(fd.Message().Fields().ByName("nanos"), protoreflect.ValueOfInt32(map[bool]int32{false: 0, true: 999999999}[big]))
					m.Set(fd, protoreflect.ValueOfMessage(ts))
				}
			}
		}
		if !ok {
			skipped++
			continue
		}
		out, _ := val.New(files2, fmt.Sprintf("cl%d.v1.Out", sh.pkg))
		out.Set(out.Descriptor().Fields().ByName("id"), protoreflect.ValueOfString("x"))
		out.Set(out.Descriptor().Fields().ByName("n"), protoreflect.ValueOfInt64(7))
		id := len(preps) + 1
		op := drv.Op{Op: "call", Case: id, Call: 1, Pkg: fmt.Sprintf("gen/cl%d", sh.pkg), Svc: sh.svc, Rpc: sh.meth, ReqType: sh.in,
			ReqB64: base64.StdEncoding.EncodeToString(val.Det(m)), ClientOpts: drv.ClientOpts{ContentType: ctHeader[cc.Ctype]},
			Handler: drv.HandlerCfg{Kind: "ok", RespType: string(out.Descriptor().FullName()), RespB64: base64.StdEncoding.EncodeToString(val.Det(out))}}
		ops = append(ops, op)
		preps = append(preps, &prepared{cc: cc, sh: sh, req: m, note: fmt.Sprintf("%s route=%s kind=%s p=%s q=%s b=%s/%s ct=%s", cc.Verb, cc.Route, cc.Kind, cc.Pcls, cc.Qcls, cc.Bshape, cc.Bcls, cc.Ctype)})
	}
	c.Infof("%d calls over %d RPC shapes (%d class/kind combinations do not exist and were skipped)", len(preps), len(order), skipped)
	evs := runDrv(c, bin, w.Root, ops)
	// ---- events
	var segs []*trace.Segment
	evals := 0
	for i, p := range preps {
		id := i + 1
		md := p.req.Descriptor()
		toks := func(m protoreflect.Message, names []string) []map[string]string {
			out := []map[string]string{}
			for _, n := range names {
				fd := m.Descriptor().Fields().ByName(protoreflect.Name(n))
				if fd != nil {
					out = append(out, map[string]string{"k": n, "v": val.Field(m, fd)})
				}
			}
			return out
		}
		fields := []string{"p", "q", "rq", "rep", "oq", "rrep", "ropt"}
		pathVars, query := []string{"p"}, []map[string]any{{"field": "q", "name": "query-q", "required": false}, {"field": "rq", "name": "rq", "required": true},
			{"field": "rep", "name": "rep", "required": false}, {"field": "oq", "name": "oq", "required": false},
			{"field": "rrep", "name": "r_rep", "required": true}, {"field": "ropt", "name": "ropt", "required": true}}
		if p.cc.Route == "default" {
			fields, pathVars, query = []string{}, []string{}, []map[string]any{}
		}
		if bodyVerb(p.cc.Verb) {
			fields = append(fields, "b")
			if p.cc.Bshape == "oneof" {
				fields = append(fields, "b2")
			}
		}
		zero := dynamicpb.NewMessage(md)
		outTok := ""
		{
			out, _ := val.New(files2, fmt.Sprintf("cl%d.v1.Out", p.sh.pkg))
			out.Set(out.Descriptor().Fields().ByName("id"), protoreflect.ValueOfString("x"))
			out.Set(out.Descriptor().Fields().ByName("n"), protoreflect.ValueOfInt64(7))
			outTok = val.Message(out)
		}
		rpc := map[string]any{"name": p.sh.meth, "verb": p.cc.Verb, "fields": fields, "pathVars": pathVars, "query": query}
		seg := &trace.Segment{ID: i, Meta: p}
		seg.Lines = append(seg.Lines, jsonLine(map[string]any{"event": "Call", "case": id, "note": p.note,
			"call": map[string]any{"rpc": rpc, "value": toks(p.req, fields), "zero": toks(zero, fields), "ctype": p.cc.Ctype, "resp": outTok, "handler": "ok", "hdrs": []any{}}}))
		es := evs[fmt.Sprintf("%d/1", id)]
		sort.SliceStable(es, func(a, b int) bool { return es[a]["seq"].(float64) < es[b]["seq"].(float64) })
		for _, e := range es {
			switch e["event"] {
			case "Sent":
				path, _ := e["path"].(string)
				base := fmt.Sprintf("/b%d", p.sh.idx)
				hasBase := p.cc.Route == "default" || strings.HasPrefix(path, base+"/")
				parts := strings.Split(strings.TrimPrefix(strings.TrimPrefix(path, base), "/"), "/")
				litsOK := hasBase && len(parts) == 2 && parts[0] == fmt.Sprintf("s%d", p.sh.idx)
				if p.cc.Route == "default" {
					// documented default: /<go package name>/<snake_case method>
					litsOK = path == fmt.Sprintf("/cl%d/m%d", p.sh.pkg, p.sh.idx)
				}
				pathVals := []map[string]string{}
				if len(parts) == 2 && p.cc.Route != "default" {
					if dec, err := url.PathUnescape(parts[1]); err == nil {
						if v, err := parseScalarText(md.Fields().ByName("p"), dec); err == nil {
							tmp := dynamicpb.NewMessage(md)
							tmp.Set(md.Fields().ByName("p"), v)
							pathVals = append(pathVals, map[string]string{"k": "p", "v": val.Field(tmp, md.Fields().ByName("p"))})
						} else {
							pathVals = append(pathVals, map[string]string{"k": "p", "v": "?unconvertible:" + dec})
						}
					}
				}
				queryVals := []map[string]string{}
				q, _ := url.ParseQuery(fmt.Sprint(e["rawQuery"]))
				// the URL carries the declared parameter names (two differ from the field names)
				urlName := map[string]string{"q": "query-q", "rrep": "r_rep"}
				for _, n := range []string{"q", "rq", "rep", "oq", "rrep", "ropt"} {
					if p.cc.Route == "default" {
						break
					}
					un := n
					if a, ok := urlName[n]; ok {
						un = a
					}
					if fd := md.Fields().ByName(protoreflect.Name(n)); fd != nil && fd.IsList() {
						if vs, ok := q[un]; ok && len(vs) > 0 {
							tmp := dynamicpb.NewMessage(md)
							bad := false
							for _, one := range vs {
								v, err := parseScalarText(fd, one)
								if err != nil {
									bad = true
									break
								}
								tmp.Mutable(fd).List().Append(v)
							}
							if bad {
								queryVals = append(queryVals, map[string]string{"k": n, "v": "?unparsable:" + strings.Join(vs, ",")})
							} else {
								queryVals = append(queryVals, map[string]string{"k": n, "v": val.Field(tmp, fd)})
							}
						}
						continue
					}
					if vs, ok := q[un]; ok && len(vs) > 0 {
						if v, err := parseScalarText(md.Fields().ByName(protoreflect.Name(n)), vs[0]); err == nil {
							tmp := dynamicpb.NewMessage(md)
							tmp.Set(md.Fields().ByName(protoreflect.Name(n)), v)
							queryVals = append(queryVals, map[string]string{"k": n, "v": val.Field(tmp, md.Fields().ByName(protoreflect.Name(n)))})
						} else {
							queryVals = append(queryVals, map[string]string{"k": n, "v": "?unconvertible:" + vs[0]})
						}
					}
				}
				ct := "other"
				if hs, ok := e["headers"].([]any); ok {
					for _, h := range hs {
						if pr, ok := h.([]any); ok && len(pr) == 2 && pr[0] == "Content-Type" {
							switch {
							case strings.HasPrefix(fmt.Sprint(pr[1]), "application/json"):
								ct = "json"
							case strings.HasPrefix(fmt.Sprint(pr[1]), "application/x-protobuf"):
								ct = "proto"
							case strings.HasPrefix(fmt.Sprint(pr[1]), "application/octet-stream"):
								ct = "octet"
							}
						}
					}
				}
				body := unb64s(e["bodyB64"])
				bm := dynamicpb.NewMessage(md)
				decodes := false
				if e["hasBody"] == true {
					if ct == "json" {
						decodes = protojson.Unmarshal(body, bm) == nil
					} else {
						decodes = proto.Unmarshal(body, bm) == nil && len(bm.GetUnknown()) == 0
					}
				}
				seg.Lines = append(seg.Lines, jsonLine(map[string]any{"event": "Sent", "verb": e["verb"], "litsOK": litsOK, "pathVals": pathVals, "queryVals": queryVals, "hdrVals": []any{},
					"hasBody": e["hasBody"] == true && len(body) > 0, "bodyDecodes": decodes, "bodyVals": toks(bm, fields), "ctype": ct, "raw": firstN(path+"?"+fmt.Sprint(e["rawQuery"]), 200)}))
			case "HandlerSaw":
				m, err := val.Decode(files2, p.sh.in, unb64s(e["valB64"]))
				vals := []map[string]string{}
				if err == nil && e["type"] == p.sh.in {
					vals = toks(m, fields)
				}
				seg.Lines = append(seg.Lines, jsonLine(map[string]any{"event": "Saw", "rpc": e["rpc"], "vals": vals}))
			case "ClientRet":
				rv := ""
				if e["kind"] == "ok" {
					if m, err := val.Decode(files2, fmt.Sprint(e["type"]), unb64s(e["valB64"])); err == nil {
						rv = val.Message(m)
					}
				}
				msg, _ := e["message"].(string)
				seg.Lines = append(seg.Lines, jsonLine(map[string]any{"event": "Ret", "kind": e["kind"], "val": rv, "message": msg, "text": firstN(fmt.Sprint(e["text"]), 200)}))
			case "DriverError":
				c.Broken("driver: %v", e["detail"])
			}
		}
		evals += len(seg.Lines) - 1
		segs = append(segs, seg)
		if i%(len(preps)/5+1) == 0 {
			c.AddSample(map[string]any{"case": p.cc, "note": p.note})
		}
	}
	judgeSegmentsN(c, "Trace_Call", "Trace_Call.cfg", segs, evals, 40)
	c.Done()
}

func uniqStrings(in []string) []string {
	var out []string
	for i, s := range in {
		if i == 0 || s != in[i-1] {
			out = append(out, s)
		}
	}
	return out
}
