package main

import (
	"encoding/json"
	"fmt"
	"sort"
	"strings"

	"verifharness/abs"
	"verifharness/chk"
	"verifharness/pipe"
	"verifharness/plug"
	"verifharness/trace"
)

// extraConsts are additional TLC constants of the running check (e.g. Enforce).
var extraConsts = map[string]string{}

type pipeCase struct {
	Ex     *pipe.Exported
	Built  *abs.Built
	Events []map[string]any
}

func exportedCases(c *chk.Ctx, cfg string, prefix string) []*pipe.Exported {
	res := runMC(c, "MC_Pipeline", cfg, nil, true)
	raws := make([]string, 0, len(res.Cases))
	for _, r := range res.Cases {
		raws = append(raws, string(r))
	}
	sort.Strings(raws)
	var out []*pipe.Exported
	for i, r := range raws {
		e, err := pipe.ParseExported(json.RawMessage(r), fmt.Sprintf("%s%d", prefix, i))
		if err != nil {
			c.Broken("bad exported case: %v", err)
		}
		out = append(out, e)
	}
	if len(out) == 0 {
		c.Broken("TLC exported no cases")
	}
	return out
}

func schemaLine(e *pipe.Exported) string {
	b, _ := json.Marshal(map[string]any{"event": "Schema", "schema": e.Schema, "domain": e.Domain, "fv": e.Fv})
	return string(b)
}

func jsonLine(v any) string {
	b, _ := json.Marshal(v)
	return string(b)
}

// checkC12 : misuse stops generation; valid definitions are never refused.
func checkC12(c *chk.Ctx) {
	extraConsts["Enforce"] = `{"C12", "C16"}`
	set := pluginSet(c)
	cases := exportedCases(c, "MC_Pipeline_C12.cfg", "k")
	var segs []*trace.Segment
	evals := 0
	for i, e := range cases {
		b, err := abs.Build(e.Schema)
		if err != nil {
			c.Broken("harness cannot express exported case %v: %v", e.Fv, err)
		}
		names := pipe.Names(e.Schema)
		seg := &trace.Segment{ID: i, Meta: e, Lines: []string{schemaLine(e)}}
		for _, p := range plug.Names {
			r := set.Run(p, b.Request("", nil), plug.RunOpts{})
			seg.Lines = append(seg.Lines, jsonLine(pipe.GenEvent(r, names, "base", e.Schema, nil)))
			evals++
		}
		segs = append(segs, seg)
		if i%40 == 0 {
			c.AddSample(map[string]any{"fv": e.Fv, "gen": json.RawMessage(seg.Lines[1])})
		}
	}
	judgeSegments(c, "Trace_Pipeline", "Trace_Pipeline.cfg", segs, evals)
	c.Done()
}

// judgeSegments validates, reports rejections as violations and fills the evidence.
func judgeSegments(c *chk.Ctx, module, cfg string, segs []*trace.Segment, evals int) {
	judgeSegmentsN(c, module, cfg, segs, evals, 25)
}

func judgeSegmentsN(c *chk.Ctx, module, cfg string, segs []*trace.Segment, evals int, maxReject int) {
	consts := map[string]string{"Dev": trace.DevSet(c.Dev())}
	for k, v := range extraConsts {
		consts[k] = v
	}
	v, err := trace.Validate(module, cfg, consts, segs, maxReject)
	if err != nil {
		c.Broken("%v", err)
	}
	c.AddInt("traces_validated_against_impl", int64(len(v.Accepted)))
	c.Set("evaluations", evals)
	c.Set("distinct_nontrivial", len(segs))
	c.Set("trace_tlc_runs", v.Runs)
	c.Infof("trace validation (%s): %d segments accepted, %d rejected (Dev = %v, %d TLC runs)", module, len(v.Accepted), len(v.Rejected), c.Dev(), v.Runs)
	observeDevs(c, module, cfg, segs, len(v.Rejected))
	for _, bad := range v.Rejected {
		rp := c.WriteReplay(map[string]any{"property": c.ID, "spec": module, "dev": c.Dev(), "segment": rawLines(bad.Lines),
			"rejected_at": json.RawMessage(v.RejectedLine[bad.ID]), "rejected_index": v.RejectedIdx[bad.ID], "seed": c.Seed})
		c.Violation(rp, fmt.Sprintf("segment %d rejected by %s at line %d: %s", bad.ID, module, v.RejectedIdx[bad.ID], firstN(v.RejectedLine[bad.ID], 500)))
	}
}

func rawLines(ls []string) []json.RawMessage {
	out := make([]json.RawMessage, len(ls))
	for i, l := range ls {
		out[i] = json.RawMessage(l)
	}
	return out
}

// checkC14 : go-http and go-client emit interchangeable codec files.
func checkC14(c *chk.Ctx) {
	extraConsts["Enforce"] = `{"C14"}`
	set := pluginSet(c)
	cases := exportedCases(c, "MC_Pipeline_C14.cfg", "i")
	var segs []*trace.Segment
	evals := 0
	for i, e := range cases {
		b, err := abs.Build(e.Schema)
		if err != nil {
			c.Broken("harness cannot express exported case %v: %v", e.Fv, err)
		}
		names := pipe.Names(e.Schema)
		seg := &trace.Segment{ID: i, Meta: e, Lines: []string{schemaLine(e)}}
		order := []string{"go-http", "go-client", "go-http"}
		if (i+int(c.Seed))%2 == 1 {
			order = []string{"go-client", "go-http", "go-client"}
		}
		for _, p := range order {
			r := set.Run(p, b.Request("", nil), plug.RunOpts{})
			seg.Lines = append(seg.Lines, jsonLine(pipe.GenEvent(r, names, "base", e.Schema, nil)))
			evals++
		}
		segs = append(segs, seg)
		if i%10 == 0 {
			c.AddSample(map[string]any{"fv": e.Fv, "order": order})
		}
	}
	judgeSegments(c, "Trace_Pipeline", "Trace_Pipeline.cfg", segs, evals)
	c.Done()
}

// extraFile is an unrelated file added to requests by the "extra_unrelated" variant: another
// package with a service of its own whose messages have the SAME SHORT NAMES as messages the base
// services reach (Out, Child, W, MapB, ListA), with other contents - a short name identifies a
// message within one package only.
func extraFile() *abs.File {
	str := func(n string, num int32) *abs.Field {
		return &abs.Field{Name: n, Num: num, Kind: "string", Card: "one", Rules: abs.NoRules()}
	}
	pk := "zzextra.v1."
	return &abs.File{Name: "zzextra/unrelated.proto", Pkg: "zzextra.v1", GoPkg: "scratch/gen/zzextra;zzextra", Generate: true,
		Messages: []*abs.Message{
			{Name: "Unrelated", Fields: []*abs.Field{{Name: "u", Num: 1, Kind: "string", Card: "rep", Rules: abs.NoRules(), Ann: abs.Ann{Unwrap: true}}}},
			{Name: "Out", Fields: []*abs.Field{str("zz_sku", 1), {Name: "zz_quantity", Num: 2, Kind: "int32", Card: "one", Rules: abs.NoRules()}}},
			{Name: "Child", Fields: []*abs.Field{str("zz_only", 1)}},
			{Name: "W", Fields: []*abs.Field{str("zz_w", 1), {Name: "zz_child", Num: 2, Kind: "message", Ref: pk + "Child", Card: "one", Rules: abs.NoRules()}}},
			{Name: "MapB", Fields: []*abs.Field{{Name: "zz_tags", Num: 1, Kind: "string", Card: "rep", Rules: abs.NoRules()}}},
			{Name: "ListA", Fields: []*abs.Field{str("zz_cursor", 1)}},
		},
		Services: []*abs.Service{{Name: "UnrelatedService", Methods: []*abs.Method{
			{Name: "Ping", In: pk + "Unrelated", Out: pk + "Unrelated"},
			{Name: "Stock", In: pk + "Out", Out: pk + "W"},
			{Name: "Tags", In: pk + "MapB", Out: pk + "ListA"}}}}}
}

// siblingFile: a file nothing imports that lives in the SAME proto package and Go package as the schema's own
// files, declares a service, and whose path sorts before all of them - present in the request, not generated.
func siblingFile(like *abs.File) *abs.File {
	dir := like.Name
	if i := strings.LastIndex(dir, "/"); i >= 0 {
		dir = dir[:i+1]
	} else {
		dir = ""
	}
	pk := like.Pkg + "."
	return &abs.File{Name: dir + "aa_sibling.proto", Pkg: like.Pkg, GoPkg: like.GoPkg, Generate: false,
		Messages: []*abs.Message{
			{Name: "ZzSiblingIn", Fields: []*abs.Field{{Name: "q", Num: 1, Kind: "string", Card: "one", Rules: abs.NoRules()}}},
			{Name: "ZzSiblingOut", Fields: []*abs.Field{{Name: "r", Num: 1, Kind: "int64", Card: "one", Rules: abs.NoRules(), Ann: abs.Ann{Int64: "NUMBER"}}}},
		},
		Services: []*abs.Service{{Name: "ZzSiblingService", Methods: []*abs.Method{{Name: "Peek", In: pk + "ZzSiblingIn", Out: pk + "ZzSiblingOut"}}}}}
}

// checkC15 : generation is a pure, order-independent function of the definitions.
func checkC15(c *chk.Ctx) {
	extraConsts["Enforce"] = `{"C15", "C16"}`
	set := pluginSet(c)
	cases := exportedCases(c, "MC_Pipeline_C15.cfg", "u")
	var segs []*trace.Segment
	evals := 0
	reps := 8
	if c.Thorough() {
		reps = 20
	}
	for i, e := range cases {
		b, err := abs.Build(e.Schema)
		if err != nil {
			c.Broken("harness cannot express exported case %v: %v", e.Fv, err)
		}
		names := pipe.Names(e.Schema)
		seg := &trace.Segment{ID: i, Meta: e, Lines: []string{schemaLine(e)}}
		var gen []string
		for _, f := range e.Schema.Files {
			gen = append(gen, f.Name)
		}
		// schema with an extra unrelated file
		ext := &abs.Schema{Files: append(append([]*abs.File{}, e.Schema.Files...), extraFile())}
		bx, err := abs.Build(ext)
		if err != nil {
			c.Broken("harness: %v", err)
		}
		// ... and with an unimported sibling file of the same package present in the request
		sibs := &abs.Schema{Files: append([]*abs.File{siblingFile(e.Schema.Files[0])}, e.Schema.Files...)}
		bs, err := abs.Build(sibs)
		if err != nil {
			c.Broken("harness: %v", err)
		}
		run := func(p, variant string, r *plug.Result, g []string) {
			ev := pipe.GenEvent(r, names, variant, e.Schema, g)
			if variant == "extra_unrelated" {
				// the unrelated file's own output is not part of the claim
				var keep []map[string]any
				for _, f := range ev["files"].([]map[string]any) {
					if !contains(f["name"].(string), "zzextra") && !contains(f["name"].(string), "UnrelatedService") {
						keep = append(keep, f)
					}
				}
				if keep == nil {
					keep = []map[string]any{}
				}
				ev["files"] = keep
				ev["nfiles"] = len(keep)
			}
			seg.Lines = append(seg.Lines, jsonLine(ev))
			evals++
		}
		// every plugin under every request variant; the Go server plugin once more with the optional mock
		// server requested (its own history: the label is part of the key)
		type plan struct{ p, label, param string }
		plans := []plan{}
		for _, p := range plug.Names {
			plans = append(plans, plan{p, "", ""})
		}
		plans = append(plans, plan{"go-http", "go-http:mock", "generate_mock=true"})
		for _, pl := range plans {
			p, param := pl.p, pl.param
			first := len(seg.Lines)
			run(p, "base", set.Run(p, b.Request(param, nil), plug.RunOpts{}), gen)
			for k := 0; k < reps; k++ {
				run(p, "repeat", set.Run(p, b.Request(param, nil), plug.RunOpts{}), gen)
			}
			run(p, "procs1", set.Run(p, b.Request(param, nil), plug.RunOpts{Env: []string{"GOMAXPROCS=1"}}), gen)
			perm := append([]string{}, gen...)
			for a, z := 0, len(perm)-1; a < z; a, z = a+1, z-1 {
				perm[a], perm[z] = perm[z], perm[a]
			}
			run(p, "permuted", set.Run(p, b.Request(param, perm), plug.RunOpts{}), gen)
			for _, g := range gen {
				run(p, "single", set.Run(p, b.Request(param, []string{g}), plug.RunOpts{}), []string{g})
			}
			run(p, "extra_unrelated", set.Run(p, bx.Request(param, nil), plug.RunOpts{}), gen)
			run(p, "extra_unrelated", set.Run(p, bx.Request(param, append([]string{"zzextra/unrelated.proto"}, gen...)), plug.RunOpts{}), gen)
			run(p, "extra_unrelated", set.Run(p, bs.Request(param, gen), plug.RunOpts{}), gen)
			if pl.label != "" {
				for i := first; i < len(seg.Lines); i++ {
					var ev map[string]any
					if json.Unmarshal([]byte(seg.Lines[i]), &ev) == nil {
						ev["plugin"] = pl.label
						seg.Lines[i] = jsonLine(ev)
					}
				}
			}
		}
		// parameter spelling: spellings that mean the same (blanks around the key, the value, the separators; the
		// alias yml; no parameter at all) give the same files. Runs are compared within a meaning (the label).
		for label, spellings := range map[string][]string{
			"openapiv3:json": {"format=json", " format=json", "format=json ", "format = json", "format=json, ", " format = json "},
			"openapiv3:yaml": {"", "format=yaml", "format=yml", " format=yaml", "format=yaml ", "format = yml"},
		} {
			for _, sp := range spellings {
				r := set.Run("openapiv3", b.Request(sp, nil), plug.RunOpts{})
				ev := pipe.GenEvent(r, names, "param_spelling", e.Schema, gen)
				ev["plugin"] = label
				ev["param"] = sp
				seg.Lines = append(seg.Lines, jsonLine(ev))
				evals++
			}
		}
		segs = append(segs, seg)
		c.AddSample(map[string]any{"fv": e.Fv, "files": gen, "runs_per_plugin": reps + 6 + len(gen)})
	}
	judgeSegments(c, "Trace_Pipeline", "Trace_Pipeline.cfg", segs, evals)
	c.Done()
}

func contains(s, sub string) bool {
	return len(sub) > 0 && len(s) >= len(sub) && (stringsIndex(s, sub) >= 0)
}

// observeDevs finds out which open deviations were actually needed by this run: the trace is
// re-validated with each one switched off; a rejection means the finding was re-observed.
func observeDevs(c *chk.Ctx, module, cfg string, segs []*trace.Segment, rejected int) {
	dev := c.Dev()
	if len(dev) == 0 || rejected > 0 {
		return
	}
	for _, d := range dev {
		var rest []string
		for _, x := range dev {
			if x != d {
				rest = append(rest, x)
			}
		}
		cs := map[string]string{"Dev": trace.DevSet(rest)}
		for k, v := range extraConsts {
			cs[k] = v
		}
		v2, err := trace.Validate(module, cfg, cs, segs, 1)
		if err != nil {
			c.Broken("%v", err)
		}
		if len(v2.Rejected) > 0 {
			c.Observe(d)
		}
	}
}

// deepen rebuilds the "deep" shape of MC_Pipeline's C16 family with a longer chain D1 -> ... -> Dn
// (TLC explores depth 4; the replay goes to 64).
func deepen(s *abs.Schema, n int) {
	f := s.Files[0]
	var keep []*abs.Message
	for _, m := range f.Messages {
		if len(m.Name) > 1 && m.Name[0] == 'D' && m.Name[1] >= '0' && m.Name[1] <= '9' {
			continue
		}
		keep = append(keep, m)
	}
	for i := 1; i <= n; i++ {
		m := &abs.Message{Name: fmt.Sprintf("D%d", i)}
		if i == n {
			m.Fields = []*abs.Field{{Name: "leaf", Num: 1, Kind: "string", Card: "one", Rules: abs.NoRules()}}
		} else {
			m.Fields = []*abs.Field{{Name: "next", Num: 1, Kind: "message", Card: "one", Ref: fmt.Sprintf("%s.D%d", f.Pkg, i+1), Rules: abs.NoRules()}}
		}
		keep = append(keep, m)
	}
	f.Messages = keep
	s.Normalize()
}

func paramsFor(par string) map[string]string {
	switch par {
	case "mock":
		return map[string]string{"go-http": "generate_mock=true"}
	case "json":
		return map[string]string{"openapiv3": "format=json"}
	case "yaml":
		return map[string]string{"openapiv3": "format=yaml"}
	case "source_relative":
		return map[string]string{"go-http": "paths=source_relative", "go-client": "paths=source_relative", "ts-client": "paths=source_relative",
			"ts-server": "paths=source_relative", "openapiv3": "paths=source_relative"}
	}
	return map[string]string{}
}

// checkC16 : every plugin terminates with an answer for every valid descriptor set.
func checkC16(c *chk.Ctx) {
	extraConsts["Enforce"] = `{"C16"}`
	set := pluginSet(c)
	// liveness of the traversals (design level): every traversal with a visited set terminates
	lres := runMC(c, "SebufTraverse", "SebufTraverse.cfg", nil, false)
	c.Set("liveness_states", lres.Distinct)
	cases := exportedCases(c, "MC_Pipeline_C16.cfg", "g")
	var segs []*trace.Segment
	evals := 0
	longName := ""
	for i := 0; i < 400; i++ {
		longName += "LongName_"
	}
	id := 0
	addCase := func(e *pipe.Exported, note string) {
		b, err := abs.Build(e.Schema)
		if err != nil {
			c.Broken("harness cannot express exported case %v (%s): %v", e.Fv, note, err)
		}
		names := []string{}
		seg := &trace.Segment{ID: id, Meta: e, Lines: []string{schemaLine2(e, note)}}
		id++
		par, _ := e.Fv["pl"].(string)
		params := paramsFor(par)
		for _, p := range plug.Names {
			r := set.Run(p, b.Request(params[p], nil), plug.RunOpts{Timeout: 10 * 1e9})
			seg.Lines = append(seg.Lines, jsonLine(pipe.GenEvent(r, names, "base", e.Schema, nil)))
			evals++
		}
		segs = append(segs, seg)
		if id%25 == 1 {
			c.AddSample(map[string]any{"fv": e.Fv, "note": note})
		}
	}
	for _, e := range cases {
		shape, _ := e.Fv["rule"].(string)
		switch shape {
		case "deep":
			depths := []int{4, 16, 64}
			if c.Thorough() {
				depths = []int{1, 2, 4, 8, 16, 32, 64}
			}
			for _, d := range depths {
				raw, _ := json.Marshal(e)
				cp := &pipe.Exported{}
				_ = json.Unmarshal(raw, cp)
				deepen(cp.Schema, d)
				addCase(cp, fmt.Sprintf("depth=%d", d))
			}
		case "long_names":
			raw, _ := json.Marshal(e)
			txt := strings.ReplaceAll(string(raw), "LONGNAME", longName)
			cp := &pipe.Exported{}
			_ = json.Unmarshal([]byte(txt), cp)
			cp.Schema.Normalize()
			addCase(cp, "names of 3600 characters")
		default:
			addCase(e, "")
		}
	}
	judgeSegments(c, "Trace_Pipeline", "Trace_Pipeline.cfg", segs, evals)
	c.Done()
}

func schemaLine2(e *pipe.Exported, note string) string {
	b, _ := json.Marshal(map[string]any{"event": "Schema", "schema": e.Schema, "domain": e.Domain, "fv": e.Fv, "note": note})
	return string(b)
}
