package main

import (
	"encoding/base64"
	"encoding/json"
	"fmt"
	"os"
	"os/exec"
	"path/filepath"
	"strings"

	"verifharness/abs"
	"verifharness/drv"
	"verifharness/plug"
	"verifharness/work"
)

func fld(name string, num int32, kind, card string) *abs.Field {
	return &abs.Field{Name: name, Num: num, Kind: kind, Card: card, Rules: abs.NoRules()}
}

func smoke() int {
	s := &abs.Schema{Files: []*abs.File{{
		Name: "c1/a.proto", Pkg: "c1.v1", GoPkg: "scratch/gen/c1;c1", Generate: true,
		Messages: []*abs.Message{
			{Name: "UpdateReq", Fields: []*abs.Field{fld("item_id", 1, "string", "one"), fld("title", 2, "string", "one")}},
			{Name: "Item", Fields: []*abs.Field{fld("id", 1, "string", "one"), fld("n", 2, "int64", "one")}},
		},
		Services: []*abs.Service{{Name: "ItemService", HasBase: true, BasePath: "/api/v1", Methods: []*abs.Method{
			{Name: "UpdateItem", In: "c1.v1.UpdateReq", Out: "c1.v1.Item", HasCfg: true, Path: "/items/{item_id}", Verb: "PUT"},
		}}},
	}}}
	set, err := plug.Build(filepath.Join(plug.VerifDir(), ".cache", "bin"))
	if err != nil {
		fmt.Println(err)
		return 2
	}
	w, err := work.New()
	if err != nil {
		fmt.Println(err)
		return 2
	}
	defer w.Close()
	em, err := w.Emit(set, s, work.EmitOpts{Plugins: plug.Names})
	if err != nil {
		fmt.Println(err)
		return 2
	}
	for p, r := range em.Results {
		fmt.Println(p, r.Exit, r.Error, len(r.Files), r.Ms, "ms")
	}
	if err := w.WriteDriver("drv", []work.PkgSpec{{ImportPath: "scratch/gen/c1", Server: true, Client: true}}); err != nil {
		fmt.Println(err)
		return 2
	}
	bin, out, err := w.BuildBinary("./drv", "drv")
	if err != nil {
		fmt.Println("build failed", err, out)
		return 2
	}
	ops := []drv.Op{
		{Op: "raw", Case: 1, Call: 1, Pkg: "gen/c1", Verb: "PUT", URL: "/api/v1/items/abc", Headers: [][2]string{{"Content-Type", "application/json"}},
			BodyB64: base64.StdEncoding.EncodeToString([]byte(`{"title":"t"}`)), Handler: drv.HandlerCfg{Kind: "ok", RespType: "c1.v1.Item", RespB64: ""}},
		{Op: "call", Case: 1, Call: 2, Pkg: "gen/c1", Svc: "ItemService", Rpc: "UpdateItem", ReqType: "c1.v1.UpdateReq", ReqB64: "",
			Handler: drv.HandlerCfg{Kind: "plain", Msg: "boom"}},
	}
	var plan strings.Builder
	for _, op := range ops {
		b, _ := json.Marshal(op)
		plan.Write(b)
		plan.WriteByte('\n')
	}
	pf := filepath.Join(w.Root, "plan.ndjson")
	_ = os.WriteFile(pf, []byte(plan.String()), 0o644)
	cmd := exec.Command(bin, pf)
	o, err := cmd.CombinedOutput()
	fmt.Println(string(o), err)
	return 0
}
