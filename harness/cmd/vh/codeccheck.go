package main

import (
	"encoding/base64"
	"encoding/json"
	"fmt"
	"os"
	"sort"
	"strings"

	"google.golang.org/protobuf/proto"
	"google.golang.org/protobuf/reflect/protoreflect"

	"verifharness/abs"
	"verifharness/chk"
	"verifharness/drv"
	"verifharness/jsonv"
	"verifharness/pipe"
	"verifharness/tlc"
	"verifharness/trace"
	"verifharness/val"
	"verifharness/work"
)

type codecCase struct {
	idx     int
	ex      *pipe.Exported // schema with the "h" prefix
	builtH  *abs.Built
	builtC  *abs.Built
	top     string // full name of the RPC's message (h naming)
	topC    string
	okH     bool
	okC     bool
	pkgH    string
	pkgC    string
	seg     *trace.Segment
	skipped string
}

var nullTree = jsonv.M{"t": "null"}

// codecCheck is the common body of C04 (round trip, go-http vs go-client) and C05 (form at any depth).
func codecCheck(c *chk.Ctx, enforce string) {
	extraConsts["Enforce"] = enforce
	set := pluginSet(c)
	res := runMC(c, "MC_Json", "MC_Json.cfg", nil, true)
	raws := make([]string, 0, len(res.Cases))
	for _, r := range res.Cases {
		raws = append(raws, string(r))
	}
	sort.Strings(raws)
	w, err := work.New()
	if err != nil {
		c.Broken("%v", err)
	}
	defer w.Close()
	stride := 1 // every construct x context in both tiers (the tiers differ in the value classes)
	var cases []*codecCase
	for i, raw := range raws {
		if (i+int(c.Seed))%stride != 0 {
			continue
		}
		cc := &codecCase{idx: i}
		eh, err := pipe.ParseExported(json.RawMessage(raw), fmt.Sprintf("j%dh", i))
		if err != nil {
			c.Broken("bad exported case: %v", err)
		}
		ec, _ := pipe.ParseExported(json.RawMessage(raw), fmt.Sprintf("j%dc", i))
		cc.ex = eh
		cc.pkgH, cc.pkgC = fmt.Sprintf("gen/j%dh", i), fmt.Sprintf("gen/j%dc", i)
		cc.top = svcFile(eh.Schema).Services[0].Methods[0].In
		cc.topC = svcFile(ec.Schema).Services[0].Methods[0].In
		emH, err := w.Emit(set, eh.Schema, work.EmitOpts{Plugins: []string{"go-http"}, PerFile: true})
		if err != nil {
			c.Broken("%v", err)
		}
		emC, err := w.Emit(set, ec.Schema, work.EmitOpts{Plugins: []string{"go-client"}, NoGlue: true, PerFile: true})
		if err != nil {
			c.Broken("%v", err)
		}
		cc.builtH, cc.builtC = emH.Built, emC.Built
		cc.okH, cc.okC = emH.Results["go-http"].OK(), emC.Results["go-client"].OK()
		if !cc.okH || !cc.okC {
			cc.skipped = "refused by the generators: " + firstN(emH.Results["go-http"].Error+emC.Results["go-client"].Error, 160)
		}
		cases = append(cases, cc)
	}
	// packages that do not build are C13's business; they are left out here
	fails, _, err := w.BuildPkgs(nil, "./gen/...")
	if err != nil {
		c.Broken("go build: %v", err)
	}
	var specs []work.PkgSpec
	nSkipped := 0
	for _, cc := range cases {
		if cc.skipped == "" {
			if d, bad := fails[cc.pkgH]; bad {
				cc.skipped = "go-http package does not build (C13): " + firstN(d, 120)
			} else if d, bad := fails[cc.pkgC]; bad {
				cc.skipped = "go-client package does not build (C13): " + firstN(d, 120)
			}
		}
		if cc.skipped != "" {
			nSkipped++
			if os.Getenv("VERIF_DEBUG") != "" {
				fmt.Fprintln(os.Stderr, "skipped", cc.ex.Fv, cc.skipped)
			}
			continue
		}
		specs = append(specs, work.PkgSpec{ImportPath: "scratch/" + cc.pkgH, Server: true}, work.PkgSpec{ImportPath: "scratch/" + cc.pkgC, NoServices: true})
	}
	if err := w.WriteDriver("drv", specs); err != nil {
		c.Broken("%v", err)
	}
	bin, bout, err := w.BuildBinary("./drv", "drv")
	if err != nil {
		c.Broken("driver does not build: %s", firstN(bout, 1500))
	}
	c.Infof("%d cases (%d outside the accepted / buildable domain), driver built", len(cases), nSkipped)
	modes := []int{0, 1, 2, 3, jsonv.ModeSparse}
	if c.Thorough() {
		modes = []int{0, 1, 2, 3, 4, 5, 6, 7, 8, 9, 10, 11, 12, 13, 14, 15, jsonv.ModeSparse}
	}
	// ---- phase 1: codecs
	var ops []drv.Op
	type vkey struct{ ci, mode int }
	values := map[vkey]proto.Message{}
	for ci, cc := range cases {
		if cc.skipped != "" {
			continue
		}
		tr := jsonv.NewTree(cc.ex.Schema)
		mdH, err := cc.builtH.Files.FindDescriptorByName(protoreflect.FullName(cc.top))
		if err != nil {
			c.Broken("%v", err)
		}
		for _, mode := range modes {
			v := jsonv.GenValue(mdH.(protoreflect.MessageDescriptor), mode, c.Seed, tr.Known)
			values[vkey{ci, mode}] = v
			b64 := base64.StdEncoding.EncodeToString(val.Det(v))
			ops = append(ops, drv.Op{Op: "codec", Case: ci, Call: mode*10 + 1, Type: cc.top, ValB64: b64},
				drv.Op{Op: "codec", Case: ci, Call: mode*10 + 2, Type: cc.topC, ValB64: b64})
		}
	}
	ev1 := runDrv(c, bin, w.Root, ops)
	// ---- phase 2: the real server: request body = the go-http codec's JSON, handler returns the value
	var ops2 []drv.Op
	jsonOf := map[vkey][]byte{}
	for ci, cc := range cases {
		if cc.skipped != "" {
			continue
		}
		for _, mode := range modes {
			for _, e := range ev1[fmt.Sprintf("%d/%d", ci, mode*10+1)] {
				if e["event"] == "Codec" && e["encOk"] == true {
					js := unb64s(e["jsonB64"])
					jsonOf[vkey{ci, mode}] = js
					ops2 = append(ops2, drv.Op{Op: "raw", Case: ci, Call: mode*10 + 3, Pkg: cc.pkgH, Verb: "POST", URL: "/api/do",
						Headers: [][2]string{{"Content-Type", "application/json"}}, BodyB64: base64.StdEncoding.EncodeToString(js),
						Handler: drv.HandlerCfg{Kind: "ok", RespType: cc.top, RespB64: base64.StdEncoding.EncodeToString(val.Det(values[vkey{ci, mode}]))}})
					// "another party": same document, members reversed, extra whitespace
					if alt := reshuffle(js); alt != nil {
						ops2 = append(ops2, drv.Op{Op: "decode", Case: ci, Call: mode*10 + 4, Type: cc.top, JSONB64: base64.StdEncoding.EncodeToString(alt)},
							drv.Op{Op: "decode", Case: ci, Call: mode*10 + 5, Type: cc.topC, JSONB64: base64.StdEncoding.EncodeToString(alt)})
					}
				}
			}
		}
	}
	ev2 := runDrv(c, bin, w.Root, ops2)
	// ---- events, round 1: what the real code produced
	type lineRef struct {
		ci, mode int
		line     string
	}
	var prefixes []string
	var allLines []lineRef
	lineOfSchema := map[int]string{}
	vtOf := map[vkey]jsonv.M{}
	evals := 0
	for ci, cc := range cases {
		if cc.skipped != "" {
			continue
		}
		tr := jsonv.NewTree(cc.ex.Schema)
		lineOfSchema[ci] = schemaLine(cc.ex)
		tree := func(b []byte) (jsonv.M, bool) {
			m, err := val.Decode(cc.builtH.Files, cc.top, b)
			if err != nil {
				return nullTree, false
			}
			return tr.Msg(m), true
		}
		for _, mode := range modes {
			v := values[vkey{ci, mode}]
			vt := tr.Msg(v.ProtoReflect())
			vtOf[vkey{ci, mode}] = vt
			add := func(e map[string]any) {
				e["server"] = strings.HasPrefix(fmt.Sprint(e["src"]), "server")
				allLines = append(allLines, lineRef{ci, mode, jsonLine(e)})
				evals++
			}
			for _, k := range []int{1, 2} {
				src := map[int]string{1: "go-http codec", 2: "go-client codec"}[k]
				for _, e := range ev1[fmt.Sprintf("%d/%d", ci, mode*10+k)] {
					switch e["event"] {
					case "Codec":
						jt := jsonv.M(nullTree)
						encOK := e["encOk"] == true
						if encOK {
							if t, err := jsonv.ParseJSON(unb64s(e["jsonB64"])); err == nil {
								jt = t
							} else {
								encOK = false
							}
						}
						add(map[string]any{"event": "Form", "src": src, "client": k == 2, "foreign": false, "want": k == 1, "ok": encOK, "val": vt, "json": jt,
							"detail": firstN(fmt.Sprint(e["encErr"]), 200)})
						back, ok := tree(unb64s(e["backB64"]))
						ok = ok && e["decOk"] == true
						add(map[string]any{"event": "Round", "src": src, "client": k == 2, "foreign": false, "ok": ok, "val": vt, "back": back,
							"detail": firstN(fmt.Sprint(e["decErr"]), 200), "jsonText": firstN(string(unb64s(e["jsonB64"])), 600)})
					case "CodecPanic":
						add(map[string]any{"event": "Form", "src": src, "client": k == 2, "foreign": false, "want": k == 1, "ok": false, "val": vt, "json": nullTree,
							"detail": "panic: " + firstN(fmt.Sprint(e["detail"]), 200)})
					case "DriverError":
						c.Broken("driver: %v", e["detail"])
					}
				}
			}
			for _, e := range ev2[fmt.Sprintf("%d/%d", ci, mode*10+3)] {
				switch e["event"] {
				case "HandlerSaw":
					back, ok := tree(unb64s(e["valB64"]))
					add(map[string]any{"event": "Accept", "src": "server request (its own encoding)", "client": false, "foreign": false, "ok": ok, "val": vt, "back": back, "detail": ""})
				case "Resp":
					jt, err := jsonv.ParseJSON(unb64s(e["bodyB64"]))
					ok := err == nil && int(e["status"].(float64)) == 200
					if err != nil {
						jt = nullTree
					}
					add(map[string]any{"event": "Form", "src": "server response", "client": false, "foreign": false, "want": false, "ok": ok, "val": vt, "json": jt,
						"detail": fmt.Sprintf("status %v", e["status"])})
				case "ServerPanic":
					add(map[string]any{"event": "Form", "src": "server response", "client": false, "foreign": false, "want": false, "ok": false, "val": vt, "json": nullTree, "detail": "server panic"})
				}
			}
		}
		if ci%16 == 0 {
			c.AddSample(map[string]any{"fv": cc.ex.Fv, "modes": modes, "sample_json": string(jsonOf[vkey{ci, 1}])})
		}
	}
	_ = prefixes
	judge := func(lines []lineRef, expect bool) (map[int]tlcVerdict, map[int]json.RawMessage) {
		// build the trace: a Schema line whenever the case changes
		var tl []string
		idx := map[int]int{} // trace line -> index into lines
		last := -1
		for i, lr := range lines {
			if lr.ci != last {
				tl = append(tl, lineOfSchema[lr.ci])
				last = lr.ci
			}
			tl = append(tl, lr.line)
			idx[len(tl)] = i
		}
		res := runInventory(c, "Trace_Json", "Trace_Json.cfg", tl, map[string]string{"Enforce": enforce, "Expect": map[bool]string{true: "TRUE", false: "FALSE"}[expect]})
		vs := map[int]tlcVerdict{}
		for ln, v := range res.Verdicts {
			if i, ok := idx[ln]; ok {
				vs[i] = tlcVerdict{v.OK, v.How}
			}
		}
		ex := map[int]json.RawMessage{}
		for ln, e := range res.Expects {
			if i, ok := idx[ln]; ok {
				ex[i] = e
			}
		}
		return vs, ex
	}
	v1, expects := judge(allLines, true)
	// ---- round 2: the contract form Enc(schema, value), as computed by TLC, produced by "another party"
	var ops3 []drv.Op
	for i, raw := range expects {
		lr := allLines[i]
		cc := cases[lr.ci]
		doc := renderCanon(raw)
		if doc == nil {
			c.Broken("cannot render the contract form printed by TLC")
		}
		b64 := base64.StdEncoding.EncodeToString(doc)
		ops3 = append(ops3, drv.Op{Op: "decode", Case: lr.ci, Call: lr.mode*10 + 6, Type: cc.top, JSONB64: b64},
			drv.Op{Op: "decode", Case: lr.ci, Call: lr.mode*10 + 7, Type: cc.topC, JSONB64: b64},
			drv.Op{Op: "raw", Case: lr.ci, Call: lr.mode*10 + 8, Pkg: cc.pkgH, Verb: "POST", URL: "/api/do",
				Headers: [][2]string{{"Content-Type", "application/json"}}, BodyB64: b64,
				Handler: drv.HandlerCfg{Kind: "ok", RespType: cc.top, RespB64: base64.StdEncoding.EncodeToString(val.Det(values[vkey{lr.ci, lr.mode}]))}})
	}
	sort.Slice(ops3, func(a, b int) bool {
		if ops3[a].Case != ops3[b].Case {
			return ops3[a].Case < ops3[b].Case
		}
		return ops3[a].Call < ops3[b].Call
	})
	ev3 := runDrv(c, bin, w.Root, ops3)
	var lines2 []lineRef
	for ci, cc := range cases {
		if cc.skipped != "" {
			continue
		}
		tr := jsonv.NewTree(cc.ex.Schema)
		tree := func(b []byte) (jsonv.M, bool) {
			m, err := val.Decode(cc.builtH.Files, cc.top, b)
			if err != nil {
				return nullTree, false
			}
			return tr.Msg(m), true
		}
		for _, mode := range modes {
			vt := vtOf[vkey{ci, mode}]
			for _, k := range []int{6, 7} {
				src := map[int]string{6: "go-http decode of the contract form", 7: "go-client decode of the contract form"}[k]
				for _, e := range ev3[fmt.Sprintf("%d/%d", ci, mode*10+k)] {
					if e["event"] == "Decode" {
						back, ok := tree(unb64s(e["valB64"]))
						ok = ok && e["ok"] == true
						lines2 = append(lines2, lineRef{ci, mode, jsonLine(map[string]any{"event": "Round", "server": false, "src": src, "client": k == 7, "foreign": true, "ok": ok, "val": vt, "back": back,
							"detail": firstN(fmt.Sprint(e["err"]), 200)})})
						evals++
					}
				}
			}
			saw := false
			for _, e := range ev3[fmt.Sprintf("%d/%d", ci, mode*10+8)] {
				if e["event"] == "HandlerSaw" {
					back, ok := tree(unb64s(e["valB64"]))
					lines2 = append(lines2, lineRef{ci, mode, jsonLine(map[string]any{"event": "Accept", "server": true, "src": "server request in contract form", "client": false, "foreign": true, "ok": ok, "val": vt, "back": back, "detail": ""})})
					saw = true
					evals++
				}
			}
			if !saw && len(ev3[fmt.Sprintf("%d/%d", ci, mode*10+8)]) > 0 {
				lines2 = append(lines2, lineRef{ci, mode, jsonLine(map[string]any{"event": "Accept", "server": true, "src": "server request in contract form", "client": false, "foreign": true, "ok": false, "val": vt, "back": nullTree,
					"detail": "the server did not dispatch the contract-form request"})})
				evals++
			}
		}
	}
	v2, _ := judge(lines2, false)
	// ---- verdicts
	c.Set("cases_outside_domain", nSkipped)
	c.Set("evaluations", evals)
	c.Set("rule", "one evaluation = one (schema, value, observation) judged by TLC; distinct = distinct (construct, context, value class, observation source)")
	accepted, bad := 0, 0
	distinct := map[string]bool{}
	table := map[string]int{}
	report := func(lines []lineRef, vs map[int]tlcVerdict) {
		for i, lr := range lines {
			v, ok := vs[i]
			if !ok {
				continue // the line's property group is not enforced by this check
			}
			cc := cases[lr.ci]
			var e map[string]any
			_ = json.Unmarshal([]byte(lr.line), &e)
			distinct[fmt.Sprintf("%v|%d|%v", cc.ex.Fv, lr.mode, e["src"])] = true
			table[fmt.Sprintf("%v | %v | %v | %v | %s", cc.ex.Fv["construct"], cc.ex.Fv["context"], e["event"], e["src"], v.How)]++
			if v.OK {
				accepted++
				if v.How != "contract" {
					c.Observe(v.How)
				}
				continue
			}
			bad++
			if bad <= 25 {
				rp := c.WriteReplay(map[string]any{"property": c.ID, "spec": "Trace_Json", "dev": c.Dev(), "fv": cc.ex.Fv, "value_mode": lr.mode,
					"schema": json.RawMessage(lineOfSchema[lr.ci]), "rejected_at": json.RawMessage(lr.line), "seed": c.Seed})
				c.Violation(rp, fmt.Sprintf("%v value class %d, %v (%v): %s", cc.ex.Fv, lr.mode, e["event"], e["src"], firstN(fmt.Sprint(e["detail"]), 200)))
			}
		}
	}
	report(allLines, v1)
	report(lines2, v2)
	if tf := os.Getenv("VERIF_TABLE"); tf != "" {
		var rows []string
		for k, n := range table {
			rows = append(rows, fmt.Sprintf("%s | %d", k, n))
		}
		sort.Strings(rows)
		_ = os.WriteFile(tf, []byte(strings.Join(rows, "\n")+"\n"), 0o644)
	}
	c.AddInt("traces_validated_against_impl", int64(accepted))
	c.Set("distinct_nontrivial", len(distinct))
	c.Infof("TLC judged %d observations: %d accepted, %d rejected (Dev = %v)", accepted+bad, accepted, bad, c.Dev())
	c.Done()
}

type tlcVerdict struct {
	OK  bool
	How string
}

// renderCanon renders the canonical tree TLC printed (objects as sets of <<key, value>> pairs)
// as a JSON document.
func renderCanon(raw json.RawMessage) []byte {
	var n map[string]any
	if json.Unmarshal(raw, &n) != nil {
		return nil
	}
	var sb strings.Builder
	var render func(n map[string]any) bool
	render = func(n map[string]any) bool {
		switch n["t"] {
		case "obj":
			ms, _ := n["m"].([]any)
			sb.WriteString("{")
			for i, kv := range ms {
				p, _ := kv.([]any)
				if len(p) != 2 {
					return false
				}
				if i > 0 {
					sb.WriteString(",")
				}
				k, _ := json.Marshal(p[0])
				sb.Write(k)
				sb.WriteString(":")
				v, _ := p[1].(map[string]any)
				if !render(v) {
					return false
				}
			}
			sb.WriteString("}")
		case "arr":
			es, _ := n["e"].([]any)
			sb.WriteString("[")
			for i, e := range es {
				if i > 0 {
					sb.WriteString(",")
				}
				v, _ := e.(map[string]any)
				if !render(v) {
					return false
				}
			}
			sb.WriteString("]")
		case "str":
			k, _ := json.Marshal(n["v"])
			sb.Write(k)
		case "num", "bool":
			sb.WriteString(fmt.Sprint(n["v"]))
		case "null":
			sb.WriteString("null")
		default:
			return false
		}
		return true
	}
	if !render(n) {
		return nil
	}
	return []byte(sb.String())
}

// runInventory runs a Trace_* spec in inventory mode over the lines and returns TLC's result.
func runInventory(c *chk.Ctx, module, cfg string, lines []string, consts map[string]string) *tlc.Result {
	f, err := os.CreateTemp("", "vh-trace-*.ndjson")
	if err == nil {
		name := f.Name()
		chk.AtExit(func() { _ = os.Remove(name) })
	}
	if err != nil {
		c.Broken("%v", err)
	}
	defer os.Remove(f.Name())
	for _, l := range lines {
		fmt.Fprintln(f, l)
	}
	f.Close()
	if d := os.Getenv("VERIF_DUMP_TRACE"); d != "" {
		b, _ := os.ReadFile(f.Name())
		if _, err := os.Stat(d); err == nil {
			d += ".2"
		}
		_ = os.WriteFile(d, b, 0o644)
	}
	cs := map[string]string{"Dev": trace.DevSet(c.Dev()), "Inventory": "TRUE"}
	for k, v := range consts {
		cs[k] = v
	}
	res, err := tlc.Exec(tlc.Run{Module: module, Config: cfg, Workers: 1, Constants: cs, Files: map[string]string{"trace.ndjson": f.Name()}})
	if err != nil {
		c.Broken("tlc: %v", err)
	}
	if !res.OK {
		c.Broken("TLC failed on the trace: %s", firstN(res.Error, 1500))
	}
	c.AddInt("trace_states", res.Distinct)
	return res
}

func lineRank(l string) int {
	switch {
	case strings.Contains(l, `"src":"go-http codec"`):
		return 1
	case strings.Contains(l, `"src":"go-client codec"`):
		return 2
	case strings.Contains(l, `"src":"server re`):
		return 3
	}
	return 4
}

// reshuffle re-renders a JSON document with object members in reverse order and extra whitespace.
func reshuffle(b []byte) []byte {
	t, err := jsonv.ParseJSON(b)
	if err != nil {
		return nil
	}
	var sb strings.Builder
	var render func(n jsonv.M)
	render = func(n jsonv.M) {
		switch n["t"] {
		case "obj":
			ms := n["m"].([]jsonv.M)
			sb.WriteString("{ ")
			for i := len(ms) - 1; i >= 0; i-- {
				k, _ := json.Marshal(ms[i]["k"])
				sb.Write(k)
				sb.WriteString(" : ")
				render(ms[i]["v"].(jsonv.M))
				if i > 0 {
					sb.WriteString(" ,\n ")
				}
			}
			sb.WriteString(" }")
		case "arr":
			es := n["e"].([]jsonv.M)
			sb.WriteString("[ ")
			for i, e := range es {
				if i > 0 {
					sb.WriteString(" , ")
				}
				render(e)
			}
			sb.WriteString(" ]")
		case "str":
			k, _ := json.Marshal(n["v"])
			sb.Write(k)
		case "num", "bool":
			sb.WriteString(fmt.Sprint(n["v"]))
		default:
			sb.WriteString("null")
		}
	}
	render(t)
	return []byte(sb.String())
}
