package main

import (
	"encoding/base64"
	"encoding/json"
	"fmt"
	"sort"
	"strings"

	"google.golang.org/protobuf/proto"
	"google.golang.org/protobuf/reflect/protoreflect"

	"verifharness/abs"
	"verifharness/chk"
	"verifharness/drv"
	"verifharness/jsonv"
	"verifharness/pipe"
	"verifharness/trace"
	"verifharness/val"
	"verifharness/work"
)

type codecCase struct {
	idx     int
	ex      *pipe.Exported // schema with the "h" prefix
	builtH  *abs.Built
	builtC  *abs.Built
	top     string // full name of the RPC's message (h naming)
	topC    string
	okH     bool
	okC     bool
	pkgH    string
	pkgC    string
	seg     *trace.Segment
	skipped string
}

var nullTree = jsonv.M{"t": "null"}

// codecCheck is the common body of C04 (round trip, go-http vs go-client) and C05 (form at any depth).
func codecCheck(c *chk.Ctx, enforce string) {
	extraConsts["Enforce"] = enforce
	set := pluginSet(c)
	res := runMC(c, "MC_Json", "MC_Json.cfg", nil, true)
	raws := make([]string, 0, len(res.Cases))
	for _, r := range res.Cases {
		raws = append(raws, string(r))
	}
	sort.Strings(raws)
	w, err := work.New()
	if err != nil {
		c.Broken("%v", err)
	}
	defer w.Close()
	stride := 2
	if c.Thorough() {
		stride = 1
	}
	var cases []*codecCase
	for i, raw := range raws {
		if (i+int(c.Seed))%stride != 0 {
			continue
		}
		cc := &codecCase{idx: i}
		eh, err := pipe.ParseExported(json.RawMessage(raw), fmt.Sprintf("j%dh", i))
		if err != nil {
			c.Broken("bad exported case: %v", err)
		}
		ec, _ := pipe.ParseExported(json.RawMessage(raw), fmt.Sprintf("j%dc", i))
		cc.ex = eh
		cc.pkgH, cc.pkgC = fmt.Sprintf("gen/j%dh", i), fmt.Sprintf("gen/j%dc", i)
		cc.top = eh.Schema.Files[0].Services[0].Methods[0].In
		cc.topC = ec.Schema.Files[0].Services[0].Methods[0].In
		emH, err := w.Emit(set, eh.Schema, work.EmitOpts{Plugins: []string{"go-http"}})
		if err != nil {
			c.Broken("%v", err)
		}
		emC, err := w.Emit(set, ec.Schema, work.EmitOpts{Plugins: []string{"go-client"}, NoGlue: true})
		if err != nil {
			c.Broken("%v", err)
		}
		cc.builtH, cc.builtC = emH.Built, emC.Built
		cc.okH, cc.okC = emH.Results["go-http"].OK(), emC.Results["go-client"].OK()
		if !cc.okH || !cc.okC {
			cc.skipped = "refused by the generators: " + firstN(emH.Results["go-http"].Error+emC.Results["go-client"].Error, 160)
		}
		cases = append(cases, cc)
	}
	// packages that do not build are C13's business; they are left out here
	fails, _, err := w.BuildPkgs(nil, "./gen/...")
	if err != nil {
		c.Broken("go build: %v", err)
	}
	var specs []work.PkgSpec
	nSkipped := 0
	for _, cc := range cases {
		if cc.skipped == "" {
			if d, bad := fails[cc.pkgH]; bad {
				cc.skipped = "go-http package does not build (C13): " + firstN(d, 120)
			} else if d, bad := fails[cc.pkgC]; bad {
				cc.skipped = "go-client package does not build (C13): " + firstN(d, 120)
			}
		}
		if cc.skipped != "" {
			nSkipped++
			continue
		}
		specs = append(specs, work.PkgSpec{ImportPath: "scratch/" + cc.pkgH, Server: true}, work.PkgSpec{ImportPath: "scratch/" + cc.pkgC, NoServices: true})
	}
	if err := w.WriteDriver("drv", specs); err != nil {
		c.Broken("%v", err)
	}
	bin, bout, err := w.BuildBinary("./drv", "drv")
	if err != nil {
		c.Broken("driver does not build: %s", firstN(bout, 1500))
	}
	c.Infof("%d cases (%d outside the accepted / buildable domain), driver built", len(cases), nSkipped)
	modes := []int{0, 1, 2, 3, 4}
	if c.Thorough() {
		modes = []int{0, 1, 2, 3, 4, 5, 6, 7, 8, 9}
	}
	// ---- phase 1: codecs
	var ops []drv.Op
	type vkey struct{ ci, mode int }
	values := map[vkey]proto.Message{}
	for ci, cc := range cases {
		if cc.skipped != "" {
			continue
		}
		tr := jsonv.NewTree(cc.ex.Schema)
		mdH, err := cc.builtH.Files.FindDescriptorByName(protoreflect.FullName(cc.top))
		if err != nil {
			c.Broken("%v", err)
		}
		for _, mode := range modes {
			v := jsonv.GenValue(mdH.(protoreflect.MessageDescriptor), mode, c.Seed, tr.Known)
			values[vkey{ci, mode}] = v
			b64 := base64.StdEncoding.EncodeToString(val.Det(v))
			ops = append(ops, drv.Op{Op: "codec", Case: ci, Call: mode*10 + 1, Type: cc.top, ValB64: b64},
				drv.Op{Op: "codec", Case: ci, Call: mode*10 + 2, Type: cc.topC, ValB64: b64})
		}
	}
	ev1 := runDrv(c, bin, w.Root, ops)
	// ---- phase 2: the real server: request body = the go-http codec's JSON, handler returns the value
	var ops2 []drv.Op
	jsonOf := map[vkey][]byte{}
	for ci, cc := range cases {
		if cc.skipped != "" {
			continue
		}
		for _, mode := range modes {
			for _, e := range ev1[fmt.Sprintf("%d/%d", ci, mode*10+1)] {
				if e["event"] == "Codec" && e["encOk"] == true {
					js := unb64s(e["jsonB64"])
					jsonOf[vkey{ci, mode}] = js
					ops2 = append(ops2, drv.Op{Op: "raw", Case: ci, Call: mode*10 + 3, Pkg: cc.pkgH, Verb: "POST", URL: "/api/do",
						Headers: [][2]string{{"Content-Type", "application/json"}}, BodyB64: base64.StdEncoding.EncodeToString(js),
						Handler: drv.HandlerCfg{Kind: "ok", RespType: cc.top, RespB64: base64.StdEncoding.EncodeToString(val.Det(values[vkey{ci, mode}]))}})
					// "another party": same document, members reversed, extra whitespace
					if alt := reshuffle(js); alt != nil {
						ops2 = append(ops2, drv.Op{Op: "decode", Case: ci, Call: mode*10 + 4, Type: cc.top, JSONB64: base64.StdEncoding.EncodeToString(alt)},
							drv.Op{Op: "decode", Case: ci, Call: mode*10 + 5, Type: cc.topC, JSONB64: base64.StdEncoding.EncodeToString(alt)})
					}
				}
			}
		}
	}
	ev2 := runDrv(c, bin, w.Root, ops2)
	// ---- events
	evals := 0
	var segs []*trace.Segment
	for ci, cc := range cases {
		if cc.skipped != "" {
			continue
		}
		tr := jsonv.NewTree(cc.ex.Schema)
		prefix := schemaLine(cc.ex)
		tree := func(b []byte) (jsonv.M, bool) {
			m, err := val.Decode(cc.builtH.Files, cc.top, b)
			if err != nil {
				return nullTree, false
			}
			return tr.Msg(m), true
		}
		for _, mode := range modes {
			v := values[vkey{ci, mode}]
			vt := tr.Msg(v.ProtoReflect())
			seg := &trace.Segment{ID: len(segs), Meta: map[string]any{"fv": cc.ex.Fv, "mode": mode}, Prefix: prefix}
			add := func(e map[string]any) {
				seg.Lines = append(seg.Lines, jsonLine(e))
				evals++
			}
			for k, src := range map[int]string{1: "go-http codec", 2: "go-client codec"} {
				for _, e := range ev1[fmt.Sprintf("%d/%d", ci, mode*10+k)] {
					switch e["event"] {
					case "Codec":
						jt := jsonv.M(nullTree)
						encOK := e["encOk"] == true
						if encOK {
							if t, err := jsonv.ParseJSON(unb64s(e["jsonB64"])); err == nil {
								jt = t
							} else {
								encOK = false
							}
						}
						add(map[string]any{"event": "Form", "src": src, "ok": encOK, "val": vt, "json": jt, "detail": firstN(fmt.Sprint(e["encErr"]), 200)})
						back, ok := tree(unb64s(e["backB64"]))
						ok = ok && e["decOk"] == true
						add(map[string]any{"event": "Round", "src": src, "ok": ok, "val": vt, "back": back, "detail": firstN(fmt.Sprint(e["decErr"]), 200)})
					case "CodecPanic":
						add(map[string]any{"event": "Form", "src": src, "ok": false, "val": vt, "json": nullTree, "detail": "panic: " + firstN(fmt.Sprint(e["detail"]), 200)})
					case "DriverError":
						c.Broken("driver: %v", e["detail"])
					}
				}
			}
			for _, e := range ev2[fmt.Sprintf("%d/%d", ci, mode*10+3)] {
				switch e["event"] {
				case "HandlerSaw":
					back, ok := tree(unb64s(e["valB64"]))
					add(map[string]any{"event": "Accept", "src": "server request", "ok": ok, "val": vt, "back": back, "detail": ""})
				case "Resp":
					jt, err := jsonv.ParseJSON(unb64s(e["bodyB64"]))
					ok := err == nil && int(e["status"].(float64)) == 200
					if err != nil {
						jt = nullTree
					}
					add(map[string]any{"event": "Form", "src": "server response", "ok": ok, "val": vt, "json": jt, "detail": fmt.Sprintf("status %v", e["status"])})
				case "ServerPanic":
					add(map[string]any{"event": "Form", "src": "server response", "ok": false, "val": vt, "json": nullTree, "detail": "server panic"})
				}
			}
			for k, src := range map[int]string{4: "go-http decode of another party's document", 5: "go-client decode of another party's document"} {
				for _, e := range ev2[fmt.Sprintf("%d/%d", ci, mode*10+k)] {
					if e["event"] == "Decode" {
						back, ok := tree(unb64s(e["valB64"]))
						ok = ok && e["ok"] == true
						add(map[string]any{"event": "Round", "src": src, "ok": ok, "val": vt, "back": back, "detail": firstN(fmt.Sprint(e["err"]), 200)})
					}
				}
			}
			// deterministic line order
			sort.SliceStable(seg.Lines, func(a, b int) bool { return lineRank(seg.Lines[a]) < lineRank(seg.Lines[b]) })
			segs = append(segs, seg)
		}
		if ci%16 == 0 {
			c.AddSample(map[string]any{"fv": cc.ex.Fv, "modes": modes, "sample_json": string(jsonOf[vkey{ci, 1}])})
		}
	}
	c.Set("cases_outside_domain", nSkipped)
	judgeSegmentsN(c, "Trace_Json", "Trace_Json.cfg", segs, evals, 60)
	c.Done()
}

func lineRank(l string) int {
	switch {
	case strings.Contains(l, `"src":"go-http codec"`):
		return 1
	case strings.Contains(l, `"src":"go-client codec"`):
		return 2
	case strings.Contains(l, `"src":"server re`):
		return 3
	}
	return 4
}

// reshuffle re-renders a JSON document with object members in reverse order and extra whitespace.
func reshuffle(b []byte) []byte {
	t, err := jsonv.ParseJSON(b)
	if err != nil {
		return nil
	}
	var sb strings.Builder
	var render func(n jsonv.M)
	render = func(n jsonv.M) {
		switch n["t"] {
		case "obj":
			ms := n["m"].([]jsonv.M)
			sb.WriteString("{ ")
			for i := len(ms) - 1; i >= 0; i-- {
				k, _ := json.Marshal(ms[i]["k"])
				sb.Write(k)
				sb.WriteString(" : ")
				render(ms[i]["v"].(jsonv.M))
				if i > 0 {
					sb.WriteString(" ,\n ")
				}
			}
			sb.WriteString(" }")
		case "arr":
			es := n["e"].([]jsonv.M)
			sb.WriteString("[ ")
			for i, e := range es {
				if i > 0 {
					sb.WriteString(" , ")
				}
				render(e)
			}
			sb.WriteString(" ]")
		case "str":
			k, _ := json.Marshal(n["v"])
			sb.Write(k)
		case "num", "bool":
			sb.WriteString(fmt.Sprint(n["v"]))
		default:
			sb.WriteString("null")
		}
	}
	render(t)
	return []byte(sb.String())
}
