package main

import (
	"fmt"
	"os"
)

func main() {
	if len(os.Args) < 2 {
		fmt.Fprintln(os.Stderr, "usage: vh <command> ...")
		os.Exit(2)
	}
	switch os.Args[1] {
	case "smoke":
		os.Exit(smoke())
	default:
		fmt.Fprintln(os.Stderr, "unknown command", os.Args[1])
		os.Exit(2)
	}
}
