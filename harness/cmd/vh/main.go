package main

import (
	"fmt"
	"os"
	"verifharness/tlc"

	"verifharness/chk"
)

func main() {
	tlc.AtExit = chk.AtExit
	if len(os.Args) < 2 {
		fmt.Fprintln(os.Stderr, "usage: vh check <Cxx> [--tier quick|thorough] [--replay file] | vh smoke")
		os.Exit(2)
	}
	switch os.Args[1] {
	case "smoke":
		os.Exit(smoke())
	case "check":
		if len(os.Args) < 3 {
			fmt.Fprintln(os.Stderr, "usage: vh check <Cxx>")
			os.Exit(2)
		}
		id := os.Args[2]
		tier, replay := "", ""
		for i := 3; i < len(os.Args); i++ {
			switch os.Args[i] {
			case "--tier":
				i++
				tier = os.Args[i]
			case "--replay":
				i++
				replay = os.Args[i]
			}
		}
		c := chk.New(id, tier)
		_ = replay
		switch id {
		case "C01":
			checkC01(c)
		case "C02":
			wireCheck(c, "C02", true, nil)
		case "C03":
			checkC03(c)
		case "C04":
			codecCheck(c, `{"C04"}`)
		case "C05":
			codecCheck(c, `{"C05"}`)
		case "C06":
			checkC06(c)
		case "C17":
			checkC17(c)
		case "C18":
			checkC18(c)
		case "C19":
			checkC19(c)
		case "C20":
			checkC20(c)
		case "C07":
			checkC07(c)
		case "C08":
			checkC08(c)
		case "C09":
			wireCheck(c, "C09", false, nil)
		case "C10":
			wireCheck(c, "C10", false, nil)
		case "C11":
			wireCheck(c, "C11", true, nil)
		case "C12":
			checkC12(c)
		case "C13":
			checkC13(c)
		case "C14":
			checkC14(c)
		case "C15":
			checkC15(c)
		case "C16":
			checkC16(c)
		default:
			fmt.Fprintln(os.Stderr, "no check for", id)
			os.Exit(2)
		}
	default:
		fmt.Fprintln(os.Stderr, "unknown command", os.Args[1])
		os.Exit(2)
	}
}
