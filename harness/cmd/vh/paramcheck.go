package main

import (
	"bytes"
	"encoding/base64"
	"encoding/json"
	"fmt"
	"net/url"
	"os"
	"path/filepath"
	"sort"
	"strings"

	"google.golang.org/protobuf/encoding/protojson"
	"google.golang.org/protobuf/reflect/protoreflect"

	"verifharness/abs"
	"verifharness/chk"
	"verifharness/drv"
	"verifharness/jsonv"
	"verifharness/pipe"
	"verifharness/plug"
	"verifharness/val"
	"verifharness/work"
)

// paramValuesCheck is the parameter half of C06: "every path, query and header value sent validates
// against its declared parameter schema".  The family schema (MC_Params / SebufFamilies!C06ParamCase:
// a URL-carried field for every accepted kind x cardinality x annotation, reached by a GET and a PUT)
// goes through the real go-client, ts-client and openapiv3 plugins; the real clients are called with
// populated, boundary and random values; every path segment and query occurrence they put into the
// URL is looked up in the real document (operation, name, location) and judged against the declared
// schema by the instrument.  Returns the trace lines ("Param" events) for Trace_OpenApi.
func paramValuesCheck(c *chk.Ctx, set *plug.Set) (lines []string, labels []string) {
	res := runMC(c, "MC_Params", "MC_Params.cfg", nil, true)
	if len(res.Cases) != 1 {
		c.Broken("MC_Params exported %d cases", len(res.Cases))
	}
	ex, err := pipe.ParseExported(res.Cases[0], "pm")
	if err != nil {
		c.Broken("bad exported case: %v", err)
	}
	w, err := work.New()
	if err != nil {
		c.Broken("%v", err)
	}
	defer w.Close()
	em, err := w.Emit(set, ex.Schema, work.EmitOpts{Plugins: []string{"go-client", "ts-client"}})
	if err != nil {
		c.Broken("%v", err)
	}
	for _, p := range []string{"go-client", "ts-client"} {
		if r := em.Results[p]; !r.OK() {
			rp := c.WriteReplay(map[string]any{"property": c.ID, "part": "parameters", "stage": "generate", "plugin": p, "error": r.Error})
			c.Violation(rp, p+" refused the parameter family schema: "+firstN(r.Error, 300))
			return nil, nil
		}
	}
	rd := set.Run("openapiv3", em.Built.Request("format=json", nil), plug.RunOpts{})
	if !rd.OK() {
		rp := c.WriteReplay(map[string]any{"property": c.ID, "part": "parameters", "stage": "generate", "plugin": "openapiv3", "error": rd.Error})
		c.Violation(rp, "openapiv3 refused the parameter family schema: "+firstN(rd.Error, 300))
		return nil, nil
	}
	var doc map[string]any
	for _, f := range rd.Files {
		if strings.HasSuffix(f.Name, ".openapi.json") {
			if err := json.Unmarshal([]byte(f.Content), &doc); err != nil {
				c.Broken("document does not parse: %v", err)
			}
		}
	}
	var tsCli string
	for _, tf := range em.Results["ts-client"].Files {
		p := filepath.Join(w.Root, "ts", tf.Name)
		_ = os.MkdirAll(filepath.Dir(p), 0o755)
		_ = os.WriteFile(p, []byte(tf.Content), 0o644)
		tsCli = p
	}
	if err := w.WriteDriver("drv", []work.PkgSpec{{ImportPath: "scratch/gen/pm", Client: true}}); err != nil {
		c.Broken("%v", err)
	}
	bin, bout, err := w.BuildBinary("./drv", "drv")
	if err != nil {
		rp := c.WriteReplay(map[string]any{"property": c.ID, "part": "parameters", "stage": "build", "error": firstN(bout, 3000)})
		c.Violation(rp, "the emitted Go client of the parameter family does not build: "+firstN(bout, 300))
		return nil, nil
	}
	// ---- the operations of the document: rpc -> (location|name) -> parameter
	type param struct {
		schema map[string]any
	}
	ops := map[string]map[string]*param{}
	tmpl := map[string]string{}
	paths, _ := doc["paths"].(map[string]any)
	for pth, item := range paths {
		im, _ := item.(map[string]any)
		for _, o := range im {
			op, _ := o.(map[string]any)
			id, _ := op["operationId"].(string)
			if id == "" {
				continue
			}
			ops[id] = map[string]*param{}
			tmpl[id] = pth
			ps, _ := op["parameters"].([]any)
			for _, x := range ps {
				pm, _ := x.(map[string]any)
				sc, _ := pm["schema"].(map[string]any)
				ops[id][fmt.Sprint(pm["in"])+"|"+fmt.Sprint(pm["name"])] = &param{schema: sc}
			}
		}
	}
	// ---- calls
	sv := ex.Schema.Files[0].Services[0]
	ix := ex.Schema.Index()
	modes := []int{1, 2, 3}
	if c.Thorough() {
		modes = []int{1, 2, 3, 4, 5, 6, 7, 8, 9, 10}
	}
	tr := jsonv.NewTree(ex.Schema)
	var gops []drv.Op
	var tops []map[string]any
	type callRef struct {
		rpc  string
		mode int
	}
	calls := map[int]callRef{}
	id := 0
	canned := &drv.Canned{Status: 200, Headers: [][2]string{{"Content-Type", "application/json"}}, BodyB64: base64.StdEncoding.EncodeToString([]byte("{}"))}
	for _, me := range sv.Methods {
		md, err := em.Built.Files.FindDescriptorByName(protoreflect.FullName(me.In))
		if err != nil {
			c.Broken("%v", err)
		}
		in := ix.Msgs[me.In]
		for _, mode := range modes {
			id++
			calls[id] = callRef{me.Name, mode}
			m := jsonv.GenValue(md.(protoreflect.MessageDescriptor), mode, c.Seed, tr.Known)
			// path variables are never empty
			for _, fl := range in.Fields {
				fd := m.Descriptor().Fields().ByName(protoreflect.Name(fl.Name))
				if strings.HasPrefix(fl.Name, "p_") && fl.Kind == "string" && m.Get(fd).String() == "" {
					m.Set(fd, protoreflect.ValueOfString("seg ment"))
				}
			}
			gops = append(gops, drv.Op{Op: "call", Case: id, Call: 1, Pkg: "gen/pm", Svc: sv.Name, Rpc: me.Name, ReqType: me.In,
				ReqB64: base64.StdEncoding.EncodeToString(val.Det(m)), Canned: canned})
			// the TS request object: the proto3 JSON form, with the members whose TS type the annotations
			// change given in that type (NUMBER-encoded 64-bit integers and enums as numbers, custom enum values)
			// (every member the TS interface requires is present: zero values are written out; an unset
			// proto3 optional field is an absent member)
			js, _ := protojson.MarshalOptions{EmitUnpopulated: true}.Marshal(m)
			var req map[string]any
			d := json.NewDecoder(bytes.NewReader(js))
			d.UseNumber()
			_ = d.Decode(&req)
			for k, v := range req {
				if v == nil {
					delete(req, k)
				}
			}
			for _, fl := range in.Fields {
				jn := abs.JSONName(fl.Name)
				v, ok := req[jn]
				if !ok {
					continue
				}
				switch {
				case fl.Ann.Int64 == "NUMBER":
					if sv, isStr := v.(string); isStr {
						req[jn] = json.Number(sv)
					}
				case fl.Kind == "enum" && fl.Ann.EnumEnc == "NUMBER":
					req[jn] = json.Number(fmt.Sprint(int32(m.Get(m.Descriptor().Fields().ByName(protoreflect.Name(fl.Name))).Enum())))
				case fl.Kind == "enum":
					if e := ix.Enums[fl.Ref]; e != nil {
						for _, ev := range e.Values {
							if ev.Name == v && ev.Custom != "" {
								req[jn] = ev.Custom
							}
						}
					}
				}
			}
			tops = append(tops, map[string]any{"op": "tscall", "case": id, "call": 1, "module": tsCli, "service": sv.Name, "rpc": me.Name, "req": req,
				"canned": map[string]any{"status": 200, "headers": canned.Headers, "bodyB64": canned.BodyB64}})
		}
	}
	gev := runDrv(c, bin, w.Root, gops)
	tev := runTS(c, w.Root, tops)
	type sent struct {
		client string
		id     int
		path   string
		query  string
	}
	var sents []sent
	for i := 1; i <= id; i++ {
		for _, e := range gev[fmt.Sprintf("%d/1", i)] {
			if e["event"] == "Sent" {
				sents = append(sents, sent{"go", i, fmt.Sprint(e["path"]), fmt.Sprint(e["rawQuery"])})
			}
		}
	}
	for _, e := range tev {
		switch e["event"] {
		case "Sent":
			if cid, ok := e["case"].(float64); ok {
				sents = append(sents, sent{"ts", int(cid), fmt.Sprint(e["path"]), fmt.Sprint(e["rawQuery"])})
			}
		case "TsLoadError", "DriverError":
			rp := c.WriteReplay(map[string]any{"property": c.ID, "part": "parameters", "stage": "ts", "event": e})
			c.Violation(rp, fmt.Sprintf("TypeScript client of the parameter family failed: %v", firstN(fmt.Sprint(e["detail"]), 300)))
			return nil, nil
		}
	}
	if len(sents) < 2*id {
		c.Broken("parameter part: %d requests observed for %d calls of two clients", len(sents), id)
	}
	// ---- every value sent -> instrument job
	type obs struct {
		client, rpc, in, name string
		mode                  int
		declared              bool
		texts                 []string
		jobs                  []int
	}
	var all []*obs
	var jobs []map[string]any
	wrap := func(sc map[string]any) map[string]any {
		return map[string]any{"$schema": "https://json-schema.org/draft/2020-12/schema", "components": doc["components"], "allOf": []any{sc}}
	}
	typesOf := func(sc map[string]any) map[string]bool {
		out := map[string]bool{}
		switch t := sc["type"].(type) {
		case string:
			out[t] = true
		case []any:
			for _, x := range t {
				out[fmt.Sprint(x)] = true
			}
		}
		return out
	}
	// the wire text read as the declared type reads it
	instance := func(sc map[string]any, text string) any {
		ts := typesOf(sc)
		if ts["integer"] || ts["number"] || ts["boolean"] {
			var v any
			d := json.NewDecoder(strings.NewReader(text))
			d.UseNumber()
			if err := d.Decode(&v); err == nil && !d.More() {
				switch v.(type) {
				case json.Number:
					if ts["integer"] || ts["number"] {
						return v
					}
				case bool:
					if ts["boolean"] {
						return v
					}
				}
			}
		}
		return text
	}
	addObs := func(s sent, loc, name string, texts []string) {
		cr := calls[s.id]
		o := &obs{client: s.client, rpc: cr.rpc, mode: cr.mode, in: loc, name: name, texts: texts}
		pm := ops[cr.rpc][loc+"|"+name]
		if pm != nil && pm.schema != nil {
			o.declared = true
			sc := pm.schema
			if typesOf(sc)["array"] {
				if it, ok := sc["items"].(map[string]any); ok {
					// a repeated parameter travels as repeated occurrences: the whole list is the instance
					var arr []any
					for _, t := range texts {
						arr = append(arr, instance(it, t))
					}
					o.jobs = append(o.jobs, len(jobs))
					jobs = append(jobs, map[string]any{"id": len(jobs), "schema": wrap(sc), "instance": arr})
					all = append(all, o)
					return
				}
			}
			for _, t := range texts {
				o.jobs = append(o.jobs, len(jobs))
				jobs = append(jobs, map[string]any{"id": len(jobs), "schema": wrap(sc), "instance": instance(sc, t)})
			}
		}
		all = append(all, o)
	}
	for _, s := range sents {
		cr := calls[s.id]
		tp := strings.Split(strings.Trim(tmpl[cr.rpc], "/"), "/")
		sp := strings.Split(strings.Trim(s.path, "/"), "/")
		if len(tp) == len(sp) {
			for i, seg := range tp {
				if strings.HasPrefix(seg, "{") {
					if dec, err := url.PathUnescape(sp[i]); err == nil {
						addObs(s, "path", strings.Trim(seg, "{}"), []string{dec})
					}
				}
			}
		}
		q, _ := url.ParseQuery(s.query)
		names := make([]string, 0, len(q))
		for n := range q {
			names = append(names, n)
		}
		sort.Strings(names)
		for _, n := range names {
			addObs(s, "query", n, q[n])
		}
	}
	verdict := instrument(c, jobs)
	nInvalid, nUndeclared := 0, 0
	for _, o := range all {
		vals := []map[string]any{}
		for i, t := range o.texts {
			v := "n/a"
			if o.declared {
				j := o.jobs[0]
				if i < len(o.jobs) {
					j = o.jobs[i]
				}
				if verdict[j] {
					v = "valid"
				} else {
					v = "invalid"
					nInvalid++
				}
			}
			vals = append(vals, map[string]any{"text": t, "instr": v})
		}
		if !o.declared {
			nUndeclared++
		}
		lines = append(lines, jsonLine(map[string]any{"event": "Param", "client": o.client, "rpc": o.rpc, "in": o.in, "name": o.name, "mode": o.mode,
			"declared": o.declared, "values": vals}))
		labels = append(labels, fmt.Sprintf("%s client, %s, %s parameter %s (value class %d): %v", o.client, o.rpc, o.in, o.name, o.mode, o.texts))
	}
	c.Infof("parameters: %d values of %d URL-carried fields sent by the real Go / TS clients judged against the real document (%d invalid, %d not declared)",
		len(jobs), len(ops["Get"]), nInvalid, nUndeclared)
	c.Set("parameter_values_judged", len(jobs))
	return lines, labels
}
