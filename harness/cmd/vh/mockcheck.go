package main

import (
	"encoding/base64"
	"encoding/json"
	"fmt"
	"strconv"
	"strings"

	"google.golang.org/protobuf/encoding/protojson"
	"google.golang.org/protobuf/reflect/protoreflect"

	"verifharness/abs"
	"verifharness/chk"
	"verifharness/drv"
	"verifharness/gobuild"
	"verifharness/jsonv"
	"verifharness/pipe"
	"verifharness/val"
	"verifharness/work"
)

// parseExample converts an example string to the token of the field's type ("" , false = unparsable).
func parseExample(fd protoreflect.FieldDescriptor, ex string) (string, bool) {
	switch fd.Kind() {
	case protoreflect.StringKind:
		return strconv.Quote(ex), true
	case protoreflect.BoolKind:
		b, err := strconv.ParseBool(ex)
		return strconv.FormatBool(b), err == nil
	case protoreflect.Int32Kind, protoreflect.Sint32Kind, protoreflect.Sfixed32Kind:
		v, err := strconv.ParseInt(ex, 10, 32)
		return strconv.FormatInt(v, 10), err == nil
	case protoreflect.Int64Kind, protoreflect.Sint64Kind, protoreflect.Sfixed64Kind:
		v, err := strconv.ParseInt(ex, 10, 64)
		return strconv.FormatInt(v, 10), err == nil
	case protoreflect.Uint32Kind, protoreflect.Fixed32Kind:
		v, err := strconv.ParseUint(ex, 10, 32)
		return strconv.FormatUint(v, 10), err == nil
	case protoreflect.Uint64Kind, protoreflect.Fixed64Kind:
		v, err := strconv.ParseUint(ex, 10, 64)
		return strconv.FormatUint(v, 10), err == nil
	case protoreflect.FloatKind:
		v, err := strconv.ParseFloat(ex, 32)
		return "f" + strconv.FormatFloat(v, 'g', -1, 32), err == nil
	case protoreflect.DoubleKind:
		v, err := strconv.ParseFloat(ex, 64)
		return "f" + strconv.FormatFloat(v, 'g', -1, 64), err == nil
	case protoreflect.EnumKind:
		if ev := fd.Enum().Values().ByName(protoreflect.Name(ex)); ev != nil {
			return "e" + strconv.Itoa(int(ev.Number())), true
		}
		return "", false
	}
	return "", false
}

// checkC20 : the optional mock server builds and answers with contract-conformant examples.
func checkC20(c *chk.Ctx) {
	set := pluginSet(c)
	cases := exportedCases(c, "MC_Pipeline_C20.cfg", "m")
	w, err := work.New()
	if err != nil {
		c.Broken("%v", err)
	}
	defer w.Close()
	type mcase struct {
		ex      *pipe.Exported
		built   *abs.Built
		pkg     string
		docs    []*svcDoc
		docLine []string
		gen     string
	}
	var mcs []*mcase
	for i, e := range cases {
		if false && (i+int(c.Seed))%2 != 0 && e.Fv["pl"] == "flat" { // (no sampling: both tiers run every case)
			continue
		}
		mc := &mcase{ex: e, pkg: strings.TrimPrefix(svcFile(e.Schema).GoImportPath(), "scratch/")}
		em, err := w.Emit(set, e.Schema, work.EmitOpts{Plugins: []string{"go-http"}, Params: map[string]string{"go-http": "generate_mock=true"}})
		if err != nil {
			c.Broken("%v", err)
		}
		mc.built = em.Built
		if r := em.Results["go-http"]; !r.OK() {
			mc.gen = r.Exit + ": " + firstN(r.Error, 200)
		}
		docs, lines, derr := docsOf(c, set, em.Built, e.Schema, false)
		if derr == "" {
			mc.docs, mc.docLine = docs, lines[:len(docs)]
		}
		mcs = append(mcs, mc)
	}
	fails, _, err := w.BuildPkgs(nil, "./gen/...")
	if err != nil {
		c.Broken("go build: %v", err)
	}
	var specs []work.PkgSpec
	for _, mc := range mcs {
		if mc.gen == "" && fails[mc.pkg] == "" {
			specs = append(specs, work.PkgSpec{ImportPath: "scratch/" + mc.pkg, Server: true, Mock: true})
		}
	}
	if err := w.WriteDriver("drv", specs); err != nil {
		c.Broken("%v", err)
	}
	bin, bout, err := w.BuildBinary("./drv", "drv")
	if err != nil {
		c.Broken("driver does not build: %s", firstN(bout, 1500))
	}
	reps := 6
	if c.Thorough() {
		reps = 20
	}
	var ops []drv.Op
	for ci, mc := range mcs {
		if mc.gen != "" || fails[mc.pkg] != "" {
			continue
		}
		for _, sv := range svcFile(mc.ex.Schema).Services {
			for mi, me := range sv.Methods {
				for k := 0; k < reps; k++ {
					u := "/api" + me.Path
					if sv.Name == "Second" {
						u = "/second" + me.Path + "?id=x"
					}
					op := drv.Op{Op: "mockraw", Case: ci, Call: mi*100 + k + 1 + 1000*len(sv.Name), Pkg: mc.pkg, Verb: me.Verb, URL: u,
						Headers: [][2]string{{"Content-Type", "application/json"}}, BodyB64: base64.StdEncoding.EncodeToString([]byte(`{"id":"x"}`))}
					if me.Verb == "GET" {
						op.NoBody = true
					}
					ops = append(ops, op)
				}
			}
		}
	}
	evs := runDrv(c, bin, w.Root, ops)
	// ---- trace
	var lines []string
	var owner []int
	evals := 0
	for ci, mc := range mcs {
		lines = append(lines, schemaLine(mc.ex))
		owner = append(owner, -1)
		out := svcFile(mc.ex.Schema).Services[0].Methods[0].Out
		if mc.gen != "" {
			lines = append(lines, jsonLine(map[string]any{"event": "MockBuild", "ok": false, "diag": "generate", "out": out, "text": mc.gen}))
			owner = append(owner, ci)
			evals++
			continue
		}
		d := fails[mc.pkg]
		lines = append(lines, jsonLine(map[string]any{"event": "MockBuild", "ok": d == "", "diag": gobuild.DiagClass(d), "out": out, "text": firstN(d, 300)}))
		owner = append(owner, ci)
		evals++
		if d != "" {
			continue
		}
		for _, sd := range mc.docs {
			lines = append(lines, jsonLine(sd.event))
			owner = append(owner, -1)
			var sv *abs.Service
			for _, x := range svcFile(mc.ex.Schema).Services {
				if x.Name == sd.svc {
					sv = x
				}
			}
			if sv == nil {
				continue
			}
			for mi, me := range sv.Methods {
				sch := opSchema(sd.tree, me.Name, "response", "200")
				for k := 0; k < reps; k++ {
					for _, e := range evs[fmt.Sprintf("%d/%d", ci, mi*100+k+1+1000*len(sv.Name))] {
						if e["event"] != "Resp" && e["event"] != "ServerPanic" {
							continue
						}
						ok := e["event"] == "Resp" && int(e["status"].(float64)) == 200
						jt := jsonv.M(nullTree)
						leaves := []map[string]any{}
						if ok {
							body := unb64s(e["bodyB64"])
							if t, err := jsonv.ParseJSON(body); err == nil {
								jt = t
							} else {
								ok = false
							}
							if m, err := val.New(mc.built.Files, me.Out); err == nil && protojson.Unmarshal(body, m) == nil {
								leaves = exampleLeaves(mc.ex.Schema, m, "")
							}
						}
						s := sch
						if s == nil {
							s = nullTree
							ok = false
						}
						lines = append(lines, jsonLine(map[string]any{"event": "Mock", "rpc": me.Name, "ok": ok, "json": jt, "sch": s, "leaves": leaves,
							"detail": fmt.Sprintf("%v status %v", e["event"], e["status"])}))
						owner = append(owner, ci)
						evals++
					}
				}
			}
		}
		if ci%20 == 0 {
			c.AddSample(map[string]any{"fv": mc.ex.Fv, "invocations_per_rpc": reps})
		}
	}
	r := runInventory(c, "Trace_OpenApi", "Trace_OpenApi.cfg", lines, map[string]string{"Enforce": `{"C20"}`})
	accepted, bad := 0, 0
	table := map[string]int{}
	reported := map[string]bool{}
	for ln, v := range r.Verdicts {
		ci := owner[ln-1]
		if ci < 0 {
			continue
		}
		mc := mcs[ci]
		table[fmt.Sprintf("%v | %v | %s", mc.ex.Fv["rule"], mc.ex.Fv["pl"], v.How)]++
		if v.OK {
			accepted++
			if strings.HasPrefix(v.How, "D_") {
				c.Observe(v.How)
			}
			continue
		}
		bad++
		key := fmt.Sprintf("%v|%s", mc.ex.Fv, v.How)
		if !reported[key] && len(reported) < 25 {
			reported[key] = true
			var e map[string]any
			_ = json.Unmarshal([]byte(lines[ln-1]), &e)
			delete(e, "sch")
			rp := c.WriteReplay(map[string]any{"property": c.ID, "spec": "Trace_OpenApi", "fv": mc.ex.Fv, "verdict": v.How, "event": e, "schema": mc.ex.Schema, "seed": c.Seed})
			c.Violation(rp, fmt.Sprintf("%v: %s %s", mc.ex.Fv, v.How, firstN(fmt.Sprint(e["text"])+fmt.Sprint(e["detail"]), 200)))
		}
	}
	dumpTable(table)
	c.Set("evaluations", evals)
	c.Set("distinct_nontrivial", len(table))
	c.Set("rule", "one evaluation = the build of one mock package or one invocation of a mock RPC, judged by TLC (build verdict, Validates/Described of the reply against the real response schema, example membership)")
	c.AddInt("traces_validated_against_impl", int64(accepted))
	c.Infof("TLC judged %d mock builds / replies: %d accepted, %d rejected (Dev = %v)", accepted+bad, accepted, bad, c.Dev())
	c.Done()
}

// exampleLeaves lists the scalar fields (singular, at any depth: below singular messages, map values and list
// elements) that declare examples, with the observed token
// and the tokens of the parsable examples.
func exampleLeaves(s *abs.Schema, m protoreflect.Message, path string) []map[string]any {
	out := []map[string]any{}
	ix := s.Index()
	am := ix.Msgs[string(m.Descriptor().FullName())]
	if am == nil {
		return out
	}
	fds := m.Descriptor().Fields()
	for i := 0; i < fds.Len(); i++ {
		fd := fds.Get(i)
		af := am.Field(string(fd.Name()))
		if af == nil {
			continue
		}
		if fd.Kind() == protoreflect.MessageKind && !fd.IsList() && !fd.IsMap() && m.Has(fd) {
			out = append(out, exampleLeaves(s, m.Get(fd).Message(), path+string(fd.Name())+".")...)
			continue
		}
		// the messages a reply carries as map values and list elements are replies' parts like any other
		if fd.IsMap() && fd.MapValue().Kind() == protoreflect.MessageKind {
			m.Get(fd).Map().Range(func(k protoreflect.MapKey, v protoreflect.Value) bool {
				out = append(out, exampleLeaves(s, v.Message(), path+string(fd.Name())+"["+k.String()+"].")...)
				return true
			})
			continue
		}
		if fd.IsList() && fd.Kind() == protoreflect.MessageKind {
			l := m.Get(fd).List()
			for j := 0; j < l.Len(); j++ {
				out = append(out, exampleLeaves(s, l.Get(j).Message(), fmt.Sprintf("%s%s[%d].", path, fd.Name(), j))...)
			}
			continue
		}
		if od := fd.ContainingOneof(); od != nil && !od.IsSynthetic() && !m.Has(fd) {
			continue // not the member this reply carries
		}
		if len(af.Ann.Examples) == 0 || fd.IsList() || fd.IsMap() || fd.Kind() == protoreflect.MessageKind {
			continue
		}
		parsed := []string{}
		unparsable := false
		for _, ex := range af.Ann.Examples {
			if t, ok := parseExample(fd, ex); ok {
				parsed = append(parsed, t)
			} else {
				unparsable = true
			}
		}
		tok := val.Field(m, fd)
		if fd.Kind() == protoreflect.DoubleKind {
			tok = "f" + strings.TrimPrefix(tok, "d")
		}
		out = append(out, map[string]any{"path": path + string(fd.Name()), "tok": tok, "parsed": parsed, "hasParsable": len(parsed) > 0, "hasUnparsable": unparsable})
	}
	return out
}

// svcFile is the file of the schema that declares services (the last one: dependencies come first).
func svcFile(s *abs.Schema) *abs.File {
	for i := len(s.Files) - 1; i >= 0; i-- {
		if len(s.Files[i].Services) > 0 {
			return s.Files[i]
		}
	}
	return s.Files[0]
}
