package main

import (
	"bufio"
	"bytes"
	"encoding/base64"
	"encoding/json"
	"fmt"
	"net/url"
	"os"
	"os/exec"
	"path/filepath"
	"sort"
	"strings"

	"google.golang.org/protobuf/reflect/protoreflect"

	"verifharness/abs"
	"verifharness/chk"
	"verifharness/drv"
	"verifharness/pipe"
	"verifharness/plug"
	"verifharness/trace"
	"verifharness/val"
	"verifharness/work"
)

// runTS executes a plan with tools/ts_runner.mjs and returns events grouped by case then call.
func runTS(c *chk.Ctx, dir string, ops []map[string]any) []map[string]any {
	var plan bytes.Buffer
	for _, op := range ops {
		b, _ := json.Marshal(op)
		plan.Write(b)
		plan.WriteByte('\n')
	}
	pf := filepath.Join(dir, fmt.Sprintf("tsplan-%d.ndjson", len(ops)))
	_ = os.WriteFile(pf, plan.Bytes(), 0o644)
	cmd := exec.Command(nodeBin(c), "--no-warnings", filepath.Join(plug.VerifDir(), "tools", "ts_runner.mjs"), pf)
	var so, se bytes.Buffer
	cmd.Stdout, cmd.Stderr = &so, &se
	if err := cmd.Run(); err != nil {
		c.Broken("ts runner failed: %v %s", err, firstN(se.String(), 800))
	}
	var evs []map[string]any
	sc := bufio.NewScanner(&so)
	sc.Buffer(make([]byte, 1<<20), 1<<28)
	for sc.Scan() {
		var e map[string]any
		if json.Unmarshal(sc.Bytes(), &e) == nil {
			evs = append(evs, e)
		}
	}
	return evs
}

// runDrv executes a plan with a built Go driver binary.
func runDrv(c *chk.Ctx, bin, dir string, ops []drv.Op) map[string][]drv.Event {
	var plan bytes.Buffer
	for _, op := range ops {
		b, _ := json.Marshal(op)
		plan.Write(b)
		plan.WriteByte('\n')
	}
	pf := filepath.Join(dir, fmt.Sprintf("plan-%d-%d.ndjson", len(ops), plan.Len()))
	_ = os.WriteFile(pf, plan.Bytes(), 0o644)
	cmd := exec.Command(bin, pf)
	var so, se bytes.Buffer
	cmd.Stdout, cmd.Stderr = &so, &se
	if err := cmd.Run(); err != nil {
		c.Broken("driver died: %v\n%s", err, firstN(se.String(), 2000))
	}
	out := map[string][]drv.Event{}
	sc := bufio.NewScanner(&so)
	sc.Buffer(make([]byte, 1<<20), 1<<28)
	for sc.Scan() {
		var e drv.Event
		if json.Unmarshal(sc.Bytes(), &e) != nil {
			continue
		}
		k := fmt.Sprintf("%v/%v", e["case"], e["call"])
		out[k] = append(out[k], e)
	}
	return out
}

type routeObs struct {
	Verb      string
	Segs      []abs.Seg
	Trail     bool
	Placement map[string]string
}

func (r *routeObs) event(gen, svc, rpc string, pos map[string]int) map[string]any {
	pl := []map[string]string{}
	fs := make([]string, 0, len(r.Placement))
	for f := range r.Placement {
		fs = append(fs, f)
	}
	sort.Strings(fs)
	for _, f := range fs {
		pl = append(pl, map[string]string{"field": f, "loc": r.Placement[f]})
	}
	segs := r.Segs
	if segs == nil {
		segs = []abs.Seg{}
	}
	return map[string]any{"event": "Route", "gen": gen, "svc": svc, "rpc": rpc, "verb": r.Verb, "segs": segs, "trail": r.Trail, "placement": pl,
		"fi": pos["fi"], "si": pos["si"], "mi": pos["mi"], "ifi": pos["ifi"], "imi": pos["imi"]}
}

// templateFromSent turns a concrete request path whose variable segments carry sentinels
// ("S_<field>") back into a template.
func templateFromSent(path string) ([]abs.Seg, bool) {
	pp := abs.ParsePath(path)
	for i, sg := range pp.Segs {
		dec, err := url.PathUnescape(sg.Text)
		if err == nil && strings.HasPrefix(dec, "S_") {
			pp.Segs[i] = abs.Seg{Var: true, Text: strings.TrimPrefix(dec, "S_")}
		}
	}
	return pp.Segs, pp.Trail
}

func instantiate(segs []abs.Seg, trail bool) string {
	p := ""
	for _, sg := range segs {
		if sg.Var {
			p += "/S_" + sg.Text
		} else {
			p += "/" + sg.Text
		}
	}
	if p == "" {
		p = "/"
	} else if trail {
		p += "/"
	}
	return p
}

func tmplKey(verb string, segs []abs.Seg, trail bool) string {
	b, _ := json.Marshal(segs)
	return fmt.Sprintf("%s %s %v", verb, b, trail)
}

// checkC03 : all five generators agree on each RPC's verb, path and parameter placement.
func checkC03(c *chk.Ctx) {
	set := pluginSet(c)
	res := runMC(c, "MC_Routes", "MC_Routes.cfg", nil, true)
	raws := make([]string, 0, len(res.Cases))
	for _, r := range res.Cases {
		raws = append(raws, string(r))
	}
	sort.Strings(raws)
	w, err := work.New()
	if err != nil {
		c.Broken("%v", err)
	}
	defer w.Close()
	type rcase struct {
		ex     *pipe.Exported
		built  *abs.Built
		pkg    string
		prefix string
		tsC    string // path of client module
		tsS    string
		doc    map[string]any
		seg    *trace.Segment
	}
	var cases []*rcase
	var specs []work.PkgSpec
	for i, raw := range raws {
		if false && (i+int(c.Seed))%2 != 0 { // (no sampling: both tiers run every case)
			continue
		}
		prefix := fmt.Sprintf("r%d", i)
		e, err := pipe.ParseExported(json.RawMessage(raw), prefix)
		if err != nil {
			c.Broken("bad exported case: %v", err)
		}
		rc := &rcase{ex: e, pkg: "gen/" + prefix, prefix: prefix}
		rc.built, err = abs.Build(e.Schema)
		if err != nil {
			c.Broken("harness cannot express exported case %v: %v", e.Fv, err)
		}
		rc.seg = &trace.Segment{ID: len(cases), Meta: e, Lines: []string{schemaLine(e)}}
		cases = append(cases, rc)
	}
	// The Go and TS plugins see ALL the family's files in ONE invocation (every file its own proto and
	// Go package; the order of the files follows the seed): a route must not depend on what else is
	// generated in the same run.  openapiv3 names its documents by the service's short name, which all
	// the family's services share, so it is invoked file by file.
	ordered := append([]*rcase{}, cases...)
	if c.Seed%2 == 1 {
		for a, z := 0, len(ordered)-1; a < z; a, z = a+1, z-1 {
			ordered[a], ordered[z] = ordered[z], ordered[a]
		}
	}
	merged := &abs.Schema{}
	for _, rc := range ordered {
		merged.Files = append(merged.Files, rc.ex.Schema.Files...)
	}
	fourPlugins := []string{"go-http", "go-client", "ts-client", "ts-server"}
	em, err := w.Emit(set, merged, work.EmitOpts{Plugins: fourPlugins})
	if err != nil {
		c.Broken("%v", err)
	}
	for _, p := range fourPlugins {
		if r := em.Results[p]; !r.OK() {
			rp := c.WriteReplay(map[string]any{"property": c.ID, "stage": "generate", "plugin": p, "error": r.Error})
			c.Violation(rp, fmt.Sprintf("%s refused the rule-free family schemas (one invocation over %d files): %s", p, len(merged.Files), firstN(r.Error, 300)))
			c.Done()
		}
	}
	if c.Thorough() {
		// lemma: what a plugin emits for a file is the same when the file is generated alone
		for _, rc := range cases {
			for _, p := range fourPlugins {
				r := set.Run(p, rc.built.Request("", nil), plug.RunOpts{})
				for _, f := range r.Files {
					if g := em.Results[p].File(f.Name); g == nil || g.Content != f.Content {
						rp := c.WriteReplay(map[string]any{"property": c.ID, "stage": "invocation shape", "plugin": p, "file": f.Name, "fv": rc.ex.Fv})
						c.Violation(rp, fmt.Sprintf("%s emits %s differently when the file is generated alone and together with the family's other files", p, f.Name))
					}
				}
			}
		}
	}
	for _, rc := range cases {
		for _, f := range em.Results["ts-client"].Files {
			if !strings.Contains("/"+f.Name, "/"+rc.prefix+"/") {
				continue
			}
			p := filepath.Join(w.Root, "ts", rc.prefix, "client", f.Name)
			_ = os.MkdirAll(filepath.Dir(p), 0o755)
			_ = os.WriteFile(p, []byte(f.Content), 0o644)
			rc.tsC = p
		}
		for _, f := range em.Results["ts-server"].Files {
			if !strings.Contains("/"+f.Name, "/"+rc.prefix+"/") {
				continue
			}
			p := filepath.Join(w.Root, "ts", rc.prefix, "server", f.Name)
			_ = os.MkdirAll(filepath.Dir(p), 0o755)
			_ = os.WriteFile(p, []byte(f.Content), 0o644)
			rc.tsS = p
		}
		r := set.Run("openapiv3", rc.built.Request("format=json", nil), plug.RunOpts{})
		if !r.OK() {
			rp := c.WriteReplay(map[string]any{"property": c.ID, "stage": "generate", "plugin": "openapiv3", "error": r.Error, "fv": rc.ex.Fv})
			c.Violation(rp, fmt.Sprintf("openapiv3 refused the rule-free family schema %v: %s", rc.ex.Fv, firstN(r.Error, 300)))
			c.Done()
		}
		for _, f := range r.Files {
			if strings.HasSuffix(f.Name, ".json") {
				_ = json.Unmarshal([]byte(f.Content), &rc.doc)
			}
		}
		if rc.tsC == "" || rc.tsS == "" {
			var names []string
			for _, f := range em.Results["ts-client"].Files {
				names = append(names, f.Name)
			}
			c.Broken("no TypeScript module emitted for %s (files: %v)", rc.prefix, firstN(fmt.Sprint(names), 300))
		}
		specs = append(specs, work.PkgSpec{ImportPath: "scratch/" + rc.pkg, Server: true, Client: true})
	}
	if err := w.WriteDriver("drv", specs); err != nil {
		c.Broken("%v", err)
	}
	c.Infof("%d services generated by the five real plugins; building the Go side", len(cases))
	bin, bout, err := w.BuildBinary("./drv", "drv")
	c.Infof("driver built")
	if err != nil {
		rp := c.WriteReplay(map[string]any{"property": c.ID, "stage": "build", "error": firstN(bout, 3000)})
		c.Violation(rp, "emitted Go code of the route family does not build: "+firstN(bout, 300))
		c.Done()
	}
	evals := 0
	for ci, rc := range cases {
		s := rc.ex.Schema
		f := s.Files[0]
		sv := f.Services[0]
		ix := s.Index()
		// ---- phase 1: clients (Go + TS) with canned responses, TS route table
		var gops []drv.Op
		var tops []map[string]any
		tops = append(tops, map[string]any{"op": "tsroutes", "case": ci, "call": 0, "module": rc.tsS, "service": sv.Name})
		for mi, me := range sv.Methods {
			in := ix.Msgs[me.In]
			m, err := val.New(rc.built.Files, me.In)
			if err != nil {
				c.Broken("%v", err)
			}
			tsReq := map[string]any{}
			for _, fl := range in.Fields {
				m.Set(m.Descriptor().Fields().ByName(protoreflect.Name(fl.Name)), protoreflect.ValueOfString("S_"+fl.Name))
				tsReq[abs.JSONName(fl.Name)] = "S_" + fl.Name
			}
			gops = append(gops, drv.Op{Op: "call", Case: ci, Call: mi + 1, Pkg: rc.pkg, Svc: sv.Name, Rpc: me.Name, ReqType: me.In,
				ReqB64: base64.StdEncoding.EncodeToString(val.Det(m)),
				Canned: &drv.Canned{Status: 200, Headers: [][2]string{{"Content-Type", "application/json"}}, BodyB64: base64.StdEncoding.EncodeToString([]byte("{}"))}})
			tops = append(tops, map[string]any{"op": "tscall", "case": ci, "call": mi + 1, "module": rc.tsC, "service": sv.Name, "rpc": me.Name, "req": tsReq})
		}
		gev := runDrv(c, bin, w.Root, gops)
		tev := runTS(c, w.Root, tops)
		obs := map[string]map[string]*routeObs{} // gen -> rpc -> route
		for _, g := range []string{"goserver", "goclient", "tsclient", "tsserver", "openapi"} {
			obs[g] = map[string]*routeObs{}
		}
		sentRoute := func(e map[string]any, in *abs.Message) *routeObs {
			path, _ := e["path"].(string)
			segs, trail := templateFromSent(path)
			r := &routeObs{Verb: fmt.Sprint(e["verb"]), Segs: segs, Trail: trail, Placement: map[string]string{}}
			q, _ := url.ParseQuery(fmt.Sprint(e["rawQuery"]))
			body := map[string]any{}
			_ = json.Unmarshal(unb64s(e["bodyB64"]), &body)
			for _, fl := range in.Fields {
				loc := "none"
				for _, sg := range segs {
					if sg.Var && sg.Text == fl.Name {
						loc = "path"
					}
				}
				if loc == "none" {
					for _, vs := range q {
						for _, v := range vs {
							if v == "S_"+fl.Name {
								loc = "query"
							}
						}
					}
				}
				if loc == "none" {
					if v, ok := body[abs.JSONName(fl.Name)]; ok && v == "S_"+fl.Name {
						loc = "body"
					}
				}
				r.Placement[fl.Name] = loc
			}
			return r
		}
		for mi, me := range sv.Methods {
			in := ix.Msgs[me.In]
			for _, e := range gev[fmt.Sprintf("%d/%d", ci, mi+1)] {
				if e["event"] == "Sent" {
					obs["goclient"][me.Name] = sentRoute(e, in)
				}
			}
		}
		var tsRoutes []map[string]any
		for _, e := range tev {
			switch e["event"] {
			case "Sent":
				mi := int(e["call"].(float64)) - 1
				me := sv.Methods[mi]
				obs["tsclient"][me.Name] = sentRoute(e, ix.Msgs[me.In])
			case "TsRoutes":
				for _, r := range e["routes"].([]any) {
					tsRoutes = append(tsRoutes, r.(map[string]any))
				}
			case "TsLoadError", "DriverError":
				rp := c.WriteReplay(map[string]any{"property": c.ID, "stage": "ts", "event": e, "fv": rc.ex.Fv})
				c.Violation(rp, fmt.Sprintf("TypeScript module of the route family failed: %v", firstN(fmt.Sprint(e["detail"]), 300)))
				c.Done()
			}
		}
		// ---- OpenAPI document
		opIDs := []string{}
		if paths, ok := rc.doc["paths"].(map[string]any); ok {
			pnames := make([]string, 0, len(paths))
			for p := range paths {
				pnames = append(pnames, p)
			}
			sort.Strings(pnames)
			for _, p := range pnames {
				item, _ := paths[p].(map[string]any)
				for _, verb := range []string{"get", "post", "put", "delete", "patch"} {
					op, ok := item[verb].(map[string]any)
					if !ok {
						continue
					}
					id := fmt.Sprint(op["operationId"])
					opIDs = append(opIDs, id)
					var me *abs.Method
					for _, m := range sv.Methods {
						if m.Name == id {
							me = m
						}
					}
					if me == nil {
						continue
					}
					in := ix.Msgs[me.In]
					pp := abs.ParsePath(p)
					r := &routeObs{Verb: strings.ToUpper(verb), Segs: pp.Segs, Trail: pp.Trail, Placement: map[string]string{}}
					declared := map[string]string{}
					if ps, ok := op["parameters"].([]any); ok {
						for _, x := range ps {
							pm, _ := x.(map[string]any)
							declared[fmt.Sprint(pm["in"])+":"+fmt.Sprint(pm["name"])] = "1"
						}
					}
					_, hasBody := op["requestBody"]
					for _, fl := range in.Fields {
						qn := fl.Ann.QueryName
						if qn == "" {
							qn = fl.Name
						}
						switch {
						case declared["path:"+fl.Name] != "":
							r.Placement[fl.Name] = "path"
						case declared["query:"+qn] != "":
							r.Placement[fl.Name] = "query"
						case hasBody:
							r.Placement[fl.Name] = "body"
						default:
							r.Placement[fl.Name] = "none"
						}
					}
					if _, dup := obs["openapi"][id]; !dup {
						obs["openapi"][id] = r
					}
				}
			}
		}
		// ---- phase 2: probe the servers with every published template
		type cand struct {
			verb  string
			segs  []abs.Seg
			trail bool
			rpc   string // the RPC some generator published this template for ("" = unknown)
		}
		cands := map[string]cand{}
		for _, g := range []string{"goclient", "tsclient", "openapi"} {
			for rpc, r := range obs[g] {
				cands[tmplKey(r.Verb, r.Segs, r.Trail)] = cand{r.Verb, r.Segs, r.Trail, rpc}
			}
		}
		for _, r := range tsRoutes {
			pp := abs.ParsePath(fmt.Sprint(r["path"]))
			k := tmplKey(fmt.Sprint(r["method"]), pp.Segs, pp.Trail)
			if _, ok := cands[k]; !ok {
				cands[k] = cand{fmt.Sprint(r["method"]), pp.Segs, pp.Trail, ""}
			}
		}
		// query string and JSON body carrying every field of the RPC the template was published for
		// (of every request message of the service when the owner is unknown)
		probeData := func(rpc string) (string, []byte) {
			qs := url.Values{}
			body := map[string]any{}
			for _, me := range sv.Methods {
				if rpc != "" && me.Name != rpc {
					continue
				}
				for _, fl := range ix.Msgs[me.In].Fields {
					qn := fl.Ann.QueryName
					if qn == "" {
						qn = fl.Name
					}
					qs.Set(qn, "SQ_"+fl.Name)
					body[abs.JSONName(fl.Name)] = "SB_" + fl.Name
				}
			}
			b, _ := json.Marshal(body)
			return qs.Encode(), b
		}
		keys := make([]string, 0, len(cands))
		for k := range cands {
			keys = append(keys, k)
		}
		sort.Strings(keys)
		var pops []drv.Op
		var tsops []map[string]any
		for ki, k := range keys {
			cd := cands[k]
			qenc, bodyJSON := probeData(cd.rpc)
			u := instantiate(cd.segs, cd.trail) + "?" + qenc
			op := drv.Op{Op: "raw", Case: ci, Call: 1000 + ki, Pkg: rc.pkg, Verb: cd.verb, URL: u, Headers: [][2]string{{"Content-Type", "application/json"}},
				BodyB64: base64.StdEncoding.EncodeToString(bodyJSON), Handler: drv.HandlerCfg{Kind: "plain", Msg: "probe"}}
			if cd.verb == "GET" || cd.verb == "DELETE" {
				op.NoBody = true
			}
			pops = append(pops, op)
			tsops = append(tsops, map[string]any{"op": "tsserve", "case": ci, "call": 1000 + ki, "module": rc.tsS, "service": sv.Name, "verb": cd.verb,
				"url": u, "headers": [][2]string{{"Content-Type", "application/json"}}, "bodyB64": base64.StdEncoding.EncodeToString(bodyJSON),
				"noBody": op.NoBody, "handler": map[string]any{"kind": "ok", "value": map[string]any{}}})
		}
		pev := runDrv(c, bin, w.Root, pops)
		tsev := runTS(c, w.Root, tsops)
		placeFromSaw := func(get func(fl *abs.Field) string, in *abs.Message) map[string]string {
			pl := map[string]string{}
			for _, fl := range in.Fields {
				switch get(fl) {
				case "S_" + fl.Name:
					pl[fl.Name] = "path"
				case "SQ_" + fl.Name:
					pl[fl.Name] = "query"
				case "SB_" + fl.Name:
					pl[fl.Name] = "body"
				default:
					pl[fl.Name] = "none"
				}
			}
			return pl
		}
		byName := map[string]*abs.Method{}
		normName := func(s string) string { return strings.ToLower(strings.ReplaceAll(s, "_", "")) }
		for _, me := range sv.Methods {
			byName[me.Name] = me
			byName[normName(me.Name)] = me
		}
		for ki, k := range keys {
			cd := cands[k]
			for _, e := range pev[fmt.Sprintf("%d/%d", ci, 1000+ki)] {
				if e["event"] != "HandlerSaw" {
					continue
				}
				me := byName[fmt.Sprint(e["rpc"])]
				if me == nil {
					continue
				}
				m, err := val.Decode(rc.built.Files, me.In, unb64s(e["valB64"]))
				if err != nil {
					continue
				}
				in := ix.Msgs[me.In]
				pl := placeFromSaw(func(fl *abs.Field) string {
					return m.Get(m.Descriptor().Fields().ByName(protoreflect.Name(fl.Name))).String()
				}, in)
				// the template is the Go server's route only if its variables really bound the fields
				ok := true
				for _, sg := range cd.segs {
					if sg.Var && pl[sg.Text] != "path" {
						ok = false
					}
				}
				if _, seen := obs["goserver"][me.Name]; ok && !seen {
					obs["goserver"][me.Name] = &routeObs{Verb: cd.verb, Segs: cd.segs, Trail: cd.trail, Placement: pl}
				}
			}
		}
		for _, e := range tsev {
			if e["event"] != "TsHandlerSaw" {
				continue
			}
			ki := int(e["call"].(float64)) - 1000
			cd := cands[keys[ki]]
			me := byName[normName(fmt.Sprint(e["rpc"]))]
			if me == nil {
				continue
			}
			arg, _ := e["arg"].(map[string]any)
			in := ix.Msgs[me.In]
			pl := placeFromSaw(func(fl *abs.Field) string { return fmt.Sprint(arg[abs.JSONName(fl.Name)]) }, in)
			// only templates the TS server itself publishes count as its routes
			own := false
			for _, r := range tsRoutes {
				pp := abs.ParsePath(fmt.Sprint(r["path"]))
				if tmplKey(fmt.Sprint(r["method"]), pp.Segs, pp.Trail) == keys[ki] {
					own = true
				}
			}
			if _, seen := obs["tsserver"][me.Name]; own && !seen {
				obs["tsserver"][me.Name] = &routeObs{Verb: cd.verb, Segs: cd.segs, Trail: cd.trail, Placement: pl}
			}
		}
		// ---- events
		unreachable := func(in *abs.Message) *routeObs {
			pl := map[string]string{}
			for _, fl := range in.Fields {
				pl[fl.Name] = "none"
			}
			return &routeObs{Verb: "NONE", Segs: []abs.Seg{{Text: "?unreachable"}}, Placement: pl}
		}
		for mi, me := range sv.Methods {
			pos := map[string]int{"fi": 1, "si": 1, "mi": mi + 1, "ifi": 1, "imi": 0}
			for k, m := range f.Messages {
				if m.Full == me.In {
					pos["imi"] = k + 1
				}
			}
			for _, g := range []string{"goserver", "goclient", "tsclient", "tsserver", "openapi"} {
				r := obs[g][me.Name]
				if r == nil {
					r = unreachable(ix.Msgs[me.In])
				}
				rc.seg.Lines = append(rc.seg.Lines, jsonLine(r.event(g, sv.Name, me.Name, pos)))
				evals++
			}
		}
		rc.seg.Lines = append(rc.seg.Lines, jsonLine(map[string]any{"event": "Ops", "svc": sv.Name, "ops": opIDs}))
		c.AddSample(map[string]any{"fv": rc.ex.Fv, "rpcs": len(sv.Methods), "templates_probed": len(keys)})
		c.Infof("service %v: %d RPCs, %d templates probed", rc.ex.Fv, len(sv.Methods), len(keys))
	}
	var segs []*trace.Segment
	for _, rc := range cases {
		segs = append(segs, rc.seg)
	}
	// a rejection identifies one RPC; split every service segment into one segment per RPC so that
	// every disagreeing RPC is reported, not only the first
	segs = splitPerRPC(segs)
	judgeSegmentsN(c, "Trace_Routes", "Trace_Routes.cfg", segs, evals, 40)
	c.Done()
}

func unb64s(v any) []byte {
	s, _ := v.(string)
	b, _ := base64.StdEncoding.DecodeString(s)
	return b
}

// splitPerRPC regroups [Schema, Route*..., Ops] into per-RPC segments (each starting with the
// Schema line) plus one Ops segment.
func splitPerRPC(in []*trace.Segment) []*trace.Segment {
	var out []*trace.Segment
	id := 0
	for _, s := range in {
		schema := s.Lines[0]
		groups := map[string][]string{}
		var order []string
		var ops string
		for _, l := range s.Lines[1:] {
			var e map[string]any
			_ = json.Unmarshal([]byte(l), &e)
			if e["event"] == "Ops" {
				ops = l
				continue
			}
			k := fmt.Sprint(e["rpc"])
			if _, ok := groups[k]; !ok {
				order = append(order, k)
			}
			groups[k] = append(groups[k], l)
		}
		for _, k := range order {
			out = append(out, &trace.Segment{ID: id, Meta: s.Meta, Prefix: schema, Lines: groups[k]})
			id++
		}
		if ops != "" {
			out = append(out, &trace.Segment{ID: id, Meta: s.Meta, Prefix: schema, Lines: []string{ops}})
			id++
		}
	}
	return out
}
