package main

import (
	"bufio"
	"bytes"
	"encoding/base64"
	"encoding/json"
	"fmt"
	"math/rand"
	"net/url"
	"os"
	"os/exec"
	"path/filepath"
	"sort"
	"strings"
	"sync"

	"google.golang.org/protobuf/encoding/protojson"
	"google.golang.org/protobuf/proto"
	"google.golang.org/protobuf/reflect/protoreflect"
	"google.golang.org/protobuf/types/dynamicpb"

	"verifharness/abs"
	"verifharness/chk"
	"verifharness/drv"
	"verifharness/tlc"
	"verifharness/trace"
	"verifharness/val"
	"verifharness/work"
)

// concSchema: two services, several routes whose binding leaves fields untouched depending on the
// request (optional / repeated query parameters, body verbs that can be called without a body),
// service- and method-level headers.
func concSchema() *abs.Schema {
	nr := abs.NoRules
	f := func(name string, num int32, kind, card string, ann abs.Ann) *abs.Field {
		return &abs.Field{Name: name, Num: num, Kind: kind, Card: card, Rules: nr(), Ann: ann}
	}
	q := abs.Ann{Query: true}
	file := &abs.File{Name: "cc/svc.proto", Pkg: "cc.v1", GoPkg: "scratch/gen/cc;cc", Generate: true}
	file.Messages = []*abs.Message{
		// the response and one request carry a flattened child: they go through an emitted codec (MarshalJSON /
		// UnmarshalJSON), which must treat the message it is given as read-only
		{Name: "Out", Fields: []*abs.Field{f("id", 1, "string", "one", abs.Ann{}), f("n", 2, "int64", "one", abs.Ann{}),
			{Name: "addr", Num: 3, Kind: "message", Card: "one", Ref: "cc.v1.Addr", Rules: nr(), Ann: abs.Ann{Flatten: true, Prefix: "addr_"}}}},
		{Name: "Addr", Fields: []*abs.Field{f("city", 1, "string", "one", abs.Ann{}), f("zip", 2, "string", "one", abs.Ann{})}},
		{Name: "Child", Fields: []*abs.Field{f("x", 1, "string", "one", abs.Ann{})}},
		{Name: "ListReq", Fields: []*abs.Field{f("tag", 1, "string", "rep", q), f("limit", 2, "int32", "opt", q), f("view", 3, "string", "one", q)}},
		{Name: "GetReq", Fields: []*abs.Field{f("id", 1, "string", "one", abs.Ann{}), f("verbose", 2, "bool", "one", q)}},
		{Name: "DelReq", Fields: []*abs.Field{f("id", 1, "string", "one", abs.Ann{}), f("force", 2, "bool", "one", q)}},
		{Name: "CreateReq", Fields: []*abs.Field{f("name", 1, "string", "one", abs.Ann{}), f("tags", 2, "string", "rep", abs.Ann{}),
			{Name: "attrs", Num: 3, Kind: "string", Card: "map", KeyKind: "string", Rules: nr()}, f("count", 4, "int32", "opt", abs.Ann{}),
			{Name: "child", Num: 5, Kind: "message", Card: "one", Ref: "cc.v1.Child", Rules: nr()}}},
		{Name: "UpdateReq", Fields: []*abs.Field{f("id", 1, "string", "one", abs.Ann{}), f("name", 2, "string", "one", abs.Ann{}), f("note", 3, "string", "opt", abs.Ann{}),
			{Name: "origin", Num: 4, Kind: "message", Card: "one", Ref: "cc.v1.Addr", Rules: nr(), Ann: abs.Ann{Flatten: true, Prefix: "origin_"}}}},
		{Name: "HealthReq", Fields: []*abs.Field{f("deep", 1, "bool", "one", q)}},
		{Name: "EventsReq", Fields: []*abs.Field{f("since", 1, "int64", "one", q), f("kind", 2, "string", "rep", q)}},
		{Name: "RecordReq", Fields: []*abs.Field{f("what", 1, "string", "one", abs.Ann{}), f("labels", 2, "string", "rep", abs.Ann{})}},
		// one request message behind TWO routes whose path templates carry different variables: what is
		// bound from the path is the route's business, not the message's
		{Name: "MemberReq", Fields: []*abs.Field{f("id", 1, "string", "one", abs.Ann{}), f("org_id", 2, "string", "one", abs.Ann{}), f("role", 3, "string", "one", abs.Ann{})}},
	}
	m := func(name, in, verb, path string) *abs.Method {
		return &abs.Method{Name: name, In: "cc.v1." + in, Out: "cc.v1.Out", HasCfg: true, Path: path, Verb: verb}
	}
	upd := m("UpdateItem", "UpdateReq", "PUT", "/items/{id}")
	upd.Headers = []*abs.Header{{Name: "X-Idem", Type: "string", Required: true}}
	// a route that re-declares the service-level header (optional here, and with another type): what
	// it declares is its own business and must not change what the other routes of the service demand
	health := m("Health", "HealthReq", "GET", "/health")
	health.Headers = []*abs.Header{{Name: "x-api-key", Type: "integer", Required: false}, {Name: "X-Probe", Type: "string", Required: false}}
	file.Services = []*abs.Service{
		{Name: "Items", HasBase: true, BasePath: "/api", Headers: []*abs.Header{{Name: "X-Api-Key", Type: "string", Required: true}},
			Methods: []*abs.Method{m("ListItems", "ListReq", "GET", "/items"), m("GetItem", "GetReq", "GET", "/items/{id}"),
				m("DeleteItem", "DelReq", "DELETE", "/items/{id}"), m("CreateItem", "CreateReq", "POST", "/items"), upd, health,
				m("UpdateMember", "MemberReq", "PUT", "/members/{id}")}},
		{Name: "Audit", Methods: []*abs.Method{m("ListEvents", "EventsReq", "GET", "/events"),
			{Name: "Record", In: "cc.v1.RecordReq", Out: "cc.v1.Out"},
			m("UpdateOrgMember", "MemberReq", "PUT", "/orgs/{org_id}/members/{id}")}},
	}
	return &abs.Schema{Files: []*abs.File{file}}
}

type concCall struct {
	key   string // identity of the call (equal keys = equal calls)
	op    drv.Op
	label string
}

// concGen draws random calls; raw = HTTP requests against the server, otherwise calls through the client.
type concGen struct {
	r     *rand.Rand
	files *protoFiles
}
type protoFiles = abs.Built

func pick[T any](r *rand.Rand, xs ...T) T { return xs[r.Intn(len(xs))] }

func (g *concGen) rawCall() *concCall {
	r := g.r
	words := []string{"a", "b", "c", "long-value", "ü", ""}
	op := drv.Op{Op: "raw", Pkg: "gen/cc", Headers: [][2]string{}}
	hasKey := r.Intn(5) != 0
	if hasKey {
		op.Headers = append(op.Headers, [2]string{"X-Api-Key", pick(r, "k1", "k2")})
	}
	qv := url.Values{}
	body := ""
	switch r.Intn(10) {
	case 8:
		op.Verb, op.URL = "PUT", "/api/members/"+pick(r, "m1", "m2")
		body = pick(r, "", "{}", `{"role":"admin"}`, `{"orgId":"from-body","role":"viewer"}`)
	case 9:
		op.Verb, op.URL = "PUT", "/orgs/"+pick(r, "acme", "umbrella")+"/members/"+pick(r, "m1", "m2")
		body = pick(r, "", "{}", `{"role":"admin"}`, `{"orgId":"from-body","role":"viewer"}`)
	case 7:
		op.Verb, op.URL = "GET", "/api/health"
		if r.Intn(2) == 0 {
			qv.Set("deep", "true")
		}
	case 0:
		op.Verb, op.URL = "GET", "/api/items"
		for i := r.Intn(3); i > 0; i-- {
			qv.Add("tag", pick(r, words...))
		}
		if r.Intn(2) == 0 {
			qv.Set("limit", pick(r, "0", "5", "100"))
		}
		if r.Intn(2) == 0 {
			qv.Set("view", pick(r, "full", "brief"))
		}
	case 1:
		op.Verb, op.URL = "GET", "/api/items/"+pick(r, "1", "2", "x y")
		if r.Intn(2) == 0 {
			qv.Set("verbose", pick(r, "true", "false"))
		}
	case 2:
		op.Verb, op.URL = "DELETE", "/api/items/"+pick(r, "7", "8")
		if r.Intn(2) == 0 {
			qv.Set("force", "true")
		}
	case 3:
		op.Verb, op.URL = "POST", "/api/items"
		body = pick(r, "", "{}", `{"name":"n1"}`, `{"name":"n2","tags":["t1","t2"],"attrs":{"k":"v"},"count":3,"child":{"x":"c"}}`, `{"tags":["only"]}`, `{"count":0}`, `{"attrs":{"a":"1","b":"2"}}`)
	case 4:
		op.Verb, op.URL = "PUT", "/api/items/"+pick(r, "1", "2")
		if r.Intn(8) != 0 {
			op.Headers = append(op.Headers, [2]string{"X-Idem", pick(r, "i1", "i2")})
		}
		body = pick(r, "", "{}", `{"name":"new"}`, `{"name":"new","note":"remember"}`, `{"note":""}`)
	case 5:
		op.Verb, op.URL = "GET", "/events"
		if r.Intn(2) == 0 {
			qv.Set("since", pick(r, "0", "1700000000", "9007199254740993"))
		}
		for i := r.Intn(3); i > 0; i-- {
			qv.Add("kind", pick(r, "login", "logout"))
		}
	case 6:
		op.Verb, op.URL = "POST", "/cc/record"
		body = pick(r, "", "{}", `{"what":"w"}`, `{"what":"w","labels":["l1"]}`, `{"labels":["l2","l3"]}`)
	}
	if len(qv) > 0 {
		op.URL += "?" + qv.Encode()
	}
	if op.Verb == "GET" || op.Verb == "DELETE" {
		op.NoBody = true
	} else {
		op.Headers = append(op.Headers, [2]string{"Content-Type", "application/json"})
		op.BodyB64 = base64.StdEncoding.EncodeToString([]byte(body))
		if body == "" {
			op.NoBody = r.Intn(2) == 0
		}
	}
	k, _ := json.Marshal([]any{op.Verb, op.URL, op.Headers, body, op.NoBody})
	return &concCall{key: "raw" + string(k), op: op, label: op.Verb + " " + op.URL + " " + body}
}

func (g *concGen) clientCall() *concCall {
	r := g.r
	type rpcT struct{ svc, rpc, in string }
	rp := pick(r, rpcT{"Items", "ListItems", "ListReq"}, rpcT{"Items", "GetItem", "GetReq"}, rpcT{"Items", "DeleteItem", "DelReq"}, rpcT{"Items", "CreateItem", "CreateReq"},
		rpcT{"Items", "UpdateItem", "UpdateReq"}, rpcT{"Items", "Health", "HealthReq"}, rpcT{"Audit", "ListEvents", "EventsReq"}, rpcT{"Audit", "Record", "RecordReq"},
		rpcT{"Items", "UpdateMember", "MemberReq"}, rpcT{"Audit", "UpdateOrgMember", "MemberReq"})
	m, _ := val.New(g.files.Files, "cc.v1."+rp.in)
	fds := m.Descriptor().Fields()
	for i := 0; i < fds.Len(); i++ {
		fd := fds.Get(i)
		if fd.Name() != "id" && fd.Name() != "org_id" && r.Intn(2) == 0 {
			continue // left unset
		}
		switch {
		case fd.IsMap():
			m.Mutable(fd).Map().Set(protoreflect.ValueOfString(pick(r, "k", "k2")).MapKey(), protoreflect.ValueOfString(pick(r, "v", "w")))
		case fd.IsList():
			for j := 1 + r.Intn(2); j > 0; j-- {
				m.Mutable(fd).List().Append(protoreflect.ValueOfString(pick(r, "t1", "t2", "ü")))
			}
		case fd.Kind() == protoreflect.MessageKind:
			c := dynamicpb.NewMessage(fd.Message())
			cfs := fd.Message().Fields()
			for k := 0; k < cfs.Len(); k++ {
				if cfs.Get(k).Kind() == protoreflect.StringKind {
					c.Set(cfs.Get(k), protoreflect.ValueOfString(pick(r, "c1", "c2")))
				}
			}
			m.Set(fd, protoreflect.ValueOfMessage(c))
		case fd.Kind() == protoreflect.StringKind:
			m.Set(fd, protoreflect.ValueOfString(pick(r, "s1", "s2", "x y")))
		case fd.Kind() == protoreflect.BoolKind:
			m.Set(fd, protoreflect.ValueOfBool(true))
		case fd.Kind() == protoreflect.Int32Kind:
			m.Set(fd, protoreflect.ValueOfInt32(int32(pick(r, 0, 5, 100))))
		case fd.Kind() == protoreflect.Int64Kind:
			m.Set(fd, protoreflect.ValueOfInt64(pick(r, int64(1700000000), int64(9007199254740993))))
		}
	}
	shared := pick(r, "A", "B")
	co := drv.ClientOpts{Shared: shared, DefaultHeaders: [][2]string{{"X-Api-Key", "key-" + shared}, {"X-Client", shared}}}
	if shared == "B" {
		co.ContentType = "application/x-protobuf"
	}
	var call drv.CallOpts
	// a caller may create an option value once and hand it to many calls, alone or next to others
	call.Reuse = r.Intn(2) == 0
	switch r.Intn(6) {
	case 5:
		call.Headers = [][2]string{{"X-Trace", pick(r, "t1", "t2")}, {"X-Extra", pick(r, "e1", "e2")}}
	case 0:
		call.Headers = [][2]string{{"X-Trace", pick(r, "t1", "t2", "t3")}}
	case 1:
		call.Headers = [][2]string{{"X-Api-Key", "override-" + pick(r, "1", "2")}} // per-call value wins, for this call only
	case 2:
		call.ContentType = pick(r, "application/json", "application/x-protobuf")
	case 3:
		if rp.svc == "Items" {
			call.Helpers = [][2]string{{"X-Api-Key", "typed-" + pick(r, "1", "2")}}
		}
	}
	if rp.rpc == "UpdateItem" && r.Intn(8) != 0 {
		call.Helpers = append(call.Helpers, [2]string{"X-Idem", pick(r, "i1", "i2")})
	}
	op := drv.Op{Op: "call", Pkg: "gen/cc", Svc: rp.svc, Rpc: rp.rpc, ReqType: "cc.v1." + rp.in, ReqB64: base64.StdEncoding.EncodeToString(val.Det(m)),
		ClientOpts: co, CallOpts: call}
	k, _ := json.Marshal([]any{rp.svc, rp.rpc, op.ReqB64, co, call})
	return &concCall{key: "call" + string(k), op: op, label: fmt.Sprintf("%s.%s %s client=%s call=%v", rp.svc, rp.rpc, val.Message(m), shared, call)}
}

// runDrvRace runs the race-enabled driver; returns events, the race reports and whether it exited abnormally.
func runDrvRace(c *chk.Ctx, bin, dir string, ops []drv.Op, tag string) (map[string][]drv.Event, []string) {
	var plan bytes.Buffer
	for _, op := range ops {
		b, _ := json.Marshal(op)
		plan.Write(b)
		plan.WriteByte('\n')
	}
	pf := filepath.Join(dir, "plan-"+tag+".ndjson")
	_ = os.WriteFile(pf, plan.Bytes(), 0o644)
	cmd := exec.Command(bin, pf)
	cmd.Env = append(os.Environ(), "GORACE=halt_on_error=0 exitcode=0")
	var so, se bytes.Buffer
	cmd.Stdout, cmd.Stderr = &so, &se
	runErr := cmd.Run()
	var races []string
	if runErr != nil {
		// the Go runtime kills a process on unsynchronised map access: that is a detected race, not a harness problem
		if i := strings.Index(se.String(), "fatal error: concurrent map"); i >= 0 {
			races = append(races, "CRASH "+firstN(se.String()[i:], 1500))
		} else {
			c.Broken("driver died: %v\n%s", runErr, firstN(se.String(), 2000))
		}
	}
	for _, blk := range strings.Split(se.String(), "==================") {
		if strings.Contains(blk, "WARNING: DATA RACE") {
			races = append(races, firstN(strings.TrimSpace(blk), 1500))
		}
	}
	out := map[string][]drv.Event{}
	sc := bufio.NewScanner(&so)
	sc.Buffer(make([]byte, 1<<20), 1<<28)
	for sc.Scan() {
		var e drv.Event
		if json.Unmarshal(sc.Bytes(), &e) != nil {
			continue
		}
		k := fmt.Sprintf("%v/%v", e["case"], e["call"])
		out[k] = append(out[k], e)
	}
	return out, races
}

// outcome of one op as canonical strings
type concOutcome struct {
	Reached bool   `json:"reached"`
	Rpc     string `json:"rpc"`
	Saw     string `json:"saw"`
	Out     string `json:"out"`
	Wire    string `json:"wire"`
}

func concOutcomeOf(files *abs.Built, evs []drv.Event) (concOutcome, []drv.Event) {
	var o concOutcome
	sort.SliceStable(evs, func(a, b int) bool { return evs[a]["gseq"].(float64) < evs[b]["gseq"].(float64) })
	for _, e := range evs {
		switch e["event"] {
		case "Sent":
			hs, _ := json.Marshal(e["headers"])
			o.Wire = fmt.Sprintf("%v %v ?%v %s body=%v", e["verb"], e["path"], e["rawQuery"], hs, e["bodyB64"])
		case "HandlerSaw":
			o.Reached = true
			o.Rpc = fmt.Sprint(e["rpc"])
			if m, err := val.Decode(files.Files, fmt.Sprint(e["type"]), unb64s(e["valB64"])); err == nil {
				o.Saw = val.Message(m)
			} else {
				o.Saw = "?undecodable"
			}
		case "Resp":
			if o.Out == "" || strings.HasPrefix(o.Out, "resp ") {
				o.Out = fmt.Sprintf("resp %v %v %s", e["status"], e["ctype"], canonBody(files, fmt.Sprint(e["ctype"]), unb64s(e["bodyB64"])))
			}
		case "ClientRet":
			rv := ""
			if e["kind"] == "ok" {
				if m, err := val.Decode(files.Files, fmt.Sprint(e["type"]), unb64s(e["valB64"])); err == nil {
					rv = val.Message(m)
				}
			}
			viol := []string{}
			if vs, ok := e["viol"].([]any); ok {
				for _, v := range vs {
					viol = append(viol, fmt.Sprint(v))
				}
				sort.Strings(viol) // a set: the server collects violations from a map
			}
			o.Out = fmt.Sprintf("ret %v %s %v %v", e["kind"], rv, e["message"], viol)
		case "ServerPanic", "Timeout":
			o.Out = fmt.Sprintf("%v", e["event"])
		}
	}
	return o, evs
}

// canonBody renders a response body independent of JSON member order / proto field order.
func canonBody(files *abs.Built, ctype string, b []byte) string {
	if strings.HasPrefix(ctype, "application/json") {
		var v any
		if json.Unmarshal(b, &v) == nil {
			// the violations of one response are a set (the server collects them from a map): order is not part of the outcome
			if o, ok := v.(map[string]any); ok {
				if vs, ok := o["violations"].([]any); ok {
					sort.SliceStable(vs, func(i, j int) bool {
						a, _ := json.Marshal(vs[i])
						b, _ := json.Marshal(vs[j])
						return string(a) < string(b)
					})
				}
			}
			c, _ := json.Marshal(v)
			return string(c)
		}
	}
	if strings.HasPrefix(ctype, "application/x-protobuf") || strings.HasPrefix(ctype, "application/octet-stream") {
		out, _ := val.New(files.Files, "cc.v1.Out")
		if proto.Unmarshal(b, out) == nil {
			j, _ := protojson.Marshal(out)
			var v any
			_ = json.Unmarshal(j, &v)
			c, _ := json.Marshal(v)
			return "pb:" + string(c)
		}
	}
	return base64.StdEncoding.EncodeToString(b)
}

// checkC17 : a request's outcome does not depend on other requests, concurrent or earlier.
func checkC17(c *chk.Ctx) {
	// ---- the design model: the correct design satisfies isolation, the three flawed designs are rejected
	for _, v := range []struct {
		cfg    string
		expect bool
	}{{"MC_Conc_ok.cfg", true}, {"MC_Conc_pooled.cfg", false}, {"MC_Conc_sharedwrite.cfg", false}, {"MC_Conc_unsyncinit.cfg", false}} {
		r, err := tlc.Exec(tlc.Run{Module: "MC_Conc", Config: v.cfg, Workers: 4})
		if err != nil {
			c.Broken("tlc: %v", err)
		}
		switch {
		case v.expect && !r.OK:
			rp := c.WriteReplay(map[string]any{"property": c.ID, "stage": "design model", "config": v.cfg, "error": firstN(r.Error, 3000)})
			c.Violation(rp, "SebufConc (design of the generated server / client) violates isolation: "+firstN(r.Error, 300))
			c.Done()
		case !v.expect && r.OK:
			c.Broken("self-test: TLC accepted the flawed design %s (the specification cannot express the flaw)", v.cfg)
		}
		c.Infof("TLC %s: %d distinct states, %s", v.cfg, r.Distinct, map[bool]string{true: "no error (isolation, validator-once, completion)", false: "violation found, as it must be"}[v.expect])
		c.AddInt("states", r.Distinct)
	}
	set := pluginSet(c)
	schema := concSchema()
	w, err := work.New()
	if err != nil {
		c.Broken("%v", err)
	}
	defer w.Close()
	// (the optional mock server implementation is emitted as well: its shared state is part of the package)
	em, err := w.Emit(set, schema, work.EmitOpts{Plugins: []string{"go-http", "go-client"}, Params: map[string]string{"go-http": "generate_mock=true"}})
	if err != nil {
		c.Broken("%v", err)
	}
	for _, p := range []string{"go-http", "go-client"} {
		if r := em.Results[p]; !r.OK() {
			rp := c.WriteReplay(map[string]any{"property": c.ID, "stage": "generate", "plugin": p, "error": r.Error})
			c.Violation(rp, p+" refused the schema: "+firstN(r.Error, 300))
			c.Done()
		}
	}
	// the same schema with the methods of every service declared in the opposite order (package cr): what a
	// route demands must not depend on which routes are declared before or after it
	schemaR := reorderedTwin(schema)
	emR, err := w.Emit(set, schemaR, work.EmitOpts{Plugins: []string{"go-http"}})
	if err != nil {
		c.Broken("%v", err)
	}
	if r := emR.Results["go-http"]; !r.OK() {
		c.Broken("go-http refused the reordered twin of the schema: %s", firstN(r.Error, 300))
	}
	if err := w.WriteDriver("drv", []work.PkgSpec{{ImportPath: "scratch/gen/cc", Server: true, Client: true, Mock: true}, {ImportPath: "scratch/gen/cr", Server: true}}); err != nil {
		c.Broken("%v", err)
	}
	bin, bout, err := w.BuildBinary("./drv", "drvrace", "-race")
	if err != nil {
		c.Broken("race-enabled driver does not build: %s", firstN(bout, 1500))
	}
	gen := &concGen{r: rand.New(rand.NewSource(c.Seed*7919 + 17)), files: em.Built}
	nGroups, perGroup := 6, 120
	if c.Thorough() {
		nGroups, perGroup = 40, 800
	}
	pars := []int{1, 4, 16, 64}
	// ---- plan: groups of calls (raw and client groups alternate), each distinct call also alone
	type inst struct {
		id   int
		cc   *concCall
		grp  int
		kind string
	}
	var insts []*inst
	distinct := map[string]*concCall{}
	var order []string
	var ops []drv.Op
	id := 0
	for g := 1; g <= nGroups; g++ {
		kind := "raw"
		if g%2 == 0 {
			kind = "call"
		}
		// a small pool of distinct calls per group, drawn with repetition: earlier and concurrent
		// requests on the same route differ in which fields they bind
		var poolCalls []*concCall
		for i := 0; i < 24; i++ {
			if kind == "raw" {
				poolCalls = append(poolCalls, gen.rawCall())
			} else {
				poolCalls = append(poolCalls, gen.clientCall())
			}
		}
		par := pars[(g/2)%len(pars)]
		for i := 0; i < perGroup; i++ {
			cc := poolCalls[gen.r.Intn(len(poolCalls))]
			if _, ok := distinct[cc.key]; !ok {
				distinct[cc.key] = cc
				order = append(order, cc.key)
			}
			id++
			op := cc.op
			op.Case, op.Call, op.Group, op.Par = id, 1, g, par
			// equal calls get ONE response object (a handler answering from a cache) and, through the client, ONE
			// request object (a caller issuing a prepared request from several goroutines)
			op.Handler = drv.HandlerCfg{Kind: "ok", RespType: "cc.v1.Out", RespB64: respFor(em.Built, cc.key), Shared: true}
			op.SharedReq = true
			ops = append(ops, op)
			insts = append(insts, &inst{id: id, cc: cc, grp: g, kind: kind})
		}
	}
	// reference ops: every distinct call alone, fresh server, fresh client, sequentially
	refID := map[string]int{}
	refID2 := map[string]int{} // the same call alone on the reordered twin
	var refOps []drv.Op
	for _, k := range order {
		cc := distinct[k]
		id++
		op := cc.op
		op.Case, op.Call, op.Fresh = id, 1, true
		op.ClientOpts.Shared = ""
		op.CallOpts.Reuse = false
		op.Handler = drv.HandlerCfg{Kind: "ok", RespType: "cc.v1.Out", RespB64: respFor(em.Built, cc.key)}
		refOps = append(refOps, op)
		refID[k] = id
		if op.Op == "raw" {
			id++
			op2 := op
			op2.Case, op2.Pkg = id, "gen/cr"
			if strings.HasPrefix(op2.URL, "/cc/") { // (the default route of an RPC without http config names the package)
				op2.URL = "/cr/" + strings.TrimPrefix(op2.URL, "/cc/")
			}
			op2.Handler.RespType = strings.Replace(op2.Handler.RespType, "cc.v1.", "cr.v1.", 1)
			refOps = append(refOps, op2)
			refID2[k] = id
		}
	}
	// "alone" means alone: every reference call runs in a process of its own, so that state the emitted
	// package keeps for the whole process (package-level tables, memos, pools) cannot carry anything
	// from one reference call to the next
	refEv := map[string][]drv.Event{}
	var refRaces []string
	{
		var mu sync.Mutex
		var wg sync.WaitGroup
		sem := make(chan struct{}, 12)
		for i := range refOps {
			wg.Add(1)
			sem <- struct{}{}
			go func(i int) {
				defer wg.Done()
				defer func() { <-sem }()
				ev, rc := runDrvRace(c, bin, w.Root, refOps[i:i+1], fmt.Sprintf("ref%d", i))
				mu.Lock()
				for k, v := range ev {
					refEv[k] = v
				}
				refRaces = append(refRaces, rc...)
				mu.Unlock()
			}(i)
		}
		wg.Wait()
	}
	if len(refRaces) > 0 {
		c.Infof("race detector reported during the isolated reference runs (sequential): %s", firstN(refRaces[0], 300))
	}
	alone := map[string]concOutcome{}
	alone2 := map[string]concOutcome{}
	for _, k := range order {
		o, _ := concOutcomeOf(em.Built, refEv[fmt.Sprintf("%d/1", refID[k])])
		alone[k] = o
		if id2, ok := refID2[k]; ok {
			evs := refEv[fmt.Sprintf("%d/1", id2)]
			for _, e := range evs {
				if t, ok := e["type"].(string); ok {
					e["type"] = strings.Replace(t, "cr.v1.", "cc.v1.", 1)
				}
			}
			o2, _ := concOutcomeOf(em.Built, evs)
			alone2[k] = o2
		}
	}
	conEv, races := runDrvRace(c, bin, w.Root, ops, "conc")
	if len(races) > 0 && strings.HasPrefix(races[0], "CRASH ") {
		// the run did not complete: the trace is the crash itself
		seg := &trace.Segment{ID: 0, Lines: []string{jsonLine(map[string]any{"event": "Reset", "group": 0, "kind": "crash", "par": 0}),
			jsonLine(map[string]any{"event": "Race", "detail": firstN(races[0], 800)})}}
		if v, err := trace.Validate("Trace_Conc", "Trace_Conc.cfg", map[string]string{}, []*trace.Segment{seg}, 1); err == nil && len(v.Rejected) == 1 {
			rp := c.WriteReplay(map[string]any{"property": c.ID, "spec": "Trace_Conc", "stage": "concurrent run", "report": races[0], "seed": c.Seed})
			c.Violation(rp, "the Go runtime stopped the process during the concurrent run: "+firstN(races[0], 300))
			c.Done()
		}
		c.Broken("crash trace was not rejected by Trace_Conc")
	}
	// ---- trace: one segment per group, events in global order
	var segs []*trace.Segment
	evals := 0
	byGroup := map[int][]*inst{}
	for _, in := range insts {
		byGroup[in.grp] = append(byGroup[in.grp], in)
	}
	// cold start: every group that runs in parallel also runs as the FIRST thing a new process does (no
	// earlier request has initialised whatever the emitted package initialises lazily)
	coldEv := map[int]map[string][]drv.Event{}
	var coldCrash []string
	var coldGroups []int
	for g := 1; g <= nGroups; g++ {
		if ops[byGroup[g][0].id-1].Par > 1 {
			coldGroups = append(coldGroups, g)
		}
	}
	{
		var mu sync.Mutex
		var wg sync.WaitGroup
		sem := make(chan struct{}, 4)
		for _, g := range coldGroups {
			wg.Add(1)
			sem <- struct{}{}
			go func(g int) {
				defer wg.Done()
				defer func() { <-sem }()
				var gops []drv.Op
				for _, in := range byGroup[g] {
					gops = append(gops, ops[in.id-1])
				}
				ev, rc := runDrvRace(c, bin, w.Root, gops, fmt.Sprintf("cold%d", g))
				mu.Lock()
				coldEv[g] = ev
				for _, r := range rc {
					if strings.HasPrefix(r, "CRASH ") {
						coldCrash = append(coldCrash, fmt.Sprintf("(cold start, group %d at parallelism %d) %s", g, gops[0].Par, r))
						continue
					}
					races = append(races, fmt.Sprintf("(cold start, group %d at parallelism %d) %s", g, gops[0].Par, r))
				}
				mu.Unlock()
			}(g)
		}
		wg.Wait()
	}
	// the emitted mock server behind the same routes: its replies are random by design (nothing to compare with
	// a call alone), but whatever it shares between requests must be safe - parallel requests, cold, race detector on
	{
		var mops []drv.Op
		for _, in := range insts {
			if in.kind == "raw" && len(mops) < 400 {
				op := ops[in.id-1]
				op.Op, op.Group, op.Par, op.Case = "mockraw", 1, 16, 900000+len(mops)
				op.Handler = drv.HandlerCfg{}
				mops = append(mops, op)
			}
		}
		_, rc := runDrvRace(c, bin, w.Root, mops, "mock")
		for _, r := range rc {
			races = append(races, "(mock server, "+fmt.Sprint(len(mops))+" requests at parallelism 16) "+r)
		}
		c.Set("mock_requests", len(mops))
	}
	if len(coldCrash) > 0 {
		// a cold-start run did not complete: the trace is the crash itself (there is no such action)
		seg := &trace.Segment{ID: 0, Lines: []string{jsonLine(map[string]any{"event": "Reset", "group": 0, "kind": "crash", "par": 0}),
			jsonLine(map[string]any{"event": "Race", "detail": firstN(coldCrash[0], 800)})}}
		if v, err := trace.Validate("Trace_Conc", "Trace_Conc.cfg", map[string]string{}, []*trace.Segment{seg}, 1); err == nil && len(v.Rejected) == 1 {
			rp := c.WriteReplay(map[string]any{"property": c.ID, "spec": "Trace_Conc", "stage": "cold-start run", "report": coldCrash[0], "seed": c.Seed})
			c.Violation(rp, "the Go runtime stopped the process during a cold-start run: "+firstN(coldCrash[0], 300))
			c.Done()
		}
		c.Broken("crash trace was not rejected by Trace_Conc")
	}
	type segRun struct {
		g    int
		id   int
		ev   map[string][]drv.Event
		cold bool
	}
	var segRuns []segRun
	for g := 1; g <= nGroups; g++ {
		segRuns = append(segRuns, segRun{g: g, id: g, ev: conEv})
	}
	for _, g := range coldGroups {
		segRuns = append(segRuns, segRun{g: g, id: 1000 + g, ev: coldEv[g], cold: true})
	}
	for _, sr := range segRuns {
		g, conEv := sr.g, sr.ev
		type line struct {
			gseq float64
			text string
		}
		var ls []line
		for _, in := range byGroup[g] {
			o, evs := concOutcomeOf(em.Built, conEv[fmt.Sprintf("%d/1", in.id)])
			if len(evs) == 0 {
				c.Broken("no events for op %d", in.id)
			}
			first := evs[0]["gseq"].(float64)
			ls = append(ls, line{first - 0.5, beginLine(in.id, alone[in.cc.key], alone2, in.cc.key, firstN(in.cc.label, 200))})
			last := first
			for _, e := range evs {
				gs := e["gseq"].(float64)
				if gs > last {
					last = gs
				}
				switch e["event"] {
				case "Sent":
					ls = append(ls, line{gs, jsonLine(map[string]any{"event": "Sent", "id": in.id, "wire": o.Wire})})
				case "HandlerSaw":
					ls = append(ls, line{gs, jsonLine(map[string]any{"event": "Saw", "id": in.id, "rpc": o.Rpc, "vals": o.Saw})})
				}
			}
			ls = append(ls, line{last + 0.5, jsonLine(map[string]any{"event": "End", "id": in.id, "out": o.Out})})
		}
		sort.SliceStable(ls, func(a, b int) bool { return ls[a].gseq < ls[b].gseq })
		seg := &trace.Segment{ID: sr.id, Lines: []string{jsonLine(map[string]any{"event": "Reset", "group": sr.id, "kind": byGroup[g][0].kind, "par": ops[byGroup[g][0].id-1].Par})}}
		for _, l := range ls {
			seg.Lines = append(seg.Lines, l.text)
		}
		if sr.id == 1 {
			for _, rc := range races {
				seg.Lines = append(seg.Lines, jsonLine(map[string]any{"event": "Race", "detail": firstN(rc, 600)}))
			}
		}
		evals += len(seg.Lines) - 1
		segs = append(segs, seg)
		c.AddSample(map[string]any{"group": sr.id, "cold_start": sr.cold, "kind": byGroup[g][0].kind, "calls": len(byGroup[g]), "parallelism": ops[byGroup[g][0].id-1].Par})
	}
	c.Set("rule", "one evaluation = one Begin / Sent / Saw / End event of a call executed among other calls (sequentially or concurrently, race detector on) on one registered server and one shared client per service; TLC accepts it only if it carries exactly what the same call yields alone on a fresh server and client")
	c.Set("distinct_calls", len(order))
	c.Set("race_reports", len(races))
	v, err := trace.Validate("Trace_Conc", "Trace_Conc.cfg", map[string]string{}, segs, 10)
	if err != nil {
		c.Broken("%v", err)
	}
	c.AddInt("traces_validated_against_impl", int64(len(v.Accepted)))
	c.Set("evaluations", evals)
	c.Set("distinct_nontrivial", len(order))
	c.Infof("trace validation (Trace_Conc): %d groups accepted, %d rejected; %d calls (%d distinct), %d race reports", len(v.Accepted), len(v.Rejected), len(insts), len(order), len(races))
	for _, bad := range v.Rejected {
		var e map[string]any
		_ = json.Unmarshal([]byte(v.RejectedLine[bad.ID]), &e)
		var begin string
		for _, l := range bad.Lines {
			if strings.Contains(l, `"event":"Begin"`) && strings.Contains(l, fmt.Sprintf(`"id":%v,`, e["id"])) {
				begin = l
			}
		}
		rp := c.WriteReplay(map[string]any{"property": c.ID, "spec": "Trace_Conc", "group": json.RawMessage(bad.Lines[0]), "rejected_at": json.RawMessage(v.RejectedLine[bad.ID]),
			"alone": json.RawMessage(orNull(begin)), "seed": c.Seed})
		c.Violation(rp, fmt.Sprintf("group %d rejected by Trace_Conc: %s | alone: %s", bad.ID, firstN(v.RejectedLine[bad.ID], 300), firstN(begin, 400)))
	}
	c.Done()
}

func orNull(s string) string {
	if s == "" {
		return "null"
	}
	return s
}

// respFor: the handler's response for a call, a function of the call itself.
func respFor(b *abs.Built, key string) string {
	out, _ := val.New(b.Files, "cc.v1.Out")
	h := 0
	for _, ch := range key {
		h = (h*31 + int(ch)) % 1000003
	}
	out.Set(out.Descriptor().Fields().ByName("id"), protoreflect.ValueOfString(fmt.Sprintf("resp-%d", h)))
	out.Set(out.Descriptor().Fields().ByName("n"), protoreflect.ValueOfInt64(int64(h)))
	afd := out.Descriptor().Fields().ByName("addr")
	addr := out.Mutable(afd).Message()
	addr.Set(afd.Message().Fields().ByName("city"), protoreflect.ValueOfString(fmt.Sprintf("city-%d", h%7)))
	addr.Set(afd.Message().Fields().ByName("zip"), protoreflect.ValueOfString(fmt.Sprintf("%05d", h%100000)))
	return base64.StdEncoding.EncodeToString(val.Det(out))
}

// beginLine: the call enters the system; it carries what the call yields alone, and - for raw requests -
// what it yields alone on the twin server whose routes were declared in the opposite order.
func beginLine(id int, alone concOutcome, alone2 map[string]concOutcome, key, label string) string {
	m := map[string]any{"event": "Begin", "id": id, "alone": alone, "label": label}
	if o2, ok := alone2[key]; ok {
		m["alone2"] = o2
	}
	return jsonLine(m)
}

// reorderedTwin copies the schema into package cr with the methods of every service in reverse order.
func reorderedTwin(s *abs.Schema) *abs.Schema {
	b, _ := json.Marshal(s)
	t := strings.NewReplacer("cc.v1", "cr.v1", "scratch/gen/cc;cc", "scratch/gen/cr;cr", "cc/svc.proto", "cr/svc.proto").Replace(string(b))
	var out abs.Schema
	if err := json.Unmarshal([]byte(t), &out); err != nil {
		panic(err)
	}
	for _, f := range out.Files {
		for _, sv := range f.Services {
			for a, z := 0, len(sv.Methods)-1; a < z; a, z = a+1, z-1 {
				sv.Methods[a], sv.Methods[z] = sv.Methods[z], sv.Methods[a]
			}
		}
	}
	out.Normalize()
	return &out
}
