package main

import (
	"bufio"
	"bytes"
	"encoding/json"
	"fmt"
	"os"
	"os/exec"
	"path/filepath"
	"sort"
	"strings"

	"verifharness/abs"
	"verifharness/chk"
	"verifharness/gobuild"
	"verifharness/pipe"
	"verifharness/plug"
	"verifharness/trace"
	"verifharness/work"
)

const node22 = "/root/.nvm/versions/node/v22.22.2/bin/node"

func nodeBin(c *chk.Ctx) string {
	if _, err := os.Stat(node22); err == nil {
		return node22
	}
	if p, err := exec.LookPath("node"); err == nil {
		out, _ := exec.Command(p, "--version").Output()
		if len(out) > 2 && out[1] >= '2' && string(out[1:3]) >= "22" {
			return p
		}
	}
	c.Broken("node >= 22 (TypeScript type stripping) is not available")
	return ""
}

// tsLoad writes the TS files of every case to dir/<case>/ and loads them all in one node process.
func tsLoad(c *chk.Ctx, root string) map[string]map[string]string {
	cmd := exec.Command(nodeBin(c), "--no-warnings", filepath.Join(plug.VerifDir(), "tools", "ts_load.mjs"), root)
	var so, se bytes.Buffer
	cmd.Stdout, cmd.Stderr = &so, &se
	if err := cmd.Run(); err != nil {
		c.Broken("ts loader failed: %v %s", err, firstN(se.String(), 500))
	}
	res := map[string]map[string]string{} // case dir -> file -> diag ("" = ok)
	sc := bufio.NewScanner(&so)
	sc.Buffer(make([]byte, 1<<20), 1<<26)
	for sc.Scan() {
		var r struct {
			File string `json:"file"`
			OK   bool   `json:"ok"`
			Diag string `json:"diag"`
		}
		if json.Unmarshal(sc.Bytes(), &r) != nil {
			continue
		}
		parts := strings.SplitN(r.File, "/", 2)
		if res[parts[0]] == nil {
			res[parts[0]] = map[string]string{}
		}
		d := ""
		if !r.OK {
			d = r.Diag
			if d == "" {
				d = "load failed"
			}
		}
		res[parts[0]][parts[1]] = d
	}
	return res
}

// (m: both Go plugins with the optional mock server requested)
var subsets = map[string][]string{"h": {"go-http"}, "c": {"go-client"}, "b": {"go-http", "go-client"}, "m": {"go-http", "go-client"}}

// checkC13 : everything the generators emit builds, vets and loads.
func checkC13(c *chk.Ctx) {
	extraConsts["Enforce"] = `{"C13"}`
	set := pluginSet(c)
	res := runMC(c, "MC_Pipeline", "MC_Pipeline_C13.cfg", nil, true)
	raws := make([]string, 0, len(res.Cases))
	for _, r := range res.Cases {
		raws = append(raws, string(r))
	}
	sort.Strings(raws)
	// (every case in both tiers: a sampled quick tier let a change that breaks one
	// annotation x cardinality combination through two seeds out of three)
	stride := 1
	w, err := work.New()
	if err != nil {
		c.Broken("%v", err)
	}
	defer w.Close()
	tsRoot := filepath.Join(w.Root, "ts")
	type unit struct {
		seg    *trace.Segment
		ex     *pipe.Exported
		subset string
		dir    string // gen/<prefix>
	}
	var units []*unit
	id := 0
	evals := 0
	for i, raw := range raws {
		// the quick tier samples the large annotation x cardinality products by seed; the hand-shaped
		// schemas (identifier shapes, several services / files / packages, method shapes) always run
		shaped := strings.Contains(raw, `"kind":"c13x"`) || strings.Contains(raw, `"kind":"c13m"`)
		if (i+int(c.Seed))%stride != 0 && !shaped {
			continue
		}
		sks := []string{"h", "c", "b", "m"}
		for _, sk := range sks {
			prefix := fmt.Sprintf("b%d%s", i, sk)
			e, err := pipe.ParseExported(json.RawMessage(raw), prefix)
			if err != nil {
				c.Broken("bad exported case: %v", err)
			}
			b, err := abs.Build(e.Schema)
			if err != nil {
				c.Broken("harness cannot express exported case %v: %v", e.Fv, err)
			}
			u := &unit{ex: e, subset: sk, dir: "gen/" + prefix}
			u.seg = &trace.Segment{ID: id, Meta: e, Lines: []string{schemaLine2(e, "subset="+sk)}}
			id++
			gores := set.Run("go", b.Request("", nil), plug.RunOpts{})
			if !gores.OK() {
				c.Broken("protoc-gen-go failed on harness descriptors: %s", gores.Error)
			}
			_ = w.Write(gores.Files)
			plugins := subsets[sk]
			if sk == "b" {
				plugins = append(append([]string{}, plugins...), "ts-client", "ts-server")
			}
			for _, p := range plugins {
				param := ""
				if sk == "m" && p == "go-http" {
					param = "generate_mock=true"
				}
				r := set.Run(p, b.Request(param, nil), plug.RunOpts{})
				u.seg.Lines = append(u.seg.Lines, jsonLine(pipe.GenEvent(r, nil, "base", e.Schema, nil)))
				evals++
				if !r.OK() {
					continue
				}
				switch p {
				case "go-http", "go-client":
					_ = w.Write(r.Files)
				default:
					for _, f := range r.Files {
						pth := filepath.Join(tsRoot, prefix, p, f.Name)
						_ = os.MkdirAll(filepath.Dir(pth), 0o755)
						_ = os.WriteFile(pth, []byte(f.Content), 0o644)
					}
				}
			}
			units = append(units, u)
		}
	}
	c.Infof("%d packages (cases x plugin subsets) written; building", len(units))
	fails, out, err := w.BuildPkgs(nil, "./gen/...")
	if err != nil {
		c.Broken("go build: %v", err)
	}
	if chk.ToolchainFailure(out) {
		c.Broken("the Go toolchain failed underneath the check (build cache removed while building?): %s", firstN(out, 400))
	}
	vetFails := map[string]string{}
	// vet only what builds (vet needs type information)
	var vetPatterns []string
	for _, u := range units {
		if _, bad := fails[u.dir]; !bad {
			if _, err := os.Stat(filepath.Join(w.Mod, u.dir)); err == nil {
				vetPatterns = append(vetPatterns, "./"+u.dir)
			}
		}
	}
	if len(vetPatterns) > 0 {
		vf, vout, err := w.VetPkgs(vetPatterns...)
		if err != nil {
			c.Broken("go vet: %v\n%s", err, firstN(vout, 800))
		}
		vetFails = vf
	}
	_ = os.MkdirAll(tsRoot, 0o755)
	loads := tsLoad(c, tsRoot)
	nBuildFail, nVetFail, nLoadFail := 0, 0, 0
	for _, u := range units {
		sub := subsets[u.subset]
		pkgDir := filepath.Join(w.Mod, u.dir)
		if _, err := os.Stat(pkgDir); err == nil {
			dups, perr := gobuild.Dups(pkgDir)
			u.seg.Lines = append(u.seg.Lines, jsonLine(map[string]any{"event": "Decls", "subset": sub, "dups": dups, "parseErr": perr}))
			diag := fails[u.dir]
			u.seg.Lines = append(u.seg.Lines, jsonLine(map[string]any{"event": "Build", "kind": "build", "subset": sub, "ok": diag == "",
				"diag": gobuild.DiagClass(diag), "text": firstN(diag, 300)}))
			if diag != "" {
				nBuildFail++
			} else {
				vd := vetFails[u.dir]
				u.seg.Lines = append(u.seg.Lines, jsonLine(map[string]any{"event": "Build", "kind": "vet", "subset": sub, "ok": vd == "",
					"diag": gobuild.DiagClass(vd), "text": firstN(vd, 300)}))
				if vd != "" {
					nVetFail++
				}
			}
		}
		prefix := strings.TrimPrefix(u.dir, "gen/")
		files := loads[prefix]
		names := make([]string, 0, len(files))
		for f := range files {
			names = append(names, f)
		}
		sort.Strings(names)
		for _, f := range names {
			plugin := strings.SplitN(f, "/", 2)[0]
			d := files[f]
			u.seg.Lines = append(u.seg.Lines, jsonLine(map[string]any{"event": "Build", "kind": "load", "subset": []string{plugin}, "ok": d == "",
				"diag": gobuild.DiagClass(d), "text": firstN(d, 300), "file": f}))
			if d != "" {
				nLoadFail++
			}
		}
	}
	c.Infof("instruments: %d build failures, %d vet failures, %d TS load failures", nBuildFail, nVetFail, nLoadFail)
	var segs []*trace.Segment
	for i, u := range units {
		segs = append(segs, u.seg)
		if i%60 == 0 {
			c.AddSample(map[string]any{"fv": u.ex.Fv, "subset": subsets[u.subset], "events": len(u.seg.Lines)})
		}
	}
	c.Set("packages_built", len(units))
	judgeSegments(c, "Trace_Pipeline", "Trace_Pipeline.cfg", segs, evals)
	c.Done()
}
