package main

import (
	"encoding/json"
	"fmt"
	"google.golang.org/protobuf/reflect/protoreflect"
	"path/filepath"
	"sort"
	"time"

	"verifharness/chk"
	"verifharness/plug"
	"verifharness/tlc"
	"verifharness/wire"
)

var urlKinds = []string{"string", "int32", "int64", "uint32", "uint64", "sint32", "sfixed64", "fixed32", "bool", "float", "double"}

func pluginSet(c *chk.Ctx) *plug.Set {
	set, err := plug.Build(filepath.Join(plug.VerifDir(), ".cache", "bin"))
	if err != nil {
		c.Broken("cannot build plugins from the working tree: %v", err)
	}
	return set
}

// runMC runs an exhaustive config and returns the result (exit 2 on anything but success).
func runMC(c *chk.Ctx, module, cfg string, consts map[string]string, export bool) *tlc.Result {
	if consts == nil {
		consts = map[string]string{}
	}
	if export {
		consts["Export"] = "TRUE"
	}
	res, err := tlc.Exec(tlc.Run{Module: module, Config: cfg, Constants: consts, Workers: 8, Timeout: 20 * time.Minute, Coverage: c.Thorough()})
	if err != nil {
		c.Broken("tlc: %v", err)
	}
	if !res.OK {
		if res.Violated != "" {
			c.Broken("TLC reports %s violated on the contract suite (Dev = {}): the specification is inconsistent, not the code", res.Violated)
		}
		c.Broken("TLC run %s/%s failed: %s", module, cfg, firstN(res.Error, 1500))
	}
	c.AddInt("states", res.Distinct)
	c.AddInt("transitions", res.Generated)
	c.Set("tlc_depth", res.Depth)
	if c.Thorough() {
		c.Set("action_coverage", res.ActionCover)
	}
	c.Infof("TLC %s: %d distinct states, %d generated, depth %d, %d cases exported (%.1fs)", cfg, res.Distinct, res.Generated, res.Depth, len(res.Cases), res.WallS)
	return res
}

func firstN(s string, n int) string {
	if len(s) > n {
		return s[:n]
	}
	return s
}

// withKind substitutes the kind of the URL-bound fields p, q, rq of the standard RPC shape.
func withKind(sym wire.AReq, kind string) wire.AReq {
	// deep copy: the concretiser writes tokens into the slices of the request it is given, and in the
	// thorough tier one symbolic request is expanded into one request per kind
	var out wire.AReq
	b, _ := json.Marshal(sym)
	_ = json.Unmarshal(b, &out)
	for i := range out.Rpc.Fdefs {
		switch out.Rpc.Fdefs[i].Name {
		case "p", "q", "rq":
			out.Rpc.Fdefs[i].Kind = kind
		}
	}
	return out
}

type wireReplay struct {
	Property string        `json:"property"`
	Family   string        `json:"family"`
	Dev      []string      `json:"dev"`
	Abstract wire.AReq     `json:"abstract_case"`
	Concrete wire.Concrete `json:"request"`
	Origin   string        `json:"origin"`
	Note     string        `json:"note"`
	Observed []any         `json:"observed"`
	Rejected string        `json:"rejected_at"`
	Seed     int64         `json:"seed"`
}

// wireCheck is the common body of C02 / C09 / C10 / C11 (server side).
func wireCheck(c *chk.Ctx, family string, expandKinds bool, random func(*chk.Ctx, *wire.Builder)) {
	set := pluginSet(c)
	res := runMC(c, "MC_Wire", "MC_Wire_"+family+".cfg", nil, true)
	if len(res.Cases) == 0 {
		c.Broken("TLC exported no cases")
	}
	var syms []wire.AReq
	for _, raw := range res.Cases {
		var a wire.AReq
		if err := json.Unmarshal(raw, &a); err != nil {
			c.Broken("bad exported case: %v", err)
		}
		syms = append(syms, a)
	}
	// deterministic order (TLC prints in worker order)
	sort.Slice(syms, func(i, j int) bool {
		bi, _ := json.Marshal(syms[i])
		bj, _ := json.Marshal(syms[j])
		return string(bi) < string(bj)
	})
	b := wire.NewBuilder("w")
	for i, s := range syms {
		if !expandKinds {
			b.Add(s, "tlc:"+family)
			continue
		}
		if c.Thorough() {
			for _, k := range urlKinds {
				b.Add(withKind(s, k), "tlc:"+family)
			}
		} else {
			b.Add(withKind(s, urlKinds[(i+int(c.Seed))%len(urlKinds)]), "tlc:"+family)
		}
	}
	if random != nil {
		random(c, b)
	}
	suite, err := b.Finish()
	if err != nil {
		c.Broken("%v", err)
	}
	if family == "C11" {
		per := 12
		if c.Thorough() {
			per = 0 // all variants
		}
		suite.ExpandMalformed(c.Seed, per)
	}
	c.Infof("%d cases over %d RPC shapes (%d class/kind combinations have no concrete form and were skipped)", len(suite.Cases), len(suite.Shapes), suite.Skipped)
	out, err := suite.Execute(set)
	if err != nil {
		// the harness schema is plain, valid sebuf usage: a refusal or build failure is a real observation
		rp := c.WriteReplay(map[string]any{"property": c.ID, "stage": "generate/build", "error": err.Error()})
		c.Violation(rp, "the emitted server for the family's schema could not be generated/built: "+firstN(err.Error(), 300))
		c.Done()
	}
	judgeWire(c, family, suite, out)
	switch family {
	case "C10":
		clientSideCheck(c, `{"C10"}`, realErrorResponses(out))
	case "C11":
		clientSideCheck(c, `{"C11"}`, realErrorResponses(out))
	}
	c.Done()
}

func judgeWire(c *chk.Ctx, family string, suite *wire.Suite, out *wire.Outcome) {
	dev := c.Dev()
	v, err := suite.Validate(out, dev, 25)
	if err != nil {
		c.Broken("%v", err)
	}
	c.AddInt("traces_validated_against_impl", int64(len(v.Accepted)))
	c.Set("evaluations", len(suite.Cases))
	nontrivial := map[string]bool{}
	for _, cs := range suite.Cases {
		nontrivial[cs.Note+"|"+cs.RpcKey] = true
	}
	c.Set("distinct_nontrivial", len(nontrivial))
	c.Set("rule", "cases = TLC-enumerated abstract requests of the family (each concretised for a field kind) + seeded random requests; distinct = distinct (RPC shape, value-class vector) pairs")
	c.Set("trace_tlc_runs", v.TLCRuns)
	for i, cs := range suite.Cases {
		if i%(len(suite.Cases)/4+1) == 0 {
			c.AddSample(map[string]any{"origin": cs.Origin, "request": cs.C.URL, "note": cs.Note, "verb": cs.A.Rpc.Verb})
		}
	}
	c.Infof("trace validation: %d accepted, %d rejected (Dev = %v, %d TLC runs)", len(v.Accepted), len(v.Rejected), dev, v.TLCRuns)
	// which known deviations were needed? re-validate without each
	if len(dev) > 0 && len(v.Rejected) == 0 {
		for _, d := range dev {
			var rest []string
			for _, x := range dev {
				if x != d {
					rest = append(rest, x)
				}
			}
			v2, err := suite.Validate(out, rest, 1)
			if err != nil {
				c.Broken("%v", err)
			}
			if len(v2.Rejected) > 0 {
				c.Observe(d)
			}
		}
	}
	for _, bad := range v.Rejected {
		rp := c.WriteReplay(wireReplay{Property: c.ID, Family: family, Dev: dev, Abstract: bad.A, Concrete: bad.C, Origin: bad.Origin,
			Note: bad.Note, Observed: eventsOf(out, bad.ID), Rejected: v.RejectedLine[bad.ID], Seed: c.Seed})
		c.Violation(rp, fmt.Sprintf("%s %s [%s] rejected by Trace_Wire at: %s", bad.A.Rpc.Verb, bad.C.URL, bad.Note, firstN(v.RejectedLine[bad.ID], 400)))
	}
}

func eventsOf(out *wire.Outcome, id int) []any {
	var evs []any
	for _, e := range out.Events[id] {
		evs = append(evs, e)
	}
	return evs
}

func stringsIndex(s, sub string) int {
	for i := 0; i+len(sub) <= len(s); i++ {
		if s[i:i+len(sub)] == sub {
			return i
		}
	}
	return -1
}

func wireParseScalar(fd protoreflect.FieldDescriptor, s string) (protoreflect.Value, error) {
	return wire.ParseScalar(fd, s)
}
