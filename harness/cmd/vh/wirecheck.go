package main

import (
	"encoding/base64"
	"encoding/json"
	"fmt"
	"os"
	"path/filepath"
	"sort"
	"strings"
	"time"
	"unicode/utf8"

	"google.golang.org/protobuf/encoding/protojson"
	"google.golang.org/protobuf/proto"
	"google.golang.org/protobuf/reflect/protoreflect"

	"verifharness/drv"
	"verifharness/val"

	"verifharness/chk"
	"verifharness/plug"
	"verifharness/tlc"
	"verifharness/wire"
)

var urlKinds = []string{"string", "int32", "int64", "uint32", "uint64", "sint32", "sfixed64", "fixed32", "bool", "float", "double"}

func pluginSet(c *chk.Ctx) *plug.Set {
	set, err := plug.Build(filepath.Join(plug.VerifDir(), ".cache", "bin"))
	if err != nil {
		c.Broken("cannot build plugins from the working tree: %v", err)
	}
	return set
}

// runMC runs an exhaustive config and returns the result (exit 2 on anything but success).
func runMC(c *chk.Ctx, module, cfg string, consts map[string]string, export bool) *tlc.Result {
	if consts == nil {
		consts = map[string]string{}
	}
	if export {
		consts["Export"] = "TRUE"
	}
	res, err := tlc.Exec(tlc.Run{Module: module, Config: cfg, Constants: consts, Workers: 8, Timeout: 20 * time.Minute, Coverage: c.Thorough()})
	if err != nil {
		c.Broken("tlc: %v", err)
	}
	if !res.OK {
		if res.Violated != "" {
			c.Broken("TLC reports %s violated on the contract suite (Dev = {}): the specification is inconsistent, not the code", res.Violated)
		}
		c.Broken("TLC run %s/%s failed: %s", module, cfg, firstN(res.Error, 1500))
	}
	c.AddInt("states", res.Distinct)
	c.AddInt("transitions", res.Generated)
	c.Set("tlc_depth", res.Depth)
	if c.Thorough() {
		c.Set("action_coverage", res.ActionCover)
	}
	c.Infof("TLC %s: %d distinct states, %d generated, depth %d, %d cases exported (%.1fs)", cfg, res.Distinct, res.Generated, res.Depth, len(res.Cases), res.WallS)
	return res
}

func firstN(s string, n int) string {
	if len(s) > n {
		return s[:n]
	}
	return s
}

// withKind substitutes the kind of the URL-bound fields p, q, rq of the standard RPC shape.
func withKind(sym wire.AReq, kind string) wire.AReq {
	// deep copy: the concretiser writes tokens into the slices of the request it is given, and in the
	// thorough tier one symbolic request is expanded into one request per kind
	var out wire.AReq
	b, _ := json.Marshal(sym)
	_ = json.Unmarshal(b, &out)
	for i := range out.Rpc.Fdefs {
		switch out.Rpc.Fdefs[i].Name {
		case "p", "q", "rq":
			out.Rpc.Fdefs[i].Kind = kind
		}
	}
	return out
}

type wireReplay struct {
	Property string        `json:"property"`
	Family   string        `json:"family"`
	Dev      []string      `json:"dev"`
	Abstract wire.AReq     `json:"abstract_case"`
	Concrete wire.Concrete `json:"request"`
	Origin   string        `json:"origin"`
	Note     string        `json:"note"`
	Observed []any         `json:"observed"`
	Rejected string        `json:"rejected_at"`
	Seed     int64         `json:"seed"`
}

// wireCheck is the common body of C02 / C09 / C10 / C11 (server side).
func wireCheck(c *chk.Ctx, family string, expandKinds bool, random func(*chk.Ctx, *wire.Builder)) {
	set := pluginSet(c)
	res := runMC(c, "MC_Wire", "MC_Wire_"+family+".cfg", nil, true)
	if len(res.Cases) == 0 {
		c.Broken("TLC exported no cases")
	}
	var syms []wire.AReq
	for _, raw := range res.Cases {
		var a wire.AReq
		if err := json.Unmarshal(raw, &a); err != nil {
			c.Broken("bad exported case: %v", err)
		}
		syms = append(syms, a)
	}
	// deterministic order (TLC prints in worker order)
	sort.Slice(syms, func(i, j int) bool {
		bi, _ := json.Marshal(syms[i])
		bj, _ := json.Marshal(syms[j])
		return string(bi) < string(bj)
	})
	b := wire.NewBuilder("w")
	for i, s := range syms {
		if !expandKinds {
			b.Add(s, "tlc:"+family)
			continue
		}
		if c.Thorough() {
			for _, k := range urlKinds {
				b.Add(withKind(s, k), "tlc:"+family)
			}
		} else {
			b.Add(withKind(s, urlKinds[(i+int(c.Seed))%len(urlKinds)]), "tlc:"+family)
		}
	}
	if random != nil {
		random(c, b)
	}
	suite, err := b.Finish()
	if err != nil {
		c.Broken("%v", err)
	}
	if family == "C11" {
		per := 12
		if c.Thorough() {
			per = 0 // all variants
		}
		suite.ExpandMalformed(c.Seed, per)
	}
	c.Infof("%d cases over %d RPC shapes (%d class/kind combinations have no concrete form and were skipped)", len(suite.Cases), len(suite.Shapes), suite.Skipped)
	out, err := suite.Execute(set)
	if err != nil {
		// the harness schema is plain, valid sebuf usage: a refusal or build failure is a real observation
		rp := c.WriteReplay(map[string]any{"property": c.ID, "stage": "generate/build", "error": err.Error()})
		c.Violation(rp, "the emitted server for the family's schema could not be generated/built: "+firstN(err.Error(), 300))
		c.Done()
	}
	if family == "C09" {
		publishedHeaders(c, set, suite)
	}
	judgeWire(c, family, suite, out)
	if family == "C02" || family == "C09" || family == "C10" {
		tsWire(c, set, family, suite)
	}
	switch family {
	case "C10":
		clientSideCheck(c, `{"C10"}`, realErrorResponses(out))
	case "C11":
		clientSideCheck(c, `{"C11"}`, realErrorResponses(out))
		malformedCodecShapes(c)
	}
	c.Done()
}

func judgeWire(c *chk.Ctx, family string, suite *wire.Suite, out *wire.Outcome) {
	dev := c.Dev()
	v, err := suite.Validate(out, dev, 25)
	if err != nil {
		c.Broken("%v", err)
	}
	c.AddInt("traces_validated_against_impl", int64(len(v.Accepted)))
	c.Set("evaluations", len(suite.Cases))
	nontrivial := map[string]bool{}
	for _, cs := range suite.Cases {
		nontrivial[cs.Note+"|"+cs.RpcKey] = true
	}
	c.Set("distinct_nontrivial", len(nontrivial))
	c.Set("rule", "cases = TLC-enumerated abstract requests of the family (each concretised for a field kind) + seeded random requests; distinct = distinct (RPC shape, value-class vector) pairs")
	c.Set("trace_tlc_runs", v.TLCRuns)
	for i, cs := range suite.Cases {
		if i%(len(suite.Cases)/4+1) == 0 {
			c.AddSample(map[string]any{"origin": cs.Origin, "request": cs.C.URL, "note": cs.Note, "verb": cs.A.Rpc.Verb})
		}
	}
	c.Infof("trace validation: %d accepted, %d rejected (Dev = %v, %d TLC runs)", len(v.Accepted), len(v.Rejected), dev, v.TLCRuns)
	// which known deviations were needed? re-validate without each
	if len(dev) > 0 && len(v.Rejected) == 0 {
		for _, d := range dev {
			var rest []string
			for _, x := range dev {
				if x != d {
					rest = append(rest, x)
				}
			}
			v2, err := suite.Validate(out, rest, 1)
			if err != nil {
				c.Broken("%v", err)
			}
			if len(v2.Rejected) > 0 {
				c.Observe(d)
			}
		}
	}
	for _, bad := range v.Rejected {
		rp := c.WriteReplay(wireReplay{Property: c.ID, Family: family, Dev: dev, Abstract: bad.A, Concrete: bad.C, Origin: bad.Origin,
			Note: bad.Note, Observed: eventsOf(out, bad.ID), Rejected: v.RejectedLine[bad.ID], Seed: c.Seed})
		c.Violation(rp, fmt.Sprintf("%s %s [%s] rejected by Trace_Wire at: %s", bad.A.Rpc.Verb, bad.C.URL, bad.Note, firstN(v.RejectedLine[bad.ID], 400)))
	}
}

func eventsOf(out *wire.Outcome, id int) []any {
	var evs []any
	for _, e := range out.Events[id] {
		evs = append(evs, e)
	}
	return evs
}

func stringsIndex(s, sub string) int {
	for i := 0; i+len(sub) <= len(s); i++ {
		if s[i:i+len(sub)] == sub {
			return i
		}
	}
	return -1
}

func wireParseScalar(fd protoreflect.FieldDescriptor, s string) (protoreflect.Value, error) {
	return wire.ParseScalar(fd, s)
}

// tsWire runs the JSON cases of the suite against the emitted TypeScript server (C02 and C09 anchor it
// too) and validates the handler view and the responses with the same Trace_Wire specification.
func tsWire(c *chk.Ctx, set *plug.Set, family string, suite *wire.Suite) {
	ts := suite.TSView(family != "C10")
	if len(ts.Cases) == 0 {
		return
	}
	res := set.Run("ts-server", suite.Built.Request("", nil), plug.RunOpts{})
	if !res.OK() {
		rp := c.WriteReplay(map[string]any{"property": c.ID, "stage": "generate", "plugin": "ts-server", "error": res.Error})
		c.Violation(rp, "ts-server refused the family schema: "+firstN(res.Error, 300))
		return
	}
	dir, err := os.MkdirTemp("", "vh-tswire-*")
	if err != nil {
		c.Broken("%v", err)
	}
	defer os.RemoveAll(dir)
	chk.AtExit(func() { _ = os.RemoveAll(dir) })
	mods := map[string]string{} // go package dir ("gen/w0") -> module path
	for _, f := range res.Files {
		p := filepath.Join(dir, f.Name)
		_ = os.MkdirAll(filepath.Dir(p), 0o755)
		_ = os.WriteFile(p, []byte(f.Content), 0o644)
		mods["gen/"+filepath.Base(filepath.Dir(f.Name))] = p
	}
	svcs := map[string][]string{}
	seenSvc := map[string]bool{}
	for _, sh := range ts.Shapes {
		if k := ts.PkgOf(sh) + "|" + sh.Svc; !seenSvc[k] {
			seenSvc[k] = true
			svcs[ts.PkgOf(sh)] = append(svcs[ts.PkgOf(sh)], sh.Svc)
		}
	}
	var ops []map[string]any
	for _, cs := range ts.Cases {
		sh := ts.ShapeOf(cs)
		outJS, _ := protojson.MarshalOptions{EmitUnpopulated: true}.Marshal(ts.OutMsg(sh))
		op := map[string]any{"op": "tsserve", "case": cs.ID, "call": 1, "module": mods[ts.PkgOf(sh)], "service": sh.Svc, "services": svcs[ts.PkgOf(sh)],
			"verb": sh.Rpc.Verb, "url": cs.C.URL, "bodyB64": base64.StdEncoding.EncodeToString(cs.C.Body), "noBody": cs.C.NoBody,
			"handler": map[string]any{"kind": "ok", "value": json.RawMessage(outJS)}}
		switch cs.A.Handler.Kind {
		case "plain":
			op["handler"] = map[string]any{"kind": "plain", "msg": cs.A.Handler.Msg}
		case "validationError":
			viol := [][2]string{}
			for _, n := range cs.A.Handler.Viol {
				viol = append(viol, [2]string{n, "refused by the handler"})
			}
			op["handler"] = map[string]any{"kind": "validationError", "viol": viol}
		}
		if cs.A.Hook.On {
			op["hook"] = map[string]any{"status": cs.A.Hook.Status, "headers": cs.A.Hook.Headers}
		}
		if cs.A.Server == "ts" && cs.A.Handler.Kind != "" && family == "C10" {
			// the validateRequest option is always configured: it reports the case's rule violations (none: an empty list)
			vs := []string{}
			vs = append(vs, cs.A.RuleViol...)
			op["validate"] = vs
		}
		var hs, hb [][2]string
		for _, h := range cs.C.Headers {
			if utf8.ValidString(h[1]) {
				hs = append(hs, h)
			} else {
				hb = append(hb, [2]string{h[0], base64.StdEncoding.EncodeToString([]byte(h[1]))})
			}
		}
		op["headers"], op["headersB64"] = hs, hb
		ops = append(ops, op)
	}
	evs := runTS(c, dir, ops)
	out := &wire.Outcome{Events: map[int][]drv.Event{}}
	seq := map[int]int{}
	for _, e := range evs {
		idf, ok := e["case"].(float64)
		if !ok {
			continue
		}
		id := int(idf)
		seq[id]++
		switch e["event"] {
		case "TsLoadError", "DriverError":
			c.Broken("ts driver: %v", e["detail"])
		case "TsHandlerSaw":
			var cs *wire.Case
			for _, x := range ts.Cases {
				if x.ID == id {
					cs = x
				}
			}
			sh := ts.ShapeOf(cs)
			m, _ := val.New(ts.Files, sh.In)
			typ := sh.In
			argObj, isObj := e["arg"].(map[string]any)
			if !isObj {
				typ = "?handler argument is not an object"
			}
			cp := map[string]any{}
			for k, v := range argObj {
				cp[k] = v
			}
			// path variables arrive as raw decoded segments: read with the field's type (representation is C07's)
			for _, pv := range sh.Rpc.PathVars {
				fd := m.Descriptor().Fields().ByName(protoreflect.Name(pv))
				if fd == nil {
					continue
				}
				jn := fd.JSONName()
				if sv, ok := cp[jn].(string); ok && fd.Kind() != protoreflect.StringKind {
					delete(cp, jn)
					if v, err := wireParseScalar(fd, sv); err == nil {
						m.Set(fd, v)
					} // else: not a value of the field; it stays at its zero value (judged by the specification)
				}
			}
			b, _ := json.Marshal(cp)
			rest, _ := val.New(ts.Files, sh.In)
			if err := protojson.Unmarshal(b, rest); err != nil {
				// some member is not a value of its field (NaN -> null, "12x" for an integer ...): read the
				// members one by one, leaving the unreadable ones at their zero value (whether that is
				// admissible is the specification's business)
				rest, _ = val.New(ts.Files, sh.In)
				readable := 0
				for k, v := range cp {
					one, _ := json.Marshal(map[string]any{k: v})
					tmp, _ := val.New(ts.Files, sh.In)
					if protojson.Unmarshal(one, tmp) == nil {
						proto.Merge(rest, tmp)
						readable++
					}
				}
				_ = readable
			}
			proto.Merge(rest, m)
			m = rest
			rpc := fmt.Sprint(e["rpc"])
			if strings.EqualFold(rpc, sh.Meth) {
				rpc = sh.Meth
			}
			out.Events[id] = append(out.Events[id], drv.Event{"event": "HandlerSaw", "case": idf, "call": 1.0, "seq": float64(seq[id]), "svc": sh.Svc, "rpc": rpc,
				"type": typ, "valB64": base64.StdEncoding.EncodeToString(val.Det(m))})
		case "Resp":
			out.Events[id] = append(out.Events[id], drv.Event{"event": "Resp", "case": idf, "call": 1.0, "seq": float64(seq[id]), "status": e["status"], "ctype": e["ctype"],
				"bodyB64": e["bodyB64"], "headers": e["headers"]})
		case "HookCalled":
			out.Events[id] = append(out.Events[id], drv.Event{"event": "HookCalled", "case": idf, "call": 1.0, "seq": float64(seq[id]), "errKind": e["errKind"]})
		case "TsNoRoute":
			out.Events[id] = append(out.Events[id], drv.Event{"event": "Resp", "case": idf, "call": 1.0, "seq": float64(seq[id]), "status": 404.0, "ctype": "text/plain",
				"bodyB64": "", "headers": []any{}})
		case "TsServerThrow":
			out.Events[id] = append(out.Events[id], drv.Event{"event": "ServerPanic", "case": idf, "call": 1.0, "seq": float64(seq[id]), "detail": e["detail"]})
		case "Timeout":
			out.Events[id] = append(out.Events[id], drv.Event{"event": "Timeout", "case": idf, "call": 1.0, "seq": float64(seq[id])})
		}
	}
	dev := c.Dev()
	v, err := ts.Validate(out, dev, 25)
	if err != nil {
		c.Broken("%v", err)
	}
	c.AddInt("traces_validated_against_impl", int64(len(v.Accepted)))
	c.Set("ts_server_cases", len(ts.Cases))
	c.Infof("TS server: trace validation of %d JSON cases: %d accepted, %d rejected", len(ts.Cases), len(v.Accepted), len(v.Rejected))
	for _, bad := range v.Rejected {
		rp := c.WriteReplay(wireReplay{Property: c.ID, Family: family + " (ts-server)", Dev: dev, Abstract: bad.A, Concrete: bad.C, Origin: bad.Origin,
			Note: bad.Note, Observed: eventsOf(out, bad.ID), Rejected: v.RejectedLine[bad.ID], Seed: c.Seed})
		c.Violation(rp, fmt.Sprintf("TS server: %s %s [%s] rejected by Trace_Wire at: %s", bad.A.Rpc.Verb, bad.C.URL, bad.Note, firstN(v.RejectedLine[bad.ID], 400)))
	}
}

// publishedHeaders reads, from the documents the real OpenAPI plugin emits for the suite's schema, the
// header parameters of every operation; the trace then carries them ("Published") and Trace_Wire
// requires them to say at least what the servers enforce.
func publishedHeaders(c *chk.Ctx, set *plug.Set, suite *wire.Suite) {
	r := set.Run("openapiv3", suite.Built.Request("format=json", nil), plug.RunOpts{})
	if !r.OK() {
		rp := c.WriteReplay(map[string]any{"property": c.ID, "stage": "openapiv3", "exit": r.Exit, "error": r.Error})
		c.Violation(rp, "the OpenAPI plugin refuses the header family's schema: "+firstN(r.Error, 300))
		return
	}
	docs := map[string]map[string]any{}
	for _, f := range r.Files {
		if !strings.HasSuffix(f.Name, ".openapi.json") {
			continue
		}
		var d map[string]any
		if err := json.Unmarshal([]byte(f.Content), &d); err != nil {
			c.Broken("OpenAPI JSON of %s does not parse: %v", f.Name, err)
		}
		docs[strings.TrimSuffix(filepath.Base(f.Name), ".openapi.json")] = d
	}
	n, ops := 0, 0
	for _, sh := range suite.Shapes {
		pub := &wire.Published{Params: []wire.PubParam{}}
		sh.Published = pub
		paths, _ := docs[sh.Svc]["paths"].(map[string]any)
		item, _ := paths[sh.Path()].(map[string]any)
		op, _ := item[strings.ToLower(sh.Rpc.Verb)].(map[string]any)
		if op == nil {
			continue
		}
		pub.Found = true
		ops++
		ps, _ := op["parameters"].([]any)
		for _, x := range ps {
			pm, _ := x.(map[string]any)
			if pm == nil || pm["in"] != "header" {
				continue
			}
			pp := wire.PubParam{Name: fmt.Sprint(pm["name"])}
			pp.Lname = strings.ToLower(pp.Name)
			pp.Required, _ = pm["required"].(bool)
			if sc, _ := pm["schema"].(map[string]any); sc != nil {
				switch t := sc["type"].(type) {
				case string:
					pp.Type = t
				case []any:
					if len(t) == 1 {
						pp.Type = fmt.Sprint(t[0])
					} else {
						pp.Type = fmt.Sprint(t)
					}
				}
				pp.Format, _ = sc["format"].(string)
			}
			pub.Params = append(pub.Params, pp)
			n++
		}
	}
	c.Infof("OpenAPI: %d header parameters published over %d operations of %d documents", n, ops, len(docs))
	c.Set("openapi_header_parameters_read", n)
}
