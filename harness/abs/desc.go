package abs

import (
	"fmt"
	"math"
	"strconv"
	"strings"

	validate "buf.build/gen/go/bufbuild/protovalidate/protocolbuffers/go/buf/validate"
	"google.golang.org/protobuf/proto"
	"google.golang.org/protobuf/reflect/protodesc"
	"google.golang.org/protobuf/reflect/protoreflect"
	"google.golang.org/protobuf/reflect/protoregistry"
	"google.golang.org/protobuf/types/descriptorpb"
	"google.golang.org/protobuf/types/known/anypb"
	"google.golang.org/protobuf/types/known/durationpb"
	"google.golang.org/protobuf/types/known/emptypb"
	"google.golang.org/protobuf/types/known/structpb"
	"google.golang.org/protobuf/types/known/timestamppb"
	"google.golang.org/protobuf/types/known/wrapperspb"
	"google.golang.org/protobuf/types/pluginpb"

	sebufhttp "github.com/SebastienMelki/sebuf/http"
)

var kindMap = map[string]descriptorpb.FieldDescriptorProto_Type{
	"double": descriptorpb.FieldDescriptorProto_TYPE_DOUBLE, "float": descriptorpb.FieldDescriptorProto_TYPE_FLOAT,
	"int64": descriptorpb.FieldDescriptorProto_TYPE_INT64, "uint64": descriptorpb.FieldDescriptorProto_TYPE_UINT64,
	"int32": descriptorpb.FieldDescriptorProto_TYPE_INT32, "fixed64": descriptorpb.FieldDescriptorProto_TYPE_FIXED64,
	"fixed32": descriptorpb.FieldDescriptorProto_TYPE_FIXED32, "bool": descriptorpb.FieldDescriptorProto_TYPE_BOOL,
	"string": descriptorpb.FieldDescriptorProto_TYPE_STRING, "message": descriptorpb.FieldDescriptorProto_TYPE_MESSAGE,
	"bytes": descriptorpb.FieldDescriptorProto_TYPE_BYTES, "uint32": descriptorpb.FieldDescriptorProto_TYPE_UINT32,
	"enum": descriptorpb.FieldDescriptorProto_TYPE_ENUM, "sfixed32": descriptorpb.FieldDescriptorProto_TYPE_SFIXED32,
	"sfixed64": descriptorpb.FieldDescriptorProto_TYPE_SFIXED64, "sint32": descriptorpb.FieldDescriptorProto_TYPE_SINT32,
	"sint64": descriptorpb.FieldDescriptorProto_TYPE_SINT64,
}

// ScalarKinds lists every scalar kind name the harness knows.
var ScalarKinds = []string{"double", "float", "int32", "int64", "uint32", "uint64", "sint32", "sint64",
	"fixed32", "fixed64", "sfixed32", "sfixed64", "bool", "string", "bytes"}

// well-known files the harness can reference by full message name.
var wktFiles = map[string]protoreflect.FileDescriptor{
	"google/protobuf/timestamp.proto":  timestamppb.File_google_protobuf_timestamp_proto,
	"google/protobuf/duration.proto":   durationpb.File_google_protobuf_duration_proto,
	"google/protobuf/empty.proto":      emptypb.File_google_protobuf_empty_proto,
	"google/protobuf/wrappers.proto":   wrapperspb.File_google_protobuf_wrappers_proto,
	"google/protobuf/struct.proto":     structpb.File_google_protobuf_struct_proto,
	"google/protobuf/any.proto":        anypb.File_google_protobuf_any_proto,
	"google/protobuf/descriptor.proto": descriptorpb.File_google_protobuf_descriptor_proto,
}

func wktFileFor(fullName string) string {
	switch {
	case fullName == "google.protobuf.Timestamp":
		return "google/protobuf/timestamp.proto"
	case fullName == "google.protobuf.Duration":
		return "google/protobuf/duration.proto"
	case fullName == "google.protobuf.Empty":
		return "google/protobuf/empty.proto"
	case fullName == "google.protobuf.Any":
		return "google/protobuf/any.proto"
	case fullName == "google.protobuf.Struct" || fullName == "google.protobuf.Value" || fullName == "google.protobuf.ListValue":
		return "google/protobuf/struct.proto"
	case strings.HasPrefix(fullName, "google.protobuf.") && strings.HasSuffix(fullName, "Value"):
		return "google/protobuf/wrappers.proto"
	}
	return ""
}

const (
	annFile = "proto/sebuf/http/annotations.proto"
	hdrFile = "proto/sebuf/http/headers.proto"
	valFile = "buf/validate/validate.proto"
)

// Built is the concrete form of a schema.
type Built struct {
	Schema *Schema
	Protos []*descriptorpb.FileDescriptorProto // dependency order: deps first, then the abstract files in order
	User   []*descriptorpb.FileDescriptorProto // the abstract files only
	Files  *protoregistry.Files
}

// Build concretises the schema. An error means the harness could not express the schema as a valid
// descriptor set (a harness error, never a finding).
func Build(s *Schema) (*Built, error) {
	s.Normalize()
	ix := s.Index()
	b := &Built{Schema: s}
	needed := map[string]bool{}
	var user []*descriptorpb.FileDescriptorProto
	for _, f := range s.Files {
		fd, deps, err := buildFile(s, ix, f)
		if err != nil {
			return nil, err
		}
		for _, d := range deps {
			needed[d] = true
		}
		user = append(user, fd)
	}
	// dependency closure of support files
	var order []*descriptorpb.FileDescriptorProto
	seen := map[string]bool{}
	var add func(fd protoreflect.FileDescriptor)
	add = func(fd protoreflect.FileDescriptor) {
		if seen[fd.Path()] {
			return
		}
		seen[fd.Path()] = true
		imps := fd.Imports()
		for i := 0; i < imps.Len(); i++ {
			add(imps.Get(i).FileDescriptor)
		}
		order = append(order, protodesc.ToFileDescriptorProto(fd))
	}
	for _, n := range SortedKeys(needed) {
		switch n {
		case annFile:
			add(sebufhttp.File_proto_sebuf_http_annotations_proto)
		case hdrFile:
			add(sebufhttp.File_proto_sebuf_http_headers_proto)
		case valFile:
			add(validate.File_buf_validate_validate_proto)
		default:
			if fd, ok := wktFiles[n]; ok {
				add(fd)
			}
		}
	}
	b.Protos = append(order, user...)
	b.User = user
	files, err := protodesc.NewFiles(&descriptorpb.FileDescriptorSet{File: b.Protos})
	if err != nil {
		return nil, fmt.Errorf("descriptor set invalid: %w", err)
	}
	b.Files = files
	return b, nil
}

func buildFile(s *Schema, ix *MsgIndex, f *File) (*descriptorpb.FileDescriptorProto, []string, error) {
	fd := &descriptorpb.FileDescriptorProto{
		Name:   proto.String(f.Name),
		Syntax: proto.String("proto3"),
	}
	if f.Pkg != "" {
		fd.Package = proto.String(f.Pkg)
	}
	if f.GoPkg != "" {
		fd.Options = &descriptorpb.FileOptions{GoPackage: proto.String(f.GoPkg)}
	}
	deps := map[string]bool{}
	for _, d := range f.Deps {
		deps[d] = true
	}
	ctx := &fileCtx{s: s, ix: ix, f: f, deps: deps}
	for _, e := range f.Enums {
		fd.EnumType = append(fd.EnumType, ctx.buildEnum(e))
	}
	for _, m := range f.Messages {
		md, err := ctx.buildMessage(f.Pkg, m)
		if err != nil {
			return nil, nil, err
		}
		fd.MessageType = append(fd.MessageType, md)
	}
	for _, sv := range f.Services {
		sd := &descriptorpb.ServiceDescriptorProto{Name: proto.String(sv.Name)}
		var so *descriptorpb.ServiceOptions
		if sv.HasBase {
			so = &descriptorpb.ServiceOptions{}
			proto.SetExtension(so, sebufhttp.E_ServiceConfig, &sebufhttp.ServiceConfig{BasePath: sv.BasePath})
			deps[annFile] = true
		}
		if len(sv.Headers) > 0 {
			if so == nil {
				so = &descriptorpb.ServiceOptions{}
			}
			proto.SetExtension(so, sebufhttp.E_ServiceHeaders, &sebufhttp.ServiceHeaders{RequiredHeaders: hdrs(sv.Headers)})
			deps[hdrFile] = true
		}
		sd.Options = so
		for _, m := range sv.Methods {
			ctx.noteRef(m.In)
			ctx.noteRef(m.Out)
			md := &descriptorpb.MethodDescriptorProto{
				Name:       proto.String(m.Name),
				InputType:  proto.String("." + m.In),
				OutputType: proto.String("." + m.Out),
			}
			var mo *descriptorpb.MethodOptions
			if m.HasCfg {
				mo = &descriptorpb.MethodOptions{}
				cfg := &sebufhttp.HttpConfig{Path: m.Path}
				switch m.Verb {
				case "GET":
					cfg.Method = sebufhttp.HttpMethod_HTTP_METHOD_GET
				case "POST":
					cfg.Method = sebufhttp.HttpMethod_HTTP_METHOD_POST
				case "PUT":
					cfg.Method = sebufhttp.HttpMethod_HTTP_METHOD_PUT
				case "DELETE":
					cfg.Method = sebufhttp.HttpMethod_HTTP_METHOD_DELETE
				case "PATCH":
					cfg.Method = sebufhttp.HttpMethod_HTTP_METHOD_PATCH
				}
				proto.SetExtension(mo, sebufhttp.E_Config, cfg)
				deps[annFile] = true
			}
			if len(m.Headers) > 0 {
				if mo == nil {
					mo = &descriptorpb.MethodOptions{}
				}
				proto.SetExtension(mo, sebufhttp.E_MethodHeaders, &sebufhttp.MethodHeaders{RequiredHeaders: hdrs(m.Headers)})
				deps[hdrFile] = true
			}
			md.Options = mo
			sd.Method = append(sd.Method, md)
		}
		fd.Service = append(fd.Service, sd)
	}
	// dependency list: abstract deps in declared order first, then support files sorted
	var depList []string
	seen := map[string]bool{}
	for _, d := range f.Deps {
		if !seen[d] {
			depList = append(depList, d)
			seen[d] = true
		}
	}
	var support []string
	for _, d := range SortedKeys(deps) {
		if !seen[d] && d != f.Name {
			depList = append(depList, d)
			seen[d] = true
			if s.FileByName(d) == nil {
				support = append(support, d)
			}
		}
	}
	fd.Dependency = depList
	return fd, support, nil
}

func hdrs(hs []*Header) []*sebufhttp.Header {
	var out []*sebufhttp.Header
	for _, h := range hs {
		out = append(out, &sebufhttp.Header{Name: h.Name, Type: h.Type, Format: h.Format, Required: h.Required, Example: h.Example})
	}
	return out
}

type fileCtx struct {
	s    *Schema
	ix   *MsgIndex
	f    *File
	deps map[string]bool
}

// noteRef records the file dependency needed to reference the named type.
func (c *fileCtx) noteRef(full string) {
	if w := wktFileFor(full); w != "" {
		c.deps[w] = true
		return
	}
	if f, ok := c.ix.MsgFile[full]; ok && f != c.f {
		c.deps[f.Name] = true
	}
	if f, ok := c.ix.EnumFile[full]; ok && f != c.f {
		c.deps[f.Name] = true
	}
}

func (c *fileCtx) buildEnum(e *Enum) *descriptorpb.EnumDescriptorProto {
	ed := &descriptorpb.EnumDescriptorProto{Name: proto.String(e.Name)}
	for _, v := range e.Values {
		vd := &descriptorpb.EnumValueDescriptorProto{Name: proto.String(v.Name), Number: proto.Int32(v.Num)}
		if v.Custom != "" {
			vo := &descriptorpb.EnumValueOptions{}
			proto.SetExtension(vo, sebufhttp.E_EnumValue, v.Custom)
			vd.Options = vo
			c.deps[annFile] = true
		}
		ed.Value = append(ed.Value, vd)
	}
	return ed
}

// JSONName is protoc's default lowerCamel json_name.
func JSONName(s string) string {
	var b []byte
	up := false
	for i := 0; i < len(s); i++ {
		ch := s[i]
		if ch == '_' {
			up = true
			continue
		}
		if up && ch >= 'a' && ch <= 'z' {
			ch -= 'a' - 'A'
		}
		up = false
		b = append(b, ch)
	}
	return string(b)
}

func camelEntry(s string) string {
	// protoc: map entry name is CamelCase(field name) + "Entry"
	var b []byte
	up := true
	for i := 0; i < len(s); i++ {
		ch := s[i]
		if ch == '_' {
			up = true
			continue
		}
		if up && ch >= 'a' && ch <= 'z' {
			ch -= 'a' - 'A'
		}
		up = false
		b = append(b, ch)
	}
	return string(b) + "Entry"
}

func (c *fileCtx) buildMessage(prefix string, m *Message) (*descriptorpb.DescriptorProto, error) {
	full := join(prefix, m.Name)
	md := &descriptorpb.DescriptorProto{Name: proto.String(m.Name)}
	oneofIdx := map[string]int32{}
	for i, o := range m.Oneofs {
		od := &descriptorpb.OneofDescriptorProto{Name: proto.String(o.Name)}
		if o.HasCfg {
			oo := &descriptorpb.OneofOptions{}
			proto.SetExtension(oo, sebufhttp.E_OneofConfig, &sebufhttp.OneofConfig{Discriminator: o.Discriminator, Flatten: o.Flatten})
			od.Options = oo
			c.deps[annFile] = true
		}
		md.OneofDecl = append(md.OneofDecl, od)
		oneofIdx[o.Name] = int32(i)
	}
	for _, e := range m.Enums {
		md.EnumType = append(md.EnumType, c.buildEnum(e))
	}
	for _, n := range m.Nested {
		nd, err := c.buildMessage(full, n)
		if err != nil {
			return nil, err
		}
		md.NestedType = append(md.NestedType, nd)
	}
	var synthetic []*descriptorpb.FieldDescriptorProto
	for _, f := range m.Fields {
		fd := &descriptorpb.FieldDescriptorProto{
			Name:     proto.String(f.Name),
			Number:   proto.Int32(f.Num),
			JsonName: proto.String(JSONName(f.Name)),
			Label:    descriptorpb.FieldDescriptorProto_LABEL_OPTIONAL.Enum(),
		}
		t, ok := kindMap[f.Kind]
		if !ok {
			return nil, fmt.Errorf("field %s.%s: unknown kind %q", full, f.Name, f.Kind)
		}
		setType := func(fd *descriptorpb.FieldDescriptorProto, kind, ref string) {
			fd.Type = kindMap[kind].Enum()
			if kind == "message" || kind == "enum" {
				fd.TypeName = proto.String("." + ref)
				c.noteRef(ref)
			}
		}
		_ = t
		switch f.Card {
		case "one":
			setType(fd, f.Kind, f.Ref)
			if f.Oneof != "" {
				idx, ok := oneofIdx[f.Oneof]
				if !ok {
					return nil, fmt.Errorf("field %s.%s: unknown oneof %q", full, f.Name, f.Oneof)
				}
				fd.OneofIndex = proto.Int32(idx)
			}
		case "opt":
			setType(fd, f.Kind, f.Ref)
			fd.Proto3Optional = proto.Bool(true)
			synthetic = append(synthetic, fd)
		case "rep":
			setType(fd, f.Kind, f.Ref)
			fd.Label = descriptorpb.FieldDescriptorProto_LABEL_REPEATED.Enum()
		case "map":
			entry := camelEntry(f.Name)
			kfd := &descriptorpb.FieldDescriptorProto{Name: proto.String("key"), Number: proto.Int32(1), JsonName: proto.String("key"),
				Label: descriptorpb.FieldDescriptorProto_LABEL_OPTIONAL.Enum(), Type: kindMap[f.KeyKind].Enum()}
			vfd := &descriptorpb.FieldDescriptorProto{Name: proto.String("value"), Number: proto.Int32(2), JsonName: proto.String("value"),
				Label: descriptorpb.FieldDescriptorProto_LABEL_OPTIONAL.Enum()}
			setType(vfd, f.Kind, f.Ref)
			md.NestedType = append(md.NestedType, &descriptorpb.DescriptorProto{
				Name: proto.String(entry), Field: []*descriptorpb.FieldDescriptorProto{kfd, vfd},
				Options: &descriptorpb.MessageOptions{MapEntry: proto.Bool(true)},
			})
			fd.Label = descriptorpb.FieldDescriptorProto_LABEL_REPEATED.Enum()
			fd.Type = descriptorpb.FieldDescriptorProto_TYPE_MESSAGE.Enum()
			fd.TypeName = proto.String("." + full + "." + entry)
		default:
			return nil, fmt.Errorf("field %s.%s: unknown cardinality %q", full, f.Name, f.Card)
		}
		fo, err := c.fieldOptions(f)
		if err != nil {
			return nil, fmt.Errorf("field %s.%s: %w", full, f.Name, err)
		}
		fd.Options = fo
		md.Field = append(md.Field, fd)
	}
	for _, fd := range synthetic {
		fd.OneofIndex = proto.Int32(int32(len(md.OneofDecl)))
		md.OneofDecl = append(md.OneofDecl, &descriptorpb.OneofDescriptorProto{Name: proto.String("_" + fd.GetName())})
	}
	return md, nil
}

func (c *fileCtx) fieldOptions(f *Field) (*descriptorpb.FieldOptions, error) {
	var fo *descriptorpb.FieldOptions
	opt := func() *descriptorpb.FieldOptions {
		if fo == nil {
			fo = &descriptorpb.FieldOptions{}
		}
		return fo
	}
	a := f.Ann
	if a.Query {
		proto.SetExtension(opt(), sebufhttp.E_Query, &sebufhttp.QueryConfig{Name: a.QueryName, Required: a.QueryReq})
	}
	if a.Unwrap {
		proto.SetExtension(opt(), sebufhttp.E_Unwrap, true)
	}
	switch a.Int64 {
	case "STRING":
		proto.SetExtension(opt(), sebufhttp.E_Int64Encoding, sebufhttp.Int64Encoding_INT64_ENCODING_STRING)
	case "NUMBER":
		proto.SetExtension(opt(), sebufhttp.E_Int64Encoding, sebufhttp.Int64Encoding_INT64_ENCODING_NUMBER)
	}
	switch a.EnumEnc {
	case "STRING":
		proto.SetExtension(opt(), sebufhttp.E_EnumEncoding, sebufhttp.EnumEncoding_ENUM_ENCODING_STRING)
	case "NUMBER":
		proto.SetExtension(opt(), sebufhttp.E_EnumEncoding, sebufhttp.EnumEncoding_ENUM_ENCODING_NUMBER)
	}
	if a.Nullable {
		proto.SetExtension(opt(), sebufhttp.E_Nullable, true)
	}
	switch a.Empty {
	case "PRESERVE":
		proto.SetExtension(opt(), sebufhttp.E_EmptyBehavior, sebufhttp.EmptyBehavior_EMPTY_BEHAVIOR_PRESERVE)
	case "NULL":
		proto.SetExtension(opt(), sebufhttp.E_EmptyBehavior, sebufhttp.EmptyBehavior_EMPTY_BEHAVIOR_NULL)
	case "OMIT":
		proto.SetExtension(opt(), sebufhttp.E_EmptyBehavior, sebufhttp.EmptyBehavior_EMPTY_BEHAVIOR_OMIT)
	}
	switch a.Ts {
	case "RFC3339":
		proto.SetExtension(opt(), sebufhttp.E_TimestampFormat, sebufhttp.TimestampFormat_TIMESTAMP_FORMAT_RFC3339)
	case "UNIX_SECONDS":
		proto.SetExtension(opt(), sebufhttp.E_TimestampFormat, sebufhttp.TimestampFormat_TIMESTAMP_FORMAT_UNIX_SECONDS)
	case "UNIX_MILLIS":
		proto.SetExtension(opt(), sebufhttp.E_TimestampFormat, sebufhttp.TimestampFormat_TIMESTAMP_FORMAT_UNIX_MILLIS)
	case "DATE":
		proto.SetExtension(opt(), sebufhttp.E_TimestampFormat, sebufhttp.TimestampFormat_TIMESTAMP_FORMAT_DATE)
	}
	switch a.Bytes {
	case "BASE64":
		proto.SetExtension(opt(), sebufhttp.E_BytesEncoding, sebufhttp.BytesEncoding_BYTES_ENCODING_BASE64)
	case "BASE64_RAW":
		proto.SetExtension(opt(), sebufhttp.E_BytesEncoding, sebufhttp.BytesEncoding_BYTES_ENCODING_BASE64_RAW)
	case "BASE64URL":
		proto.SetExtension(opt(), sebufhttp.E_BytesEncoding, sebufhttp.BytesEncoding_BYTES_ENCODING_BASE64URL)
	case "BASE64URL_RAW":
		proto.SetExtension(opt(), sebufhttp.E_BytesEncoding, sebufhttp.BytesEncoding_BYTES_ENCODING_BASE64URL_RAW)
	case "HEX":
		proto.SetExtension(opt(), sebufhttp.E_BytesEncoding, sebufhttp.BytesEncoding_BYTES_ENCODING_HEX)
	}
	if a.Flatten {
		proto.SetExtension(opt(), sebufhttp.E_Flatten, true)
	}
	if a.Prefix != "" {
		proto.SetExtension(opt(), sebufhttp.E_FlattenPrefix, a.Prefix)
	}
	if a.OneofValue != "" {
		proto.SetExtension(opt(), sebufhttp.E_OneofValue, a.OneofValue)
	}
	if len(a.Examples) > 0 {
		proto.SetExtension(opt(), sebufhttp.E_FieldExamples, &sebufhttp.FieldExamples{Values: a.Examples})
	}
	if a.Explicit {
		int64Kind := map[string]bool{"int64": true, "uint64": true, "sint64": true, "fixed64": true, "sfixed64": true}
		valKind := f.Kind
		singularMsg := f.Kind == "message" && (f.Card == "one" || f.Card == "opt")
		if !a.Nullable && f.Card == "opt" && f.Kind != "message" {
			proto.SetExtension(opt(), sebufhttp.E_Nullable, false)
		}
		if !a.Unwrap && (f.Card == "rep" || f.Card == "map") {
			proto.SetExtension(opt(), sebufhttp.E_Unwrap, false)
		}
		if a.Int64 == "" && int64Kind[valKind] {
			proto.SetExtension(opt(), sebufhttp.E_Int64Encoding, sebufhttp.Int64Encoding_INT64_ENCODING_UNSPECIFIED)
		}
		if a.EnumEnc == "" && f.Kind == "enum" {
			proto.SetExtension(opt(), sebufhttp.E_EnumEncoding, sebufhttp.EnumEncoding_ENUM_ENCODING_UNSPECIFIED)
		}
		if a.Empty == "" && singularMsg && !strings.HasPrefix(f.Ref, "google.protobuf.") {
			proto.SetExtension(opt(), sebufhttp.E_EmptyBehavior, sebufhttp.EmptyBehavior_EMPTY_BEHAVIOR_UNSPECIFIED)
		}
		if a.Ts == "" && f.Kind == "message" && f.Ref == "google.protobuf.Timestamp" && f.Card != "map" {
			proto.SetExtension(opt(), sebufhttp.E_TimestampFormat, sebufhttp.TimestampFormat_TIMESTAMP_FORMAT_UNSPECIFIED)
		}
		if a.Bytes == "" && f.Kind == "bytes" && f.Card != "map" {
			proto.SetExtension(opt(), sebufhttp.E_BytesEncoding, sebufhttp.BytesEncoding_BYTES_ENCODING_UNSPECIFIED)
		}
		if !a.Flatten && singularMsg && !strings.HasPrefix(f.Ref, "google.protobuf.") {
			proto.SetExtension(opt(), sebufhttp.E_Flatten, false)
		}
	}
	if fo != nil {
		c.deps[annFile] = true
	}
	if !f.Rules.IsZero() {
		fr, err := fieldRules(f)
		if err != nil {
			return nil, err
		}
		proto.SetExtension(opt(), validate.E_Field, fr)
		c.deps[valFile] = true
	}
	return fo, nil
}

func atoi(s string) (int64, error)   { return strconv.ParseInt(s, 10, 64) }
func atou(s string) (uint64, error)  { return strconv.ParseUint(s, 10, 64) }
func atof(s string) (float64, error) { return strconv.ParseFloat(s, 64) }

// fieldRules builds buf.validate.FieldRules for the supported subset.
func fieldRules(f *Field) (*validate.FieldRules, error) {
	r := f.Rules
	fr := &validate.FieldRules{}
	if r.Required {
		fr.Required = proto.Bool(true)
	}
	if f.Card == "rep" {
		rr := &validate.RepeatedRules{}
		set := false
		if r.MinItems >= 0 {
			rr.MinItems = proto.Uint64(uint64(r.MinItems))
			set = true
		}
		if r.MaxItems >= 0 {
			rr.MaxItems = proto.Uint64(uint64(r.MaxItems))
			set = true
		}
		if r.Unique {
			rr.Unique = proto.Bool(true)
			set = true
		}
		if set {
			fr.Type = &validate.FieldRules_Repeated{Repeated: rr}
		}
		return fr, nil
	}
	if f.Card == "map" {
		mr := &validate.MapRules{}
		set := false
		if r.MinPairs >= 0 {
			mr.MinPairs = proto.Uint64(uint64(r.MinPairs))
			set = true
		}
		if r.MaxPairs >= 0 {
			mr.MaxPairs = proto.Uint64(uint64(r.MaxPairs))
			set = true
		}
		if set {
			fr.Type = &validate.FieldRules_Map{Map: mr}
		}
		return fr, nil
	}
	hasNum := r.Gt != "" || r.Gte != "" || r.Lt != "" || r.Lte != "" || r.HasConst || len(r.In) > 0
	switch f.Kind {
	case "string":
		sr := &validate.StringRules{}
		set := false
		if r.MinLen >= 0 {
			sr.MinLen = proto.Uint64(uint64(r.MinLen))
			set = true
		}
		if r.MaxLen >= 0 {
			sr.MaxLen = proto.Uint64(uint64(r.MaxLen))
			set = true
		}
		if r.Pattern != "" {
			sr.Pattern = proto.String(r.Pattern)
			set = true
		}
		if r.HasConst {
			sr.Const = proto.String(r.Const)
			set = true
		}
		if len(r.In) > 0 {
			sr.In = r.In
			set = true
		}
		switch r.Format {
		case "email":
			sr.WellKnown = &validate.StringRules_Email{Email: true}
			set = true
		case "uuid":
			sr.WellKnown = &validate.StringRules_Uuid{Uuid: true}
			set = true
		case "uri":
			sr.WellKnown = &validate.StringRules_Uri{Uri: true}
			set = true
		case "hostname":
			sr.WellKnown = &validate.StringRules_Hostname{Hostname: true}
			set = true
		case "ipv4":
			sr.WellKnown = &validate.StringRules_Ipv4{Ipv4: true}
			set = true
		case "ipv6":
			sr.WellKnown = &validate.StringRules_Ipv6{Ipv6: true}
			set = true
		case "ip":
			sr.WellKnown = &validate.StringRules_Ip{Ip: true}
			set = true
		}
		if set {
			fr.Type = &validate.FieldRules_String_{String_: sr}
		}
	case "bytes":
		// (buf.validate.field).bytes: lengths count BYTES, whatever the JSON rendering
		br := &validate.BytesRules{}
		set := false
		if r.MinLen >= 0 {
			br.MinLen = proto.Uint64(uint64(r.MinLen))
			set = true
		}
		if r.MaxLen >= 0 {
			br.MaxLen = proto.Uint64(uint64(r.MaxLen))
			set = true
		}
		if set {
			fr.Type = &validate.FieldRules_Bytes{Bytes: br}
		}
	case "int32", "sint32", "sfixed32", "int64", "sint64", "sfixed64", "uint32", "fixed32", "uint64", "fixed64", "float", "double":
		if !hasNum {
			return fr, nil
		}
		if err := numericRules(fr, f.Kind, r); err != nil {
			return nil, err
		}
	}
	return fr, nil
}

// numericRules fills the kind-specific numeric rule message through reflection so that every
// numeric kind is handled by one code path.
func numericRules(fr *validate.FieldRules, kind string, r Rules) error {
	frm := fr.ProtoReflect()
	fdesc := frm.Descriptor().Fields().ByName(protoreflect.Name(kind))
	if fdesc == nil {
		return fmt.Errorf("no rules for kind %s", kind)
	}
	rm := frm.Mutable(fdesc).Message()
	rd := rm.Descriptor()
	conv := func(fd protoreflect.FieldDescriptor, s string) (protoreflect.Value, error) {
		switch fd.Kind() {
		case protoreflect.Int32Kind, protoreflect.Sint32Kind, protoreflect.Sfixed32Kind:
			v, err := atoi(s)
			if err != nil || v > math.MaxInt32 || v < math.MinInt32 {
				return protoreflect.Value{}, fmt.Errorf("bad int32 bound %q", s)
			}
			return protoreflect.ValueOfInt32(int32(v)), nil
		case protoreflect.Int64Kind, protoreflect.Sint64Kind, protoreflect.Sfixed64Kind:
			v, err := atoi(s)
			if err != nil {
				return protoreflect.Value{}, err
			}
			return protoreflect.ValueOfInt64(v), nil
		case protoreflect.Uint32Kind, protoreflect.Fixed32Kind:
			v, err := atou(s)
			if err != nil || v > math.MaxUint32 {
				return protoreflect.Value{}, fmt.Errorf("bad uint32 bound %q", s)
			}
			return protoreflect.ValueOfUint32(uint32(v)), nil
		case protoreflect.Uint64Kind, protoreflect.Fixed64Kind:
			v, err := atou(s)
			if err != nil {
				return protoreflect.Value{}, err
			}
			return protoreflect.ValueOfUint64(v), nil
		case protoreflect.FloatKind:
			v, err := atof(s)
			if err != nil {
				return protoreflect.Value{}, err
			}
			return protoreflect.ValueOfFloat32(float32(v)), nil
		case protoreflect.DoubleKind:
			v, err := atof(s)
			if err != nil {
				return protoreflect.Value{}, err
			}
			return protoreflect.ValueOfFloat64(v), nil
		}
		return protoreflect.Value{}, fmt.Errorf("unsupported rule kind %v", fd.Kind())
	}
	setOne := func(name, s string) error {
		if s == "" {
			return nil
		}
		fd := rd.Fields().ByName(protoreflect.Name(name))
		v, err := conv(fd, s)
		if err != nil {
			return err
		}
		rm.Set(fd, v)
		return nil
	}
	for _, p := range [][2]string{{"gt", r.Gt}, {"gte", r.Gte}, {"lt", r.Lt}, {"lte", r.Lte}} {
		if err := setOne(p[0], p[1]); err != nil {
			return err
		}
	}
	if r.HasConst {
		if err := setOne("const", r.Const); err != nil {
			return err
		}
	}
	if len(r.In) > 0 {
		fd := rd.Fields().ByName("in")
		l := rm.Mutable(fd).List()
		for _, s := range r.In {
			v, err := conv(fd, s)
			if err != nil {
				return err
			}
			l.Append(v)
		}
	}
	return nil
}

// Request builds a CodeGeneratorRequest. toGenerate lists file names in the order given; if nil,
// every abstract file with Generate=true in schema order. extra protos (unrelated files) may be
// appended via extraFiles (already concrete).
func (b *Built) Request(param string, toGenerate []string) *pluginpb.CodeGeneratorRequest {
	if toGenerate == nil {
		for _, f := range b.Schema.Files {
			if f.Generate {
				toGenerate = append(toGenerate, f.Name)
			}
		}
	}
	req := &pluginpb.CodeGeneratorRequest{
		FileToGenerate:  toGenerate,
		ProtoFile:       b.Protos,
		CompilerVersion: &pluginpb.Version{Major: proto.Int32(5), Minor: proto.Int32(29), Patch: proto.Int32(3)},
	}
	if param != "" {
		req.Parameter = proto.String(param)
	}
	return req
}
