// Package abs holds the abstract schema (the data the TLA+ specification suite talks about,
// DESIGN §3.1) and its concretisation into FileDescriptorProtos / CodeGeneratorRequests.
package abs

import (
	"fmt"
	"sort"
	"strings"
)

// Schema is a whole code-generation request, abstractly.
type Schema struct {
	Files []*File `json:"files"`
}

type File struct {
	Name     string     `json:"name"`  // e.g. "case1/a.proto"
	Pkg      string     `json:"pkg"`   // proto package, may be ""
	GoPkg    string     `json:"goPkg"` // go_package option ("import/path;name"), may be ""
	Generate bool       `json:"generate"`
	Deps     []string   `json:"deps"` // names of other abstract files (WKT / sebuf deps are added automatically)
	Services []*Service `json:"services"`
	Messages []*Message `json:"messages"`
	Enums    []*Enum    `json:"enums"`
}

// Seg is one path segment: a literal or a {variable}.
type Seg struct {
	Var  bool   `json:"var"`
	Text string `json:"text"`
}

// PathParts is the parsed form of a path string (TLA+ does no string surgery).
type PathParts struct {
	Lead  bool  `json:"lead"`  // starts with "/"
	Trail bool  `json:"trail"` // ends with "/" (and is longer than "/")
	Segs  []Seg `json:"segs"`
}

// ParsePath splits a path template into segments.
func ParsePath(p string) PathParts {
	pp := PathParts{Segs: []Seg{}}
	if p == "" {
		return pp
	}
	pp.Lead = strings.HasPrefix(p, "/")
	pp.Trail = len(p) > 1 && strings.HasSuffix(p, "/")
	for _, part := range strings.Split(strings.Trim(p, "/"), "/") {
		if part == "" {
			continue
		}
		if strings.HasPrefix(part, "{") && strings.HasSuffix(part, "}") {
			pp.Segs = append(pp.Segs, Seg{Var: true, Text: part[1 : len(part)-1]})
		} else {
			pp.Segs = append(pp.Segs, Seg{Text: part})
		}
	}
	return pp
}

type Service struct {
	Name     string    `json:"name"`
	HasBase  bool      `json:"hasBase"`
	BasePath string    `json:"basePath"`
	BaseParts PathParts `json:"baseParts"`
	Headers  []*Header `json:"headers"`
	Methods  []*Method `json:"methods"`
}

type Method struct {
	Name    string    `json:"name"`
	In      string    `json:"in"`  // full message name
	Out     string    `json:"out"` // full message name
	HasCfg  bool      `json:"hasCfg"`
	Path    string    `json:"path"`
	Parts   PathParts `json:"parts"`
	Segs    []Seg     `json:"segs"` // = Parts.Segs (what the rule operators read)
	Verb    string    `json:"verb"` // "", GET, POST, PUT, DELETE, PATCH
	Headers []*Header `json:"headers"`
}

type Header struct {
	Name     string `json:"name"`
	Type     string `json:"type"`
	Format   string `json:"format"`
	Required bool   `json:"required"`
	Example  string `json:"example"`
}

type Enum struct {
	Name   string       `json:"name"`
	Values []*EnumValue `json:"values"`
}

type EnumValue struct {
	Name   string `json:"name"`
	Num    int32  `json:"num"`
	Custom string `json:"custom"` // enum_value annotation, "" = none
}

type Oneof struct {
	Name          string `json:"name"`
	HasCfg        bool   `json:"hasCfg"`
	Discriminator string `json:"discriminator"`
	Flatten       bool   `json:"flatten"`
}

type Message struct {
	Name   string     `json:"name"`
	Full   string     `json:"full"` // full proto name (computed by Normalize when empty)
	Fields []*Field   `json:"fields"`
	Oneofs []*Oneof   `json:"oneofs"`
	Nested []*Message `json:"nested"`
	Enums  []*Enum    `json:"enums"`
}

// Field: Card is one of "one" (implicit presence), "opt" (proto3 optional), "rep", "map".
type Field struct {
	Name    string `json:"name"`
	JSON    string `json:"json"` // protoc's lowerCamel json_name (computed by Normalize when empty)
	Num     int32  `json:"num"`
	Kind    string `json:"kind"` // scalar kind name, "enum" or "message"
	Card    string `json:"card"`
	Ref     string `json:"ref"`     // full name of message / enum for kind message / enum
	KeyKind string `json:"keyKind"` // for maps
	Oneof   string `json:"oneof"`   // name of the containing oneof, "" = none
	Ann     Ann    `json:"ann"`
	Rules   Rules  `json:"rules"`
}

// Ann is total: every key always present (TLC records have no optional fields).
type Ann struct {
	Query      bool     `json:"query"`
	QueryName  string   `json:"queryName"`
	QueryReq   bool     `json:"queryReq"`
	Unwrap     bool     `json:"unwrap"`
	Int64      string   `json:"int64"`    // "", STRING, NUMBER
	EnumEnc    string   `json:"enumEnc"`  // "", STRING, NUMBER
	Nullable   bool     `json:"nullable"` //
	Empty      string   `json:"empty"`    // "", PRESERVE, NULL, OMIT
	Ts         string   `json:"ts"`       // "", RFC3339, UNIX_SECONDS, UNIX_MILLIS, DATE
	Bytes      string   `json:"bytes"`    // "", BASE64, BASE64_RAW, BASE64URL, BASE64URL_RAW, HEX
	Flatten    bool     `json:"flatten"`
	Prefix     string   `json:"prefix"`
	OneofValue string   `json:"oneofValue"`
	Examples   []string `json:"examples"`
	// Explicit: every annotation that applies to the field and is not set is WRITTEN OUT with its
	// default value (nullable = false, unwrap = false, flatten = false, *_UNSPECIFIED): the same
	// definition as leaving it out
	Explicit bool `json:"explicit"`
}

// Rules is the supported subset of buf.validate field rules. Numeric bounds are decimal strings.
type Rules struct {
	Required bool     `json:"required"`
	MinLen   int64    `json:"minLen"` // -1 = unset
	MaxLen   int64    `json:"maxLen"`
	Pattern  string   `json:"pattern"`
	Format   string   `json:"format"` // email, uuid, uri, hostname, ipv4, ipv6, ip
	HasConst bool     `json:"hasConst"`
	Const    string   `json:"const"`
	In       []string `json:"in"`
	Gt       string   `json:"gt"`
	Gte      string   `json:"gte"`
	Lt       string   `json:"lt"`
	Lte      string   `json:"lte"`
	MinItems int64    `json:"minItems"`
	MaxItems int64    `json:"maxItems"`
	Unique   bool     `json:"unique"`
	MinPairs int64    `json:"minPairs"`
	MaxPairs int64    `json:"maxPairs"`
}

// NoRules returns the "unset" rules value.
func NoRules() Rules {
	return Rules{MinLen: -1, MaxLen: -1, MinItems: -1, MaxItems: -1, MinPairs: -1, MaxPairs: -1}
}

func (r Rules) IsZero() bool {
	return !r.Required && r.MinLen < 0 && r.MaxLen < 0 && r.Pattern == "" && r.Format == "" && !r.HasConst &&
		len(r.In) == 0 && r.Gt == "" && r.Gte == "" && r.Lt == "" && r.Lte == "" && r.MinItems < 0 && r.MaxItems < 0 &&
		!r.Unique && r.MinPairs < 0 && r.MaxPairs < 0
}

// Normalize makes every slice non-nil so that JSON never contains null (TLC's Json module rejects it).
func (s *Schema) Normalize() {
	if s.Files == nil {
		s.Files = []*File{}
	}
	for _, f := range s.Files {
		if f.Deps == nil {
			f.Deps = []string{}
		}
		if f.Services == nil {
			f.Services = []*Service{}
		}
		if f.Messages == nil {
			f.Messages = []*Message{}
		}
		if f.Enums == nil {
			f.Enums = []*Enum{}
		}
		for _, sv := range f.Services {
			if sv.Headers == nil {
				sv.Headers = []*Header{}
			}
			if sv.Methods == nil {
				sv.Methods = []*Method{}
			}
			sv.BaseParts = ParsePath(sv.BasePath)
			for _, m := range sv.Methods {
				if m.Headers == nil {
					m.Headers = []*Header{}
				}
				m.Parts = ParsePath(m.Path)
				m.Segs = m.Parts.Segs
			}
		}
		for _, m := range f.Messages {
			m.normalize(f.Pkg)
		}
		for _, e := range f.Enums {
			if e.Values == nil {
				e.Values = []*EnumValue{}
			}
		}
	}
}

func (m *Message) normalize(prefix string) {
	m.Full = join(prefix, m.Name)
	if m.Fields == nil {
		m.Fields = []*Field{}
	}
	if m.Oneofs == nil {
		m.Oneofs = []*Oneof{}
	}
	if m.Nested == nil {
		m.Nested = []*Message{}
	}
	if m.Enums == nil {
		m.Enums = []*Enum{}
	}
	for _, f := range m.Fields {
		f.JSON = JSONName(f.Name)
		if f.Ann.Examples == nil {
			f.Ann.Examples = []string{}
		}
		if f.Rules.In == nil {
			f.Rules.In = []string{}
		}
		if f.Rules.MinLen == 0 && f.Rules.MaxLen == 0 && f.Rules.MinItems == 0 && f.Rules.MaxItems == 0 &&
			f.Rules.MinPairs == 0 && f.Rules.MaxPairs == 0 && !f.Rules.Required && f.Rules.Pattern == "" &&
			f.Rules.Gt == "" && f.Rules.Gte == "" && f.Rules.Lt == "" && f.Rules.Lte == "" && !f.Rules.HasConst &&
			len(f.Rules.In) == 0 && f.Rules.Format == "" && !f.Rules.Unique {
			in := f.Rules.In
			f.Rules = NoRules()
			f.Rules.In = in
		}
	}
	for _, n := range m.Nested {
		n.normalize(m.Full)
	}
	for _, e := range m.Enums {
		if e.Values == nil {
			e.Values = []*EnumValue{}
		}
	}
}

// ---- look-ups ----------------------------------------------------------------------------------

// MsgIndex maps full message names to messages, and records the defining file.
type MsgIndex struct {
	Msgs     map[string]*Message
	MsgFile  map[string]*File
	Enums    map[string]*Enum
	EnumFile map[string]*File
}

func (s *Schema) Index() *MsgIndex {
	ix := &MsgIndex{Msgs: map[string]*Message{}, MsgFile: map[string]*File{}, Enums: map[string]*Enum{}, EnumFile: map[string]*File{}}
	for _, f := range s.Files {
		prefix := f.Pkg
		var walk func(prefix string, m *Message)
		walk = func(prefix string, m *Message) {
			fn := join(prefix, m.Name)
			ix.Msgs[fn] = m
			ix.MsgFile[fn] = f
			for _, e := range m.Enums {
				ix.Enums[join(fn, e.Name)] = e
				ix.EnumFile[join(fn, e.Name)] = f
			}
			for _, n := range m.Nested {
				walk(fn, n)
			}
		}
		for _, m := range f.Messages {
			walk(prefix, m)
		}
		for _, e := range f.Enums {
			ix.Enums[join(prefix, e.Name)] = e
			ix.EnumFile[join(prefix, e.Name)] = f
		}
	}
	return ix
}

func join(a, b string) string {
	if a == "" {
		return b
	}
	return a + "." + b
}

func (m *Message) Field(name string) *Field {
	for _, f := range m.Fields {
		if f.Name == name {
			return f
		}
	}
	return nil
}

// FileByName returns the abstract file with the given name.
func (s *Schema) FileByName(n string) *File {
	for _, f := range s.Files {
		if f.Name == n {
			return f
		}
	}
	return nil
}

// GoPackageName returns the Go package name protoc-gen-go derives for the file.
func (f *File) GoPackageName() string {
	gp := f.GoPkg
	if i := strings.Index(gp, ";"); i >= 0 {
		return gp[i+1:]
	}
	if gp != "" {
		if i := strings.LastIndex(gp, "/"); i >= 0 {
			return cleanPkg(gp[i+1:])
		}
		return cleanPkg(gp)
	}
	return cleanPkg(strings.ReplaceAll(f.Pkg, ".", "_"))
}

// GoImportPath returns the import path part of go_package.
func (f *File) GoImportPath() string {
	gp := f.GoPkg
	if i := strings.Index(gp, ";"); i >= 0 {
		return gp[:i]
	}
	return gp
}

func cleanPkg(s string) string {
	var b strings.Builder
	for _, r := range s {
		if r == '_' || (r >= 'a' && r <= 'z') || (r >= 'A' && r <= 'Z') || (r >= '0' && r <= '9') {
			b.WriteRune(r)
		} else {
			b.WriteByte('_')
		}
	}
	return b.String()
}

// SortedKeys is a small helper for deterministic iteration.
func SortedKeys[V any](m map[string]V) []string {
	ks := make([]string, 0, len(m))
	for k := range m {
		ks = append(ks, k)
	}
	sort.Strings(ks)
	return ks
}

func (f *Field) String() string { return fmt.Sprintf("%s:%s/%s", f.Name, f.Kind, f.Card) }
