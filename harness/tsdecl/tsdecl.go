// Package tsdecl reads the type declarations of an emitted TypeScript module (the subset the
// generators emit: interfaces, type aliases, string-literal unions, intersections, Record<>, arrays,
// inline object types, optional members, null unions, method signatures) into the abstract syntax
// the specification SebufTs.tla interprets.
package tsdecl

import (
	"fmt"
	"regexp"
	"strings"
)

// Type is one node; the JSON form is the TLA+ record.
//
//	prim  {t, n}            string | number | boolean | null | undefined | unknown | any | void
//	lit   {t, v}            string literal
//	ref   {t, n}            named type
//	arr   {t, e}
//	rec   {t, k, v}         Record<k, v>
//	gen   {t, n, args}      other generic (Promise<..>)
//	union {t, alts}
//	inter {t, parts}
//	obj   {t, props:[{name, opt, ty}]}
type Type struct {
	T     string  `json:"t"`
	N     string  `json:"n,omitempty"`
	V     string  `json:"v,omitempty"`
	E     *Type   `json:"e,omitempty"`
	K     *Type   `json:"k,omitempty"`
	Val   *Type   `json:"val,omitempty"`
	Args  []*Type `json:"args,omitempty"`
	Alts  []*Type `json:"alts,omitempty"`
	Parts []*Type `json:"parts,omitempty"`
	Props []*Prop `json:"props,omitempty"`
}

type Prop struct {
	Name string `json:"name"`
	Opt  bool   `json:"opt"`
	Ty   *Type  `json:"ty"`
}

// Decl is a named type of the module.
type Decl struct {
	Name string `json:"name"`
	Ty   *Type  `json:"ty"`
}

// Method is a method signature found in an interface (handler interfaces) or client class.
type Method struct {
	Owner  string `json:"owner"`
	Name   string `json:"name"`
	Req    *Type  `json:"req"`
	Result *Type  `json:"result"`
}

type Module struct {
	Decls   []*Decl
	Methods []*Method
}

type tok struct {
	k string // id | str | num | p (punctuation)
	v string
}

func lex(src string) ([]tok, error) {
	var out []tok
	i := 0
	for i < len(src) {
		ch := src[i]
		switch {
		case ch == ' ' || ch == '\t' || ch == '\n' || ch == '\r':
			i++
		case ch == '/' && i+1 < len(src) && src[i+1] == '/':
			for i < len(src) && src[i] != '\n' {
				i++
			}
		case ch == '/' && i+1 < len(src) && src[i+1] == '*':
			j := strings.Index(src[i+2:], "*/")
			if j < 0 {
				return nil, fmt.Errorf("unterminated comment")
			}
			i += j + 4
		case ch == '"' || ch == '\'' || ch == '`':
			j := i + 1
			var sb strings.Builder
			for j < len(src) && src[j] != ch {
				if src[j] == '\\' && j+1 < len(src) {
					j++
					switch src[j] {
					case 'n':
						sb.WriteByte('\n')
					case 't':
						sb.WriteByte('\t')
					default:
						sb.WriteByte(src[j])
					}
					j++
					continue
				}
				sb.WriteByte(src[j])
				j++
			}
			if j >= len(src) {
				return nil, fmt.Errorf("unterminated string")
			}
			out = append(out, tok{"str", sb.String()})
			i = j + 1
		case ch == '_' || ch == '$' || (ch >= 'a' && ch <= 'z') || (ch >= 'A' && ch <= 'Z') || ch >= 0x80:
			j := i
			for j < len(src) && (src[j] == '_' || src[j] == '$' || (src[j] >= 'a' && src[j] <= 'z') || (src[j] >= 'A' && src[j] <= 'Z') || (src[j] >= '0' && src[j] <= '9') || src[j] >= 0x80) {
				j++
			}
			out = append(out, tok{"id", src[i:j]})
			i = j
		case ch >= '0' && ch <= '9':
			j := i
			for j < len(src) && ((src[j] >= '0' && src[j] <= '9') || src[j] == '.' || src[j] == '_' || (src[j] >= 'a' && src[j] <= 'z') || (src[j] >= 'A' && src[j] <= 'Z')) {
				j++
			}
			out = append(out, tok{"num", src[i:j]})
			i = j
		default:
			if ch == '=' && i+1 < len(src) && src[i+1] == '>' {
				out = append(out, tok{"p", "=>"})
				i += 2
				continue
			}
			out = append(out, tok{"p", string(ch)})
			i++
		}
	}
	return out, nil
}

type parser struct {
	ts []tok
	i  int
}

func (p *parser) peek() tok {
	if p.i < len(p.ts) {
		return p.ts[p.i]
	}
	return tok{"eof", ""}
}
func (p *parser) next() tok { t := p.peek(); p.i++; return t }
func (p *parser) isP(v string) bool {
	t := p.peek()
	return t.k == "p" && t.v == v
}
func (p *parser) expectP(v string) error {
	if !p.isP(v) {
		return fmt.Errorf("expected %q, found %q at token %d", v, p.peek().v, p.i)
	}
	p.i++
	return nil
}

var prims = map[string]bool{"string": true, "number": true, "boolean": true, "null": true, "undefined": true, "unknown": true, "any": true, "void": true, "never": true, "bigint": true, "object": true}

// union := ['|'] inter ('|' inter)*
func (p *parser) parseType() (*Type, error) {
	if p.isP("|") {
		p.i++
	}
	first, err := p.parseInter()
	if err != nil {
		return nil, err
	}
	alts := []*Type{first}
	for p.isP("|") {
		p.i++
		t, err := p.parseInter()
		if err != nil {
			return nil, err
		}
		alts = append(alts, t)
	}
	if len(alts) == 1 {
		return first, nil
	}
	return &Type{T: "union", Alts: alts}, nil
}

func (p *parser) parseInter() (*Type, error) {
	if p.isP("&") {
		p.i++
	}
	first, err := p.parsePostfix()
	if err != nil {
		return nil, err
	}
	parts := []*Type{first}
	for p.isP("&") {
		p.i++
		t, err := p.parsePostfix()
		if err != nil {
			return nil, err
		}
		parts = append(parts, t)
	}
	if len(parts) == 1 {
		return first, nil
	}
	return &Type{T: "inter", Parts: parts}, nil
}

func (p *parser) parsePostfix() (*Type, error) {
	t, err := p.parsePrimary()
	if err != nil {
		return nil, err
	}
	for p.isP("[") && p.i+1 < len(p.ts) && p.ts[p.i+1].k == "p" && p.ts[p.i+1].v == "]" {
		p.i += 2
		t = &Type{T: "arr", E: t}
	}
	return t, nil
}

func (p *parser) parsePrimary() (*Type, error) {
	t := p.next()
	switch {
	case t.k == "str":
		return &Type{T: "lit", V: t.v}, nil
	case t.k == "num":
		return &Type{T: "numlit", V: t.v}, nil
	case t.k == "p" && t.v == "(":
		// function type "(a: T, ...) => R": opaque (never a JSON position)
		depth, j := 1, p.i
		for j < len(p.ts) && depth > 0 {
			if p.ts[j].k == "p" && p.ts[j].v == "(" {
				depth++
			}
			if p.ts[j].k == "p" && p.ts[j].v == ")" {
				depth--
			}
			j++
		}
		if j < len(p.ts) && p.ts[j].k == "p" && p.ts[j].v == "=>" {
			p.i = j + 1
			if _, err := p.parseType(); err != nil {
				return nil, err
			}
			return &Type{T: "prim", N: "function"}, nil
		}
		inner, err := p.parseType()
		if err != nil {
			return nil, err
		}
		if err := p.expectP(")"); err != nil {
			return nil, err
		}
		return inner, nil
	case t.k == "p" && t.v == "{":
		return p.parseObjectBody("")
	case t.k == "id":
		if t.v == "typeof" || t.v == "keyof" {
			// type query: opaque
			p.next()
			for p.isP(".") {
				p.i++
				p.next()
			}
			return &Type{T: "prim", N: "opaque"}, nil
		}
		if prims[t.v] {
			return &Type{T: "prim", N: t.v}, nil
		}
		name := t.v
		for p.isP(".") {
			p.i++
			name += "." + p.next().v
		}
		if p.isP("<") {
			p.i++
			var args []*Type
			for {
				a, err := p.parseType()
				if err != nil {
					return nil, err
				}
				args = append(args, a)
				if p.isP(",") {
					p.i++
					continue
				}
				break
			}
			if err := p.expectP(">"); err != nil {
				return nil, err
			}
			if name == "Record" && len(args) == 2 {
				return &Type{T: "rec", K: args[0], Val: args[1]}, nil
			}
			if name == "Array" && len(args) == 1 {
				return &Type{T: "arr", E: args[0]}, nil
			}
			return &Type{T: "gen", N: name, Args: args}, nil
		}
		return &Type{T: "ref", N: name}, nil
	}
	return nil, fmt.Errorf("unexpected token %q at %d", t.v, p.i-1)
}

// parseObjectBody parses members up to the closing brace (the opening one is consumed).
// Method signatures are collected into the module when owner != "".
func (p *parser) parseObjectBody(owner string) (*Type, error) {
	obj := &Type{T: "obj", Props: []*Prop{}}
	for !p.isP("}") {
		if p.peek().k == "eof" {
			return nil, fmt.Errorf("unterminated object type")
		}
		if p.isP(";") || p.isP(",") {
			p.i++
			continue
		}
		if p.peek().k == "id" && p.peek().v == "readonly" && p.i+1 < len(p.ts) && (p.ts[p.i+1].k == "id" || p.ts[p.i+1].k == "str") {
			p.i++
		}
		if p.isP("[") {
			// index signature [k: string]: T
			p.i++
			p.next() // name
			if err := p.expectP(":"); err != nil {
				return nil, err
			}
			kt, err := p.parseType()
			if err != nil {
				return nil, err
			}
			if err := p.expectP("]"); err != nil {
				return nil, err
			}
			if err := p.expectP(":"); err != nil {
				return nil, err
			}
			vt, err := p.parseType()
			if err != nil {
				return nil, err
			}
			obj.Props = append(obj.Props, &Prop{Name: "[index]", Opt: true, Ty: &Type{T: "rec", K: kt, Val: vt}})
			continue
		}
		nameTok := p.next()
		if nameTok.k != "id" && nameTok.k != "str" && nameTok.k != "num" {
			return nil, fmt.Errorf("member name expected, found %q at %d", nameTok.v, p.i-1)
		}
		opt := false
		if p.isP("?") {
			opt = true
			p.i++
		}
		if p.isP("(") {
			m, err := p.parseMethodRest(owner, nameTok.v)
			if err != nil {
				return nil, err
			}
			if owner != "" && m != nil {
				pendingMethods = append(pendingMethods, m)
			}
			continue
		}
		if err := p.expectP(":"); err != nil {
			return nil, err
		}
		ty, err := p.parseType()
		if err != nil {
			return nil, err
		}
		obj.Props = append(obj.Props, &Prop{Name: nameTok.v, Opt: opt, Ty: ty})
	}
	p.i++ // }
	return obj, nil
}

var pendingMethods []*Method

// parseMethodRest parses "(a: T, b?: U): R" after the method name.
func (p *parser) parseMethodRest(owner, name string) (*Method, error) {
	if err := p.expectP("("); err != nil {
		return nil, err
	}
	m := &Method{Owner: owner, Name: name}
	for !p.isP(")") {
		pn := p.next()
		if p.isP("?") {
			p.i++
		}
		if err := p.expectP(":"); err != nil {
			return nil, err
		}
		ty, err := p.parseType()
		if err != nil {
			return nil, err
		}
		if pn.v == "req" {
			m.Req = ty
		}
		if p.isP(",") {
			p.i++
		}
	}
	p.i++
	if p.isP(":") {
		p.i++
		rt, err := p.parseType()
		if err != nil {
			return nil, err
		}
		if rt.T == "gen" && rt.N == "Promise" && len(rt.Args) == 1 {
			rt = rt.Args[0]
		}
		m.Result = rt
	}
	return m, nil
}

var classMethodRe = regexp.MustCompile(`(?m)^\s*async\s+([A-Za-z_$][\w$]*)\s*\(\s*req\s*:\s*([^,)]+?)\s*(?:,[^)]*)?\)\s*:\s*Promise<(.+)>\s*\{\s*$`)
var classRe = regexp.MustCompile(`(?m)^export class\s+([A-Za-z_$][\w$]*)`)

// Parse reads every exported interface and type alias of the module, the method signatures of its
// interfaces and the async methods of its client classes.
func Parse(src string) (*Module, error) {
	ts, err := lex(src)
	if err != nil {
		return nil, err
	}
	p := &parser{ts: ts}
	mod := &Module{}
	pendingMethods = nil
	depth := 0
	for p.i < len(p.ts) {
		t := p.peek()
		if depth == 0 && t.k == "id" && t.v == "export" && p.i+2 < len(p.ts) {
			kw, name := p.ts[p.i+1], p.ts[p.i+2]
			if kw.k == "id" && kw.v == "interface" && name.k == "id" {
				p.i += 3
				for !p.isP("{") && p.peek().k != "eof" {
					p.i++ // extends clauses are not emitted; skipped if present
				}
				p.i++
				ty, err := p.parseObjectBody(name.v)
				if err != nil {
					return nil, fmt.Errorf("interface %s: %w", name.v, err)
				}
				mod.Decls = append(mod.Decls, &Decl{Name: name.v, Ty: ty})
				continue
			}
			if kw.k == "id" && kw.v == "type" && name.k == "id" {
				p.i += 3
				if err := p.expectP("="); err != nil {
					return nil, fmt.Errorf("type %s: %w", name.v, err)
				}
				ty, err := p.parseType()
				if err != nil {
					return nil, fmt.Errorf("type %s: %w", name.v, err)
				}
				mod.Decls = append(mod.Decls, &Decl{Name: name.v, Ty: ty})
				continue
			}
		}
		if t.k == "p" && (t.v == "{" || t.v == "(" || t.v == "[") {
			depth++
		}
		if t.k == "p" && (t.v == "}" || t.v == ")" || t.v == "]") {
			depth--
		}
		p.i++
	}
	mod.Methods = append(mod.Methods, pendingMethods...)
	// client classes
	classes := classRe.FindAllStringSubmatchIndex(src, -1)
	for ci, loc := range classes {
		end := len(src)
		if ci+1 < len(classes) {
			end = classes[ci+1][0]
		}
		cname := src[loc[2]:loc[3]]
		for _, mm := range classMethodRe.FindAllStringSubmatch(src[loc[0]:end], -1) {
			req, err1 := ParseType(mm[2])
			res, err2 := ParseType(mm[3])
			if err1 != nil || err2 != nil {
				return nil, fmt.Errorf("class %s method %s: %v %v", cname, mm[1], err1, err2)
			}
			mod.Methods = append(mod.Methods, &Method{Owner: cname, Name: mm[1], Req: req, Result: res})
		}
	}
	return mod, nil
}

// ParseType parses one type expression.
func ParseType(s string) (*Type, error) {
	ts, err := lex(s)
	if err != nil {
		return nil, err
	}
	p := &parser{ts: ts}
	t, err := p.parseType()
	if err != nil {
		return nil, err
	}
	if p.i != len(p.ts) {
		return nil, fmt.Errorf("trailing tokens in type %q", s)
	}
	return t, nil
}

// TLA renders the node with exactly the fields its tag carries (no nulls, empty sequences kept).
func (t *Type) TLA() map[string]any {
	if t == nil {
		return map[string]any{"t": "prim", "n": "unknown"}
	}
	seq := func(ts []*Type) []any {
		out := make([]any, 0, len(ts))
		for _, x := range ts {
			out = append(out, x.TLA())
		}
		return out
	}
	switch t.T {
	case "prim", "ref":
		return map[string]any{"t": t.T, "n": t.N}
	case "lit", "numlit":
		return map[string]any{"t": t.T, "v": t.V}
	case "arr":
		return map[string]any{"t": "arr", "e": t.E.TLA()}
	case "rec":
		return map[string]any{"t": "rec", "k": t.K.TLA(), "v": t.Val.TLA()}
	case "gen":
		return map[string]any{"t": "gen", "n": t.N, "args": seq(t.Args)}
	case "union":
		return map[string]any{"t": "union", "alts": seq(t.Alts)}
	case "inter":
		return map[string]any{"t": "inter", "parts": seq(t.Parts)}
	case "obj":
		ps := make([]any, 0, len(t.Props))
		for _, p := range t.Props {
			ps = append(ps, map[string]any{"name": p.Name, "opt": p.Opt, "ty": p.Ty.TLA()})
		}
		return map[string]any{"t": "obj", "props": ps}
	}
	return map[string]any{"t": "prim", "n": "unknown"}
}
