package tsdecl

import (
	"encoding/json"
	"testing"
)

func TestParse(t *testing.T) {
	src := `
export interface A {
  id: string;
  n?: number;
  tags: string[];
  m: Record<string, B>;
  v: string | null;
}
export type E = "X" | "Y";
export type U =
  | { kind: "a"; x?: number }
  | { kind: "b"; inner?: B };
export interface WBase { k: string; }
export type W = WBase & U;
export interface RouteDescriptor { method: string; handler: (req: Request) => Promise<Response>; }
export interface SvcHandler {
  do(ctx: ServerContext, req: A): Promise<B[]>;
}
export class SvcClient {
  private x: string;
  async do(req: A, options?: SvcCallOptions): Promise<Record<string, B>> {
    const y = { a: 1 };
  }
}
`
	m, err := Parse(src)
	if err != nil {
		t.Fatal(err)
	}
	b, _ := json.Marshal(m.Decls)
	if len(m.Decls) != 7 {
		t.Fatalf("decls %d: %s", len(m.Decls), b)
	}
	if len(m.Methods) != 2 || m.Methods[0].Result.T != "arr" || m.Methods[1].Result.T != "rec" {
		mb, _ := json.Marshal(m.Methods)
		t.Fatalf("methods: %s", mb)
	}
	if m.Decls[2].Ty.T != "union" || len(m.Decls[2].Ty.Alts) != 2 || m.Decls[4].Ty.T != "inter" {
		t.Fatalf("%s", b)
	}
}
